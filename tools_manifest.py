#!/usr/bin/env python3
"""Regenerate MANIFEST.json from the table below (kept valid at all times)."""
import json, os
HERE = os.path.dirname(os.path.abspath(__file__))

BUILT = {
 'C01': dict(cat='exploration', tech='shadow-value runtime monitor: random expression programs evaluated by the real functions, every node and observer compared with a longdouble / exact-integer dense shadow',
   text='Oracle on executions of the real add/sub/mul/outer/copy and all evaluation routines over generated programs and TT families; held on the K programs listed in the evidence, never "verified".',
   note='Trusted: NumPy longdouble arithmetic as dense reference; tolerance 10(sum ranks+d)2^-52*absbound; exact Python ints for integer cores.', ref='§4 C01'),
}

ALL = ['C%02d' % i for i in range(1, 21)]


def main():
    checks, na = [], []
    for pid in ALL:
        if pid in BUILT:
            b = BUILT[pid]
            checks.append({
                'property_id': pid,
                'quick_cmd': f'./check {pid} --tier quick',
                'thorough_cmd': f'./check {pid} --tier thorough',
                'evidence_file': f'evidence/{pid}.json',
                'replay_cmd_template': f'./check {pid} --replay {{path}}',
                'engine': 'tvmon',
                'level_claimed': {'category': b['cat'], 'text': b['text'],
                    'design_ref': b['ref']},
                'level_note': b['note'],
                'technique': b['tech'],
            })
        else:
            na.append({'property_id': pid, 'reason':
                'check not built yet at this commit (planned with the same '
                'runtime-monitoring framework, see DESIGN.md §4)'})
    man = {
        'version': 1,
        'setup_cmd': './check --setup',
        'hooks': {
            'guard': 'TENEVA_VERIF',
            'enable': 'no source hooks: TENEVA_VERIF=1 only switches on the '
                'harness-side interposition (rebinding teneva.<name> and '
                'module globals, sys.monitoring line probes) in ./check',
            'baseline_off_cmd': 'cd /repo && env -u TENEVA_VERIF /venv/bin/python -m pytest -ra -q -p no:cacheprovider --timeout=900 --continue-on-collection-errors',
            'source_commits': [],
            'add_only': True,
        },
        'engines': [{'name': 'tvmon', 'path': 'tvmon/',
            'serves_properties': sorted(BUILT),
            'kind_free_text': 'runtime monitors (function interposition, '
                'shadow values, reference models, sanitizer analogues, event-'
                'log checkers) driven by generated and fault-injected '
                'workloads'}],
        'checks': checks,
        'not_applicable': na,
        'notes': 'Exit codes of ./check: 0 held, 1 violation (VIOLATION '
            'line), 2 inconclusive (a deciding monitor was never reached).',
    }
    with open(os.path.join(HERE, 'MANIFEST.json'), 'w') as f:
        json.dump(man, f, indent=1)
        f.write('\n')


if __name__ == '__main__':
    main()
