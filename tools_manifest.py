#!/usr/bin/env python3
"""Regenerate MANIFEST.json from the table below (kept valid at all times)."""
import json, os
HERE = os.path.dirname(os.path.abspath(__file__))

BUILT = {
 'C02': dict(cat='exploration', tech='postcondition monitor interposed on truncate (all direct and nested calls) with dense-SVD reference; thresholds placed at every rank change',
   text='Every execution of truncate in the workload (and inside add_many) is judged against the dense SVD of its own input: error bound, rank caps, quasi-optimality, minimal ranks; add_many recursion over exact partial sums. Held on the executions listed in the evidence.',
   note='Trusted: LAPACK dense SVD; rounding floor 50(d-1)eps||absbound|| (+ sqrt(50(d-1)eps)||A|| in eigen mode); zero-norm inputs are judged by C11, not here.', ref='§4 C02'),
 'C03': dict(cat='exploration', tech='postcondition monitors interposed on svd / matrix_skeleton / matrix_svd (all calls) with dense-SVD reference; exhaustive unit-matrix probe of the svd_matrix interleaving',
   text='Every execution of the TT-SVD and of the truncated matrix factorisations is judged against the dense SVD of its own input (error bound, exact ranks for exact-rank data, smallest admissible inner size, give_to conventions); svd_matrix entry map checked on all unit matrices up to 16x16.',
   note='Trusted: LAPACK dense SVD; noise of computed singular values 1e3*eps*s1 (Gram variant: 1e3*eps*s1^2 on squares); zero matrices belong to C11.', ref='§4 C03'),
 'C04': dict(cat='exploration', tech='postcondition monitors interposed on orthogonalize / orthogonalize_left / orthogonalize_right (all calls, every pivot enumerated): Gram matrices, dense or probe-based tensor identity, byte snapshots for the in-place contract',
   text='For every generated tensor every pivot and both stabilisation settings are executed and judged: orthonormal cores around the pivot, tensor preserved (times 2^p), pivot norm, rank cuts, no aliasing, moderate magnitudes, ValueError for out-of-range pivots, in-place contract of the single-step variants.',
   note='Trusted: longdouble contraction / unbounded-exponent probes as reference; tolerance 50 d eps prod||G_k||_F.', ref='§4 C04'),
 'C05': dict(cat='exploration', tech='boundary trace (logged objective batches, per-sweep callback, tensor copies, info, cache) checked offline; differential run with and without cache',
   text='Each TT-cross run on an exact-rank target is recorded at its boundary and judged: exactness once a full sweep ran at ranks >= rho, bitwise cache transparency with counter conservation m_cached + m_cache = m_plain, cache contents = evaluated pairs, info r / e_vld / e recomputed from the returned tensor and the previous sweep (r and e_vld also for runs interrupted by budget or objective in either half-sweep).',
   note='Trusted: dense table objective (batch-independent values); conditioning threshold 1e-5 for "almost all"; exactness tolerance 1e-8 max|T|.', ref='§4 C05'),
 'C06': dict(cat='fault_enumeration', tech='complete enumeration of interruption points (every budget, every None-returning call, every callback stop, every stop-argument pattern, thresholds around the trajectory) with an offline checker over the recorded event log (prefix rule against a fault-free reference run)',
   text='Per configuration the whole interruption space is enumerated and every run is checked: index domain, budget, info counters against the objective log, prefix rule, exactly one consistent stop reason, no evaluation after a stop, well-formed finite result in every interrupted run, ValueError before any evaluation for missing criteria.',
   note='Assumes nothing about internals: the reference run supplies the batch sequence; line probes on the early-return blocks are reported as coverage only.', ref='§4 C06'),
 'C08': dict(cat='exploration', tech='postcondition monitors interposed on maxvol / maxvol_rect / _maxvol (all calls incl. those from TT-cross) plus a sys.monitoring line probe counting row swaps',
   text='Every execution is judged: distinct in-range row numbers of the promised count, A = B A[I], B[I] = identity, max|B| <= e when the swap count stayed below k (independent coefficients by a linear solve), row norms <= e when the rectangular variant stopped early, ValueError for non-tall input and inconsistent dr_min/dr_max.',
   note='Residual tolerance of A = B A[I]: 100 eps (r+steps+10) r max(1,|B|) |A[I]| (backward-stable model, no conditioning factor); B[I] = identity judged with the forward bound (conditioning of the selected rows); inputs are tall matrices of full column rank (cond <= 1e8) incl. duplicate and zero rows.', ref='§4 C08'),
 'C07': dict(cat='exploration', tech='per-update contract interposed on als._optimize_core / als_func._optimize_core (normal equations of every trained slice), objective trajectory from callback / interposed accuracy, metamorphic restart and permutation runs calibrated by measured rounding amplification, np.empty poison for the rank-adaptive mode',
   text='Every core update of every run is judged to be the regularised least-squares minimiser with untouched slices byte-identical; the recomputed objective never increases; shape/ranks kept; the last-updated core is optimal w.r.t. independently rebuilt interfaces; all splittings a+b and 3 permutations agree; ValueError / info / callback contract; rank-adaptive results finite with ranks <= r under poisoned np.empty.',
   note='lamb=None is outside the quantifier; instances amplifying 1e-14 data perturbations by > 1e6 are not judged for restart/permutation; als_func with thr_pow=0.', ref='§4 C07'),
 'C15': dict(cat='exploration', tech='postcondition monitors interposed on optima_tt_beam / optima_tt_max / optima_tt (all external and internal calls) against the longdouble dense tensor of the call argument; end-to-end monitors for optima_qtt, optima_tt_maxvol, optima_func_tt_beam; known findings keyed by mechanism',
   text='Indices in bounds, reported values equal the entries, min <= max; exactness judged value-wise under a full beam and for rank-1 tensors; quantised variant mapped back by an own index map; functional variant against chebroots of the derivative plus a grid. Three mechanisms (K1, K2, K4) are genuine, unrepaired findings and are reported as KNOWN-FINDING.',
   note='Tolerances 10(sum ranks+d) eps absbound for entries; known findings are matched by mechanism (rank-1 and pruning beam and correct max-modulus and opposite extreme missed; rank-deficient matrix handed to maxvol), never by seed.', ref='§4 C15'),
 'C16': dict(cat='exploration', tech='reference evaluated in (longdouble mantissa, integer exponent) arithmetic with a running-error bound; returned (mantissa, exponent) pairs of the stabilised routines compared after aligning exponents; power-of-two metamorphic test; known findings keyed by input mechanism',
   text='Stabilised mul_scalar / norm / orthogonalize / accuracy / truncate executed on tensors with d up to 3000 (thorough 6000) and log2 norm in +-30000 and judged against the unbounded-exponent reference: value, moderate mantissa, integer / half-integer exponent, saturation values, agreement with the plain routines where representable, exact exponent shift under power-of-two rescaling. Three mechanisms are genuine unrepaired findings (KNOWN-FINDING).',
   note='Tolerance 10*2^-52*first-order running-error bound; ill-conditioned scalar products (bound > 1e-3 |value|) not judged.', ref='§4 C16'),
 'C20': dict(cat='exploration', tech='end-to-end oracle on executions: exact-rank dense target -> sample_tt -> svd_incomplete, compared with the dense target; conditioning of the sampled blocks computed from target and sample set only',
   text='Well-formedness, ranks <= cap and max|Z - T| <= 1e-7 max|T| for every generated target of TT-rank rho sampled for expected rank m >= rho with all mode sizes >= m.',
   note='Sampled blocks with sigma_rho/sigma_1 < 1e-5 are not judged ("almost all").', ref='§4 C20'),
 'C09': dict(cat='exploration', tech='sanitizer-style monitors on every exported name via an API table: byte snapshots of all reachable argument arrays and container structure, numpy.shares_memory between result and arguments, read-only trap pass; four memory layouts per call shape',
   text='All 107 exported names are executed in every documented argument combination of the table with C / Fortran / strided / shared-buffer layouts; arguments must be byte-identical afterwards, no returned floating-point array may share memory with an argument, and no in-place write may hit a read-only argument; the documented exceptions (in-place flag, info/cache, pass-through helpers) are modelled explicitly.',
   note='Undocumented parameters are not driven; getter (numba), the draft func_diff_matrix_apply(cheb) and als(use_stab) raise and are recorded as not drivable; index vectors handed back are recorded, not judged.', ref='§4 C09'),
 'C10': dict(cat='exploration', tech='history differential: bundles of probe calls executed in three fresh interpreters (solo / two different interleavings with other calls, global reseeding and draws, poisoned shared default dictionaries) with bitwise comparison of canonical result encodings; in-pass monitors on the global generator state, numpy.random entry points (caller attribution), generator objects and np.empty contents',
   text='Every probe result must be bit-identical across the three histories; repeated calls agree; the global NumPy generator state is untouched and no legacy numpy.random function is called from teneva frames; a generator object passed as seed is the only source (clones end in the same state); results do not depend on np.empty contents (NaN / 1e300 fills).',
   note='rand_custom without f (documented np.random.randn) is exempt; seed=None is random by design; Generator(s) is not required to reproduce seed=s.', ref='§4 C10'),
 'C13': dict(cat='exploration', tech='independent recomputation of the additive model (longdouble scatter means), auditing numpy Generator subclass recording every normal draw (noise > 0 checked exactly), add_many interposed to judge the order-2 summands before rounding, ridge normal equations for the functional variant',
   text='f0 / f1 / pair terms of the class equal the recomputed conditional means; the TT evaluates to f0 + sum f1 (+ pair terms when r is large enough) at every index of the observed domain, exactly reconstructing the recorded noise; mode sizes and ranks as stated; anova_func coefficients satisfy the ridge normal equations and the interpolant equals the fitted expansions.',
   note='Order-2 end-to-end tolerance contains the eigen-mode rounding floor of add_many/truncate (sqrt(eps)-like), derived in the module; data scales 1e-2..1e3 for order 2.', ref='§4 C13'),
 'C17': dict(cat='exploration', tech='exhaustive enumeration of the index maps against Python integer bit arithmetic for all (d,q) with q*d <= 10 (thorough 14); conversion monitors with own longdouble contraction and a Gram-matrix rounding model',
   text='ind_tt_to_qtt / ind_qtt_to_tt are inverse little-endian bijections for single indices and batches; tt_to_qtt keeps the TT ranks at mode boundaries, respects the cap inside modes, meets e*sqrt(q)+floor per core, and the QTT entry at bits(i) equals the TT entry at i; non powers of two rejected.',
   note='Not judged: cap binds; singular values inside the Gram rounding band (decided from numpy.linalg.svd of the input only).', ref='§4 C17'),
 'C11': dict(cat='exploration', tech='well-formedness / finiteness contract on every returned tensor and scalar over the cross product degenerate families x routines x flags, executed under NaN poison of np.empty; the library validator teneva.show as a second judge',
   text='Exact-zero tensors (four constructions), rank 1, rank-deficient, over-ranked, d = 2, mode size 1 at every position, all modes 1, constant / zero data and repeated samples are pushed through truncate, orthogonalize, svd, svd_matrix, QTT conversion, add_many (incl. cancelling sums), cross, als (both modes), als_func, anova, anova_func and the Chebyshev transforms in every flag combination; results must be well-formed and finite, scalars finite, undefined accuracy = -1.',
   note='accuracy_on_data against all-zero data recorded only; tt_to_qtt on mode size 1 (q = 0) outside its domain.', ref='§4 C11'),
 'C18': dict(cat='exploration', tech='exhaustive round trip of every grid index for n up to 4097 (thorough 1e6) per box, probes on both sides of every cell boundary with a longdouble arccos oracle, exact Fraction reference for poi_scale',
   text='Uniform and Chebyshev index<->point maps: round trip, end points, images in the box, nearest node in the grid parameter (ties free), clamping outside; poi_scale affine with clipping; scalar/vector options and single/batch calls bit-identical; grid_flat order; ValueError for inconsistent option lengths; cdf_getter right-continuous.',
   note='Boxes restricted to K n^2 2^-52 < 1e-3 (Chebyshev) / K n 2^-52 < 1e-3 (uniform), beyond which the nodes are not distinct doubles.', ref='§4 C18'),
 'C12': dict(cat='exploration', tech='oracle on executions with numpy.polynomial (monomial and Chebyshev classes) as exact reference: generated polynomial functions in the exactness class pushed through the real interpolation / evaluation / re-sampling / integration / differentiation routines, TT against dense variants',
   text='func_int / func_get / func_gets / func_sum / func_diff_matrix and the dense func_*_full routines on random sums of products of polynomials of degree < n_k over arbitrary boxes: values, re-sampled grids, exact integrals, derivatives, fill value outside the box, linearity and inversion of the transform, agreement of TT and dense implementations, user bases fitted by func_int_general, sine kind round trip.',
   note='Tolerance 1e3*2^-52*sum|c||x|^j-style bounds from the polynomial coefficients; differentiation matrices with the (n-1)^(2m) conditioning factor.', ref='§4 C12'),
 'C14': dict(cat='exploration', tech='scripted auditing generator passed as seed: records every probability vector offered and drives the sampler down EVERY multi-index of small tensors (product of conditionals == entry / total); exact binomial tail tests on real draws as protocol-independent fallback; structural contracts on all samplers',
   text='For each tensor (N <= 300 entries) every multi-index is followed and the product of the recorded conditional probabilities must equal Y[j]/sum(Y) resp. Y[j]^2/sum(Y^2); offered vectors must be valid distributions; integer dtype, shape, bounds, uniqueness, Latin-hypercube balance and the sample_tt block layout are checked for arbitrary sizes.',
   note='Fallback tests at one-sided level 1e-18 per test (per-run false-alarm bound <= 1e-9); sample_square conditioning ratio > 1e6 not judged.', ref='§4 C14'),
 'C19': dict(cat='exploration', tech='dense export (own longdouble contraction) against closed forms; exhaustive delta positions incl. negatives up to a bounded q plus sampled q up to 62 by own bit arithmetic on the rank-1 cores; auditing generator recording the single flat draw of the random constructors',
   text='const (incl. zero lists / protected index / ValueError), delta, vector_delta and matrix_delta at every position, poly for scalar/vector shifts and powers 0..4, rand / rand_norm / rand_custom / rand_stab cores exactly equal to the Fortran-order cut of the recorded draw, rank profiles, value ranges, rand_stab entries of order one at d = 1000.',
   note='const tolerance 4 d 2^-52 relative (d-th root).', ref='§4 C19'),
 'C01': dict(cat='exploration', tech='shadow-value runtime monitor: random expression programs evaluated by the real functions, every node and observer compared with a longdouble / exact-integer dense shadow',
   text='Oracle on executions of the real add/sub/mul/outer/copy and all evaluation routines over generated programs and TT families (incl. entries of 1e+-60, tensors with up to 2^70 entries judged against exact Python-integer references, operands stored as float32); held on the K programs listed in the evidence, never "verified".',
   note='Trusted: NumPy longdouble arithmetic as dense reference; tolerance 10(sum ranks+d)2^-52*absbound; exact Python ints for integer cores.', ref='§4 C01'),
}

ALL = ['C%02d' % i for i in range(1, 21)]


def main():
    checks, na = [], []
    for pid in ALL:
        if pid in BUILT:
            b = BUILT[pid]
            checks.append({
                'property_id': pid,
                'quick_cmd': f'./check {pid} --tier quick',
                'thorough_cmd': f'./check {pid} --tier thorough',
                'evidence_file': f'evidence/{pid}.json',
                'replay_cmd_template': f'./check {pid} --replay {{path}}',
                'engine': 'tvmon',
                'level_claimed': {'category': b['cat'], 'text': b['text'],
                    'design_ref': b['ref']},
                'level_note': b['note'],
                'technique': b['tech'],
            })
        else:
            na.append({'property_id': pid, 'reason':
                'check not built yet at this commit (planned with the same '
                'runtime-monitoring framework, see DESIGN.md §4)'})
    man = {
        'version': 1,
        'setup_cmd': './check --setup',
        'hooks': {
            'guard': 'TENEVA_VERIF',
            'enable': 'no source hooks: TENEVA_VERIF=1 only switches on the '
                'harness-side interposition (rebinding teneva.<name> and '
                'module globals, sys.monitoring line probes) in ./check',
            'baseline_off_cmd': 'cd /repo && env -u TENEVA_VERIF /venv/bin/python -m pytest -ra -q -p no:cacheprovider --timeout=900 --continue-on-collection-errors',
            'source_commits': [],
            'add_only': True,
        },
        'engines': [{'name': 'tvmon', 'path': 'tvmon/',
            'serves_properties': sorted(BUILT),
            'kind_free_text': 'runtime monitors (function interposition, '
                'shadow values, reference models, sanitizer analogues, event-'
                'log checkers) driven by generated and fault-injected '
                'workloads'}],
        'checks': checks,
        'not_applicable': na,
        'notes': 'Exit codes of ./check: 0 held, 1 violation (VIOLATION '
            'line), 2 inconclusive (a deciding monitor was never reached).',
    }
    with open(os.path.join(HERE, 'MANIFEST.json'), 'w') as f:
        json.dump(man, f, indent=1)
        f.write('\n')


if __name__ == '__main__':
    main()
