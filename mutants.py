"""Mutant list for ./selftest: small realistic changes, one per entry.

Each file mutants.d/cXX.py calls M(pid, name, file, old, new[, count]).
"""
import glob
import os

MUTANTS = []


def M(pid, name, file, old, new, count=1):
    MUTANTS.append(dict(pid=pid, name=name, file=file, old=old, new=new,
        count=count))


for _p in sorted(glob.glob(os.path.join(os.path.dirname(os.path.abspath(
        __file__)), 'mutants.d', 'c*.py'))):
    exec(compile(open(_p).read(), _p, 'exec'), {'M': M})
