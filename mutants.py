"""Mutant list for ./selftest: small realistic changes, one per entry."""

MUTANTS = []


def M(pid, name, file, old, new, count=1):
    MUTANTS.append(dict(pid=pid, name=name, file=file, old=old, new=new,
        count=count))


# ---- C01
M('C01', 'add-block-order', 'act_two.py',
  "            L1 = np.concatenate([G1, Z1], axis=2)\n            L2 = np.concatenate([Z2, G2], axis=2)",
  "            L1 = np.concatenate([Z1, G1], axis=2)\n            L2 = np.concatenate([G2, Z2], axis=2)")
M('C01', 'sub-number-sign', 'act_two.py',
  "Y2 = teneva.const(teneva.shape(Y1), -1.*Y2)",
  "Y2 = teneva.const(teneva.shape(Y1), 1.*Y2)")
M('C01', 'mul-kron-swapped', 'act_two.py',
  "        G = G1[:, None, :, :, None] * G2[None, :, :, None, :]\n        G = G.reshape([G1.shape[0]*G2.shape[0], -1, G1.shape[-1]*G2.shape[-1]])\n        Y.append(G)",
  "        G = G1[:, None, :, None, :] * G2[None, :, :, :, None]\n        G = G.reshape([G1.shape[0]*G2.shape[0], -1, G1.shape[-1]*G2.shape[-1]])\n        Y.append(G)")
M('C01', 'mean-normalisation', 'act_one.py',
  "            p = np.ones(k) / k if norm else np.ones(k)",
  "            p = np.ones(k) / (k + 1) if norm else np.ones(k)")
M('C01', 'interface-natural-norm', 'act_one.py',
  "                phi[k] /= Y[k].shape[1]", "                phi[k] /= Y[k].shape[2]")
M('C01', 'get-many-index-from-end', 'act_one.py',
  "        Q = np.einsum('...q, q...r -> ...r', Q, Yk[:, I[..., k], :])",
  "        Q = np.einsum('...q, q...r -> ...r', Q, Yk[:, I[..., -k], :])")
M('C01', 'erank-formula', 'props.py',
  "    b = r[0] * n[0] + n[d-1] * r[d]", "    b = r[0] * n[0] + n[d-2] * r[d]")
M('C01', 'accuracy-denominator', 'act_two.py',
  "    z2, p2 = teneva.norm(Y2, use_stab=True)", "    z2, p2 = teneva.norm(Y1, use_stab=True)")
M('C01', 'grad-outer-transposed', 'act_one.py',
  "        Q[:, k, :] = np.outer(p_l, p_r)", "        Q[:, k, :] = np.outer(p_r, p_l).T if len(p_l) != len(p_r) else np.outer(p_r, p_l)")
