#!/usr/bin/env python3
"""Confirm and evaluate independently written faulty changes (seeded/<id>/).

    ./tools_seeded.py verify DIR   confirm the change in a scratch worktree of /repo (outside /repo and
                                   /verif): patch applies, demo exits 0 on the clean tree and 1 with the
                                   change, the baseline tests that pass on the clean tree still pass
    ./tools_seeded.py eval DIR [--tier quick] [--seeds 0,1] [--all]
                                   apply the patch to /repo (git apply), run the property's check (or
                                   all checks), undo (git checkout -- .); records which monitors fired

DIR holds patch.diff, demo.py, meta.json (property id).  Results go to DIR/result.json.
"""
import argparse
import json
import os
import shutil
import subprocess
import sys
import tempfile

HERE = os.path.dirname(os.path.abspath(__file__))
PY = '/venv/bin/python'
ENV = dict(os.environ, OPENBLAS_NUM_THREADS='2', OMP_NUM_THREADS='2',
    PYTHONDONTWRITEBYTECODE='1')
BASE_FAIL = {'test_norm_none', 'test_base'}


def sh(cmd, **kw):
    return subprocess.run(cmd, capture_output=True, text=True, **kw)


def load(d):
    meta = json.load(open(os.path.join(d, 'meta.json')))
    return meta, os.path.join(d, 'patch.diff'), os.path.join(d, 'demo.py')


def run_tests(root):
    env = dict(ENV, PYTHONPATH=root)
    env.pop('TENEVA_VERIF', None)
    p = sh([PY, '-m', 'pytest', '-q', '-p', 'no:cacheprovider', '--timeout=900',
        'test'], cwd=root, env=env, timeout=1800)
    tail = p.stdout.strip().splitlines()[-1] if p.stdout.strip() else ''
    passed = failed = 0
    for tok in tail.replace(',', ' ').split():
        pass
    import re
    m = re.search(r'(\d+) passed', tail)
    passed = int(m.group(1)) if m else 0
    m = re.search(r'(\d+) failed', tail)
    failed = int(m.group(1)) if m else 0
    return passed, failed, tail


def verify(d):
    meta, patch, demo = load(d)
    wt = tempfile.mkdtemp(prefix='tvseed-')
    os.rmdir(wt)
    res = {'property': meta['property']}
    try:
        p = sh(['git', '-C', '/repo', 'worktree', 'add', '--detach', wt, 'HEAD'])
        assert p.returncode == 0, p.stderr
        env = dict(ENV, PYTHONPATH=wt)
        c = sh([PY, demo, wt], env=env, timeout=1200)
        res['demo_clean_exit'] = c.returncode
        a = sh(['git', '-C', wt, 'apply', patch])
        res['patch_applies'] = a.returncode == 0
        if a.returncode == 0:
            c = sh([PY, demo, wt], env=env, timeout=1200)
            res['demo_changed_exit'] = c.returncode
            res['demo_changed_output'] = (c.stdout + c.stderr)[-600:]
            res['tests_changed'] = run_tests(wt)
        res['confirmed'] = bool(res.get('patch_applies')
            and res['demo_clean_exit'] == 0
            and res.get('demo_changed_exit') == 1
            and res['tests_changed'][0] >= 57)
    finally:
        sh(['git', '-C', '/repo', 'worktree', 'remove', '--force', wt])
        shutil.rmtree(wt, ignore_errors=True)
    return res


def evaluate(d, tier, seeds, all_checks, scratch=False):
    meta, patch, demo = load(d)
    pid = meta['property']
    pids = ['C%02d' % i for i in range(1, 21)] if all_checks else [pid]
    out = {}
    env = dict(os.environ)
    if scratch:
        # same code path of the checks, but the changed tree is a scratch
        # worktree handed over through VERIF_REPO (safe while other runs use /repo)
        target = tempfile.mkdtemp(prefix='tvseed-')
        os.rmdir(target)
        p = sh(['git', '-C', '/repo', 'worktree', 'add', '--detach', target, 'HEAD'])
        assert p.returncode == 0, p.stderr
        env['VERIF_REPO'] = target
    else:
        target = '/repo'
        st = sh(['git', '-C', '/repo', 'status', '--porcelain']).stdout.strip()
        assert not st, f'/repo is not clean: {st}'
    a = sh(['git', '-C', target, 'apply', patch])
    assert a.returncode == 0, a.stderr
    try:
        for q in pids:
            ev = os.path.join(HERE, 'evidence', f'{q}.json')
            saved = open(ev).read() if os.path.exists(ev) else None
            for seed in seeds:
                p = sh([os.path.join(HERE, 'check'), q, '--tier', tier, '--seed',
                    str(seed)], timeout=7200, env=env)
                mons = sorted({l.split('monitor=')[1].split()[0] for l in
                    p.stdout.splitlines() if l.startswith('  monitor=')})
                out.setdefault(q, []).append({'seed': seed, 'exit': p.returncode,
                    'monitors': mons})
            if saved is not None:
                open(ev, 'w').write(saved)
            shutil.rmtree(os.path.join(HERE, 'replays', q), ignore_errors=True)
    finally:
        if scratch:
            sh(['git', '-C', '/repo', 'worktree', 'remove', '--force', target])
            shutil.rmtree(target, ignore_errors=True)
        else:
            sh(['git', '-C', '/repo', 'checkout', '--', '.'])
    return out


def fmt_runs(runs):
    if not runs:
        return '-'
    exits = {x['exit'] for x in runs}
    mons = sorted({m for x in runs for m in x['monitors']})
    if exits == {1}:
        return 'caught: ' + ', '.join(mons)
    if exits == {0}:
        return 'MISSED'
    return f'exits {sorted(exits)}: ' + ', '.join(mons)


def summary():
    """seeded/README.md: one row per independently written faulty change."""
    import glob
    notes_p = os.path.join(HERE, 'seeded', 'NOTES.json')
    notes = json.load(open(notes_p)) if os.path.exists(notes_p) else {}
    rows = []
    for d in sorted(glob.glob(os.path.join(HERE, 'seeded', 'C*'))):
        if not os.path.isdir(d):
            continue
        sid = os.path.basename(d)
        meta = json.load(open(os.path.join(d, 'meta.json')))
        rp = os.path.join(d, 'result.json')
        res = json.load(open(rp)) if os.path.exists(rp) else {}
        pid = meta['property']
        conf = res.get('verify', {}).get('confirmed')
        init = res.get('baseline') or res.get('initial', {})
        fin = res.get('eval', {}).get('quick', {}) or \
            res.get('eval', {}).get('quick-scratch', {})
        rows.append((sid, pid, str(meta.get('summary', ''))[:230].replace(
            '\n', ' ').replace('|', '/'), str(meta.get('needs_to_manifest',
            ''))[:200].replace('\n', ' ').replace('|', '/'),
            'yes' if conf else str(conf), fmt_runs(init.get(pid)),
            fmt_runs(fin.get(pid)), notes.get(sid, '')))
    out = ['# Independently written faulty changes (seeded)', '',
        'Each directory holds `patch.diff` (applies to /repo HEAD), `demo.py` '
        '(exits 1 with the change, 0 without), `meta.json` (what it breaks, '
        'what it needs to manifest, written by its author) and `result.json` '
        '(our confirmation in a scratch worktree and the check results). '
        'Authors were sub-agents that saw only the property text and a scratch '
        'worktree of /repo, nothing from /verif.', '',
        '"first evaluation" = the property\'s quick check (seeds 0, 1) as it '
        'was before the change was looked at; "now" = the committed check.',
        '', '| id | property | change | needs | confirmed | first evaluation |'
        ' now | strengthening |', '|---|---|---|---|---|---|---|---|']
    for r in rows:
        out.append('| ' + ' | '.join(r) + ' |')
    nm = sum(1 for r in rows if r[5] == 'MISSED')
    nn = sum(1 for r in rows if r[6].startswith('caught'))
    out += ['', f'{len(rows)} changes; {nm} missed at first evaluation; '
        f'{nn} caught by the committed checks.']
    with open(os.path.join(HERE, 'seeded', 'README.md'), 'w') as f:
        f.write('\n'.join(out) + '\n')
    print('\n'.join(out[-3:]))


def main():
    if len(sys.argv) > 1 and sys.argv[1] == 'summary':
        return summary()
    ap = argparse.ArgumentParser()
    ap.add_argument('cmd', choices=['verify', 'eval'])
    ap.add_argument('dir')
    ap.add_argument('--tier', default='quick')
    ap.add_argument('--seeds', default='0')
    ap.add_argument('--all', action='store_true')
    ap.add_argument('--scratch', action='store_true')
    a = ap.parse_args()
    d = os.path.abspath(a.dir)
    rp = os.path.join(d, 'result.json')
    res = json.load(open(rp)) if os.path.exists(rp) else {}
    if a.cmd == 'verify':
        res['verify'] = verify(d)
        print(json.dumps(res['verify'], indent=1)[:1500])
    else:
        r = evaluate(d, a.tier, [int(x) for x in a.seeds.split(',')], a.all,
            a.scratch)
        res.setdefault('eval', {}).setdefault(a.tier + ('-scratch' if a.scratch
            else ''), {}).update(r)
        for q, runs in r.items():
            print(q, [(x['seed'], x['exit'], x['monitors']) for x in runs])
    with open(rp, 'w') as f:
        json.dump(res, f, indent=1)


if __name__ == '__main__':
    main()
