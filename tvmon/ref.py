"""tvmon.ref: reference models that do not use the code under test.

dense_ld / absbound: chain contraction in longdouble (64-bit mantissa) and the
same contraction of |cores|; tol_tt = 10 (sum ranks + d) 2^-52 absbound is the
running-error bound of a sum of products.  dense_int: exact Python integers.
"""
import itertools
from fractions import Fraction

import numpy as np

LD = np.longdouble
EPS = 2.0 ** -52


def _chain(cores, dtype):
    Z = np.asarray(cores[0], dtype=dtype)
    Z = Z.reshape(Z.shape[1], Z.shape[2]) if Z.shape[0] == 1 else None
    if Z is None:
        raise ValueError('first rank must be 1')
    shape = [Z.shape[0]]
    for G in cores[1:]:
        G = np.asarray(G, dtype=dtype)
        r1, n, r2 = G.shape
        Z = Z @ G.reshape(r1, n * r2)
        Z = Z.reshape(-1, r2)
        shape.append(n)
    if Z.shape[1] != 1:
        raise ValueError('last rank must be 1')
    return Z.reshape(shape)


def dense_ld(Y):
    """Dense tensor of TT `Y` (shape n_1 x ... x n_d, all axes kept)."""
    return _chain(Y, LD)


def absbound(Y):
    return _chain([np.abs(np.asarray(G, dtype=LD)) for G in Y], LD)


def nterms(Y):
    return int(sum(G.shape[2] for G in Y) + len(Y))


def tol_tt(Y, factor=10.):
    """Elementwise tolerance array for quantities linear in dense(Y)."""
    return factor * nterms(Y) * EPS * absbound(Y)


def is_int_tt(Y, bound=2**10):
    for G in Y:
        G = np.asarray(G)
        if not np.all(np.isfinite(G)):
            return False
        if np.any(G != np.rint(G)) or np.any(np.abs(G) > bound):
            return False
    return True


def dense_int(Y):
    """Exact dense tensor for integer-valued cores (object arrays of ints)."""
    def conv(G):
        return np.array([int(x) for x in np.asarray(G).reshape(-1)],
            dtype=object).reshape(np.asarray(G).shape)
    return _chain([conv(G) for G in Y], object)


def exact_fits_double(A):
    """True if all Python ints in object array A are exactly representable."""
    return all(abs(int(x)) < 2**53 for x in A.reshape(-1))


def shape_of(Y):
    return [int(G.shape[1]) for G in Y]


def ranks_of(Y):
    return [1] + [int(G.shape[2]) for G in Y]


def wellformed(Y, n=None, finite=True, ints=False):
    """None if Y is a well-formed TT (optionally of shape n), else a reason.
    ints=True also accepts integer-typed cores (arguments, never results)."""
    if not isinstance(Y, list):
        return f'not a list: {type(Y).__name__}'
    if len(Y) == 0:
        return 'empty list'
    r = 1
    for k, G in enumerate(Y):
        if not isinstance(G, np.ndarray):
            return f'core {k} is {type(G).__name__}'
        if G.ndim != 3:
            return f'core {k} has ndim {G.ndim}'
        if not (np.issubdtype(G.dtype, np.floating) or (ints
                and np.issubdtype(G.dtype, np.integer))):
            return f'core {k} has dtype {G.dtype}'
        if G.shape[0] != r:
            return f'core {k} left rank {G.shape[0]} != {r}'
        if min(G.shape) < 1:
            return f'core {k} has empty shape {G.shape}'
        if n is not None and G.shape[1] != int(n[k]):
            return f'core {k} mode size {G.shape[1]} != {int(n[k])}'
        if finite and not np.all(np.isfinite(G)):
            return f'core {k} has non-finite entries'
        r = G.shape[2]
    if n is not None and len(Y) != len(n):
        return f'd = {len(Y)} != {len(n)}'
    if r != 1:
        return f'last rank {r} != 1'
    return None


def unfold_svals(A, k):
    A = np.asarray(A, dtype=float)
    n = A.shape
    return np.linalg.svd(A.reshape(int(np.prod(n[:k])), -1), compute_uv=False)


def tail(s, q):
    return float(np.sqrt(np.sum(np.asarray(s[q:], dtype=float) ** 2)))


def fro(A):
    A = np.asarray(A, dtype=LD)
    return float(np.sqrt(np.sum(A * A)))


def all_indices(n):
    return np.array(list(itertools.product(*[range(k) for k in n])),
        dtype=int).reshape(-1, len(n))


# ---- unbounded-exponent reference (C16) ------------------------------------

def _norm2exp(M):
    """M (longdouble matrix) -> (M / 2^e, e) with max|M/2^e| in [0.5, 1)."""
    m = np.max(np.abs(M))
    if m == 0 or not np.isfinite(m):
        return M, 0
    _, e = np.frexp(m)
    e = int(e)
    return np.ldexp(M, -e), e


def scaled_scalar_product(Y1, Y2):
    """<Y1, Y2> as (mantissa longdouble, integer exponent), value = m 2^e.

    Each core is renormalised separately, so the result never over/underflows
    whatever the scales of the cores (entries must be finite doubles).
    """
    v = np.ones((1, 1), dtype=LD)
    e = 0
    for G1, G2 in zip(Y1, Y2):
        A, e1 = _norm2exp(np.asarray(G1, dtype=LD))
        B, e2 = _norm2exp(np.asarray(G2, dtype=LD))
        r1, n, r2 = A.shape
        q1, _, q2 = B.shape
        # v[(a,b)] -> sum_i A[a,i,a'] B[b,i,b']
        v = v.reshape(r1, q1)
        T = np.einsum('ab,aic->bic', v, A)
        v = np.einsum('bic,bid->cd', T, B).reshape(1, -1)
        e += e1 + e2
        v, ev = _norm2exp(v)
        e += ev
    return v.reshape(-1)[0], e


def scaled_abs_product(Y1, Y2):
    return scaled_scalar_product([np.abs(G) for G in Y1],
        [np.abs(G) for G in Y2])


def frexp_pair(v, p):
    """(v, p) -> canonical (mantissa in [0.5,1) or 0, total exponent)."""
    v = LD(v)
    if v == 0:
        return LD(0), 0
    m, e = np.frexp(v)
    return m, int(e) + p


def frac(x):
    return Fraction(float(x))
