"""tvmon.c10pass: one pass of a C10 bundle in a FRESH interpreter.

stdin: JSON {'mode': 'solo'|'h1'|'h2', 'plan': [...], 'checks': bool}
stdout: JSON {'probes': [{'hash':..., 'exc':...}, ...], 'viol': [...],
              'judged': {...}, 'events': {...}}

plan steps:
  ['probe', key, seed]     call recorded (hash of the canonical encoding)
  ['noise', key, seed]     call executed, result discarded (history)
  ['gseed', s]             numpy.random.seed(s)
  ['gdraw', n]             n draws from the global legacy generator
  ['poison']               poison the shared default info/cache dictionaries
"""
import copy
import inspect
import json
import sys

import numpy as np

from tvmon import api, core, sanit


def poison_defaults(teneva):
    junk = {'stop': 'm', 'm': 10 ** 9, 'nswp': 10 ** 6, 'e': 1e-300,
        'e_vld': 0., 'r': -5., 'm_cache': 10 ** 8, 'm_max': 1,
        'with_cache': True, 'junk': [1, 2, 3]}
    n = 0
    for modname, fname in (('cross', 'cross'), ('als', 'als'),
            ('als_func', 'als_func'), ('data', 'cache_to_data')):
        f = getattr(sys.modules[f'teneva.{modname}'], fname)
        f = getattr(f, '__tvmon_orig__', f)
        for dflt in (f.__defaults__ or ()):
            if isinstance(dflt, dict):
                if fname == 'cache_to_data':
                    dflt[(0, 0, 0)] = 123.
                else:
                    dflt.update(copy.deepcopy(junk))
                n += 1
    return n


def run(call, teneva, seed):
    rng = np.random.default_rng(seed)
    args, kwargs = call.build(rng)
    return call.execute(teneva, args, dict(kwargs)), args, kwargs


def main():
    req = json.load(sys.stdin)
    real_stdout = sys.stdout
    sys.stdout = sys.stderr          # library prints must not corrupt the JSON
    teneva = core.import_teneva()
    by_key = {c.key: c for c in api.CALLS}
    out = {'probes': [], 'viol': [], 'judged': {}, 'events': {}}

    def judged(mon, ok, msg, **detail):
        out['judged'][mon] = out['judged'].get(mon, 0) + 1
        if not ok:
            out['viol'].append({'monitor': mon, 'msg': msg, 'detail': detail})

    def event(name, n=1):
        out['events'][name] = out['events'].get(name, 0) + n

    for step in req['plan']:
        kind = step[0]
        if kind == 'gseed':
            np.random.seed(step[1])
            continue
        if kind == 'gdraw':
            np.random.rand(step[1])
            np.random.randint(0, 10, size=step[1])
            continue
        if kind == 'poison':
            event('default-dicts-poisoned', poison_defaults(teneva))
            continue
        call = by_key[step[1]]
        seed = step[2]
        if kind == 'noise':
            try:
                run(call, teneva, seed)
            except Exception:
                pass
            continue
        # ---- probe
        g0 = sanit.global_rng_bytes()
        try:
            with sanit.RngWatch() as rw:
                res, args, kwargs = run(call, teneva, seed)
            rec = {'hash': sanit.canon_hash(res), 'exc': None}
        except Exception as ex:
            out['probes'].append({'hash': None,
                'exc': f'{type(ex).__name__}: {str(ex)[:200]}'})
            continue
        out['probes'].append(rec)
        if not req.get('checks'):
            continue
        what = f'{call.key} (seed {seed})'
        if call.seeded or call.name not in ('rand_custom',):
            judged('global-rng-untouched', sanit.global_rng_bytes() == g0,
                f'{what}: the state of the global NumPy generator changed '
                'during the call')
            judged('no-legacy-random', not rw.legacy,
                f'{what}: numpy.random legacy functions called from teneva: '
                f'{rw.legacy}')
        # the same call on the very argument objects of the first call (the
        # caller kept them; before the first result is touched, which may
        # legitimately be one of the arguments): a routine that handed a view of an argument to a
        # destructive LAPACK driver, or left a marker on it, answers
        # differently the second time although each single call is right
        if call.inplace is None and not call.private and not isinstance(
                kwargs.get('seed'), np.random.Generator):
            k3 = dict(kwargs)
            if 'info' in k3:
                k3['info'] = {}
            if k3.get('cache') is not None:
                k3['cache'] = {}
            try:
                r3 = ('ok', sanit.canon_hash(call.execute(teneva, args, k3)))
            except Exception as ex:
                r3 = ('exc', type(ex).__name__)
            judged('same-objects-again', r3 == ('ok', rec['hash']),
                f'{what}: the call repeated on the same argument objects '
                f'gave {r3[0]} {"another result" if r3[0] == "ok" else r3[1]}')
        # same call again: bit-identical - after the caller has used the first
        # result the way callers do (shuffled / shifted it IN PLACE): a result
        # handed out from a memo would come back edited
        nscr = 0
        for _, a in sanit.walk_arrays(res):
            if a.flags.writeable and a.size and a.dtype.kind in 'iuf':
                try:
                    np.copyto(a, np.flip(a.copy()) + (np.arange(a.size)
                        .reshape(a.shape) % 3 + 1).astype(a.dtype))
                    nscr += 1
                except Exception:
                    pass
        if nscr:
            event('first-result-edited-in-place-before-repeat')
        res2, _, _ = run(call, teneva, seed)
        judged('repeatable', sanit.canon_hash(res2) == rec['hash'],
            f'{what}: two identical calls returned different results')
        if call.seeded and 'seed' in kwargs and isinstance(kwargs['seed'], int):
            # generator object: drawn from that object only
            s = kwargs['seed']
            outs, states, derived = [], [], False
            for _ in range(2):
                gen = np.random.default_rng(s)
                rng = np.random.default_rng(seed)
                a, k = call.build(rng)
                k = dict(k, seed=gen)
                with sanit.RngWatch() as rw2:
                    r = call.execute(teneva, a, k)
                outs.append(sanit.canon_hash(r))
                states.append(json.dumps(gen.bit_generator.state,
                    sort_keys=True, default=str))
                # fresh entropy and the global generator are other sources;
                # an internal stream with an EXPLICIT seed is deterministic,
                # it is acceptable iff that seed comes from the object
                # (decided below: the result must follow the object)
                judged('generator-only', not rw2.entropy
                    and not rw2.legacy, f'{what}: a generator object was '
                    f'passed but teneva created / used another source: '
                    f'unseeded default_rng {rw2.entropy}, legacy {rw2.legacy}')
                derived = derived or bool(rw2.seeded)
            if True:
                # the result must FOLLOW the object (also when internal
                # explicitly seeded streams are used, which is acceptable iff
                # they are derived from it): another object state must give
                # another result whenever another integer seed does, and the
                # object itself must have been drawn from - a private clone
                # would leave it where it was, and the caller's next use of
                # the object would repeat the same stream
                def variant(seed_arg):
                    rng = np.random.default_rng(seed)
                    a, k = call.build(rng)
                    k = dict(k, seed=seed_arg)
                    return sanit.canon_hash(call.execute(teneva, a, k))
                s2 = (s * 2654435761 + 12345) % (1 << 30)
                sensitive = variant(s) != variant(s2)
                g2 = np.random.default_rng(s2)
                st0 = json.dumps(g2.bit_generator.state, sort_keys=True,
                    default=str)
                o2 = variant(g2)
                st1 = json.dumps(g2.bit_generator.state, sort_keys=True,
                    default=str)
                if sensitive:
                    judged('generator-only', o2 != outs[0] and st1 != st0,
                        f'{what}: internal explicitly seeded generators are '
                        'used, but the result does not follow the generator '
                        f'object that was passed (other object state -> same '
                        f'result: {o2 == outs[0]}; object not drawn from: '
                        f'{st1 == st0})')
                    event('derived-internal-streams-follow-the-object'
                        if derived else 'result-follows-the-generator-object')
                else:
                    event('call-not-seed-sensitive')
            judged('generator-clone', outs[0] == outs[1]
                and states[0] == states[1], f'{what}: two clones of one '
                'generator gave different results or ended in different '
                'states')
            # a generator in the same stream state but with another past
            # (children spawned from it earlier): only the stream counts
            g3 = np.random.default_rng(s)
            try:
                g3.spawn(3)
            except Exception:
                g3 = None
            if g3 is not None:
                rng = np.random.default_rng(seed)
                a, k = call.build(rng)
                r3 = sanit.canon_hash(call.execute(teneva, a,
                    dict(k, seed=g3)))
                judged('generator-clone', r3 == outs[0], f'{what}: a '
                    'generator in the same stream state that had spawned '
                    'children before gives another result (hidden spawn '
                    'counter used instead of the stream)')
            # (not judged: the statement does not promise that Generator(s)
            #  reproduces seed=s; sample_tt e.g. re-creates the generator per
            #  internal call for an integer seed but continues one stream for
            #  an object)
            if outs[0] != rec['hash']:
                event('generator-object-differs-from-int-seed:' + call.name)
            event('generator-probes')
        # state keyed on object identity: edit the array arguments IN PLACE
        # (same objects), call again, and compare with a call on fresh deep
        # copies of the edited arguments
        if call.inplace is None and call.name not in ('rand_custom',) and \
                not call.private:
            rng = np.random.default_rng(seed)
            a1, k1 = call.build(rng)
            try:
                call.execute(teneva, a1, dict(k1))        # first contact
                arrs = [x for _, x in sanit.walk_arrays((a1, {kk: vv for kk, vv
                    in k1.items() if kk not in ('info', 'cache')}))
                    if x.dtype.kind == 'f' and x.size and x.flags.writeable]
                if arrs:
                    for x in arrs[:6]:
                        # non-uniform in-place edit (exact in binary): a plain
                        # rescaling leaves e.g. sampling distributions unchanged
                        pat = 1. + 0.5 * (np.arange(x.size).reshape(x.shape)
                            % 2)
                        np.multiply(x, pat, out=x)
                    if 'info' in k1:
                        k1['info'] = {}
                    if 'cache' in k1 and k1['cache'] is not None:
                        k1['cache'] = {}
                    a2, k2 = copy.deepcopy((a1, k1))
                    try:
                        r_same = ('ok', sanit.canon_hash(call.execute(teneva,
                            a1, dict(k1))))
                    except Exception as ex:
                        r_same = ('exc', type(ex).__name__)
                    try:
                        r_copy = ('ok', sanit.canon_hash(call.execute(teneva,
                            a2, dict(k2))))
                    except Exception as ex:
                        r_copy = ('exc', type(ex).__name__)
                    judged('no-identity-cache', r_same == r_copy,
                        f'{what}: after the arguments were edited in place the '
                        'call on the same objects differs from the call on '
                        f'fresh copies of them ({r_same} vs {r_copy}): state '
                        'is kept per object identity')
            except Exception:
                event('identity-probe-not-applicable')
        if not call.seeded and call.name != 'rand_custom':
            hs = []
            for mode in ('nan', 'big'):
                with sanit.Poison(mode) as ps:
                    try:
                        r, _, _ = run(call, teneva, seed)
                        hs.append(sanit.canon_hash(r))
                    except Exception as ex:
                        hs.append(f'exc:{type(ex).__name__}')
                event('np.empty-calls-poisoned', ps.calls)
            judged('uninitialised-memory', hs[0] == hs[1] == rec['hash'],
                f'{what}: result depends on the contents of np.empty '
                f'buffers (plain / NaN fill / 1e300 fill differ): {hs}')
    json.dump(out, real_stdout)


if __name__ == '__main__':
    main()
