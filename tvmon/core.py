"""tvmon.core: case context, verdict bookkeeping, worker loop.

A property module (tvmon/props/cXX.py) provides

    PID, LEVEL, RULE                strings
    REQUIRED = {monitor: min_evals} monitors that must have judged something
    REQUIRED_EVENTS = {event: min}  events/branches that must have been seen
    gen_cases(seed, tier) -> list of JSON-able case descriptors (cheap)
    run_case(case, ctx)             drives the real code, reports to ctx
    classify(violation) -> key|None optional: mechanism key of a known finding

Everything a case needs is regenerated from its descriptor (which holds its own
sub-seed), so a replay file is just {property, case}.
"""
import hashlib
import importlib
import json
import os
import sys
import time
import traceback

import numpy as np


REPO = os.environ.get('VERIF_REPO', '/repo')


def import_teneva():
    """Import teneva from $VERIF_REPO (default /repo) and assert its origin."""
    repo = os.path.realpath(REPO)
    if repo not in sys.path:
        sys.path.insert(0, repo)
    import teneva
    origin = os.path.realpath(os.path.dirname(teneva.__file__))
    if origin != os.path.join(repo, 'teneva'):
        raise RuntimeError(f'teneva imported from {origin}, expected {repo}')
    return teneva


def jsonable(o, depth=0):
    """Best-effort conversion of numpy-laden objects to JSON-able ones."""
    if depth > 8:
        return str(type(o))
    if o is None or isinstance(o, (bool, int, str)):
        return o
    if isinstance(o, float):
        return o if np.isfinite(o) else repr(o)
    if isinstance(o, (np.bool_,)):
        return bool(o)
    if isinstance(o, np.integer):
        return int(o)
    if isinstance(o, np.floating):
        return jsonable(float(o))
    if isinstance(o, np.ndarray):
        if o.size > 400:
            return {'ndarray': list(o.shape), 'dtype': str(o.dtype),
                'head': jsonable(o.reshape(-1)[:20].tolist(), depth+1)}
        return jsonable(o.tolist(), depth+1)
    if isinstance(o, dict):
        return {str(k): jsonable(v, depth+1) for k, v in o.items()}
    if isinstance(o, (list, tuple, set)):
        return [jsonable(v, depth+1) for v in o]
    return repr(o)[:300]


def hkey(obj):
    s = json.dumps(jsonable(obj), sort_keys=True, separators=(',', ':'))
    return hashlib.sha1(s.encode()).hexdigest()[:16]


class Violation(Exception):
    pass


class Ctx:
    """Per-worker accumulator; `case` is switched by the worker loop."""

    def __init__(self, pid):
        self.pid = pid
        self.case = None
        self.mon = {}            # name -> [evaluations, violations, not_judged]
        self.skips = {}          # 'mon:reason' -> count
        self.events = {}         # name -> count
        self.nontriv = set()
        self.violations = []     # dicts
        self.samples = []
        self.cases_run = 0
        self.case_viol = 0
        self.max_viol = 40
        self.margins = {}        # name -> max observed ratio value/tolerance
        self.kf_counts = {}      # kf key ('' = untagged) -> total violations

    def _m(self, mon):
        return self.mon.setdefault(mon, [0, 0, 0])

    def held(self, mon, n=1):
        self._m(mon)[0] += n

    def skip(self, mon, reason):
        self._m(mon)[2] += 1
        k = f'{mon}:{reason}'
        self.skips[k] = self.skips.get(k, 0) + 1

    def viol(self, mon, msg, kf=None, **detail):
        m = self._m(mon)
        m[0] += 1
        m[1] += 1
        self.case_viol += 1
        # records: untagged violations up to max_viol, tagged (candidate known
        # findings) up to 5 per key, so that a frequent known finding can
        # never crowd out a plain violation; totals are counted separately
        self.kf_counts[kf or ''] = self.kf_counts.get(kf or '', 0) + 1
        if kf:
            room = sum(1 for v in self.violations if v['kf'] == kf) < 5
        else:
            room = sum(1 for v in self.violations if not v['kf']) < \
                self.max_viol
        if room:
            self.violations.append({'monitor': mon, 'msg': str(msg)[:2000],
                'kf': kf, 'detail': jsonable(detail), 'case': self.case})

    def check(self, mon, cond, msg='', kf=None, **detail):
        if cond:
            self.held(mon)
            return True
        if callable(msg):
            msg = msg()
        self.viol(mon, msg, kf=kf, **detail)
        return False

    def close(self, mon, got, ref, tol, msg='', **detail):
        """|got - ref| <= tol elementwise (tol scalar or array); NaN fails."""
        got = np.asarray(got, dtype=np.longdouble)
        ref = np.asarray(ref, dtype=np.longdouble)
        if got.shape != ref.shape:
            return self.check(mon, False,
                f'{msg}: shape {got.shape} != {ref.shape}', **detail)
        tol = np.asarray(tol, dtype=np.longdouble) + getattr(self,
            'abs_floor', 0.)
        with np.errstate(all='ignore'):
            diff = np.abs(got - ref)
            ok = bool(np.all(diff <= tol))
            if diff.size:
                ratio = np.max(np.where(tol > 0, diff / np.where(tol > 0, tol, 1),
                    np.where(diff > 0, np.inf, 0)))
                if np.isfinite(ratio):
                    self.margins[mon] = max(self.margins.get(mon, 0.),
                        float(ratio))
        if ok:
            self.held(mon)
            return True
        with np.errstate(all='ignore'):
            worst = int(np.argmax(np.where(np.isnan(diff), np.inf,
                diff - tol))) if diff.size else 0
        self.viol(mon, f'{msg}: |got-ref| > tol', got=got.reshape(-1)[worst],
            ref=ref.reshape(-1)[worst], tol=np.broadcast_to(tol,
            got.shape).reshape(-1)[worst] if tol.ndim else tol, at=worst,
            **detail)
        return False

    def event(self, name, n=1):
        self.events[name] = self.events.get(name, 0) + n

    def nontrivial(self, key):
        self.nontriv.add(hkey(key))

    def sample(self, obj):
        if len(self.samples) < 3:
            self.samples.append(jsonable(obj))

    def dump(self):
        return {'pid': self.pid, 'mon': self.mon, 'skips': self.skips,
            'events': self.events, 'nontriv': sorted(self.nontriv),
            'violations': self.violations, 'samples': self.samples,
            'cases_run': self.cases_run, 'margins': self.margins,
            'kf_counts': self.kf_counts}


CUR = None   # the Ctx interposed monitors report to


def load_prop(pid):
    return importlib.import_module(f'tvmon.props.{pid.lower()}')


def run_one(mod, case, ctx):
    """Run one case; an escaping exception is a violation ('exception')."""
    global CUR
    CUR = ctx
    ctx.case = case
    ctx.case_viol = 0
    ctx.cases_run += 1
    try:
        with np.errstate(all='ignore'):
            mod.run_case(case, ctx)
    except Exception as ex:
        tb = traceback.format_exc()
        ctx.viol('exception', f'{type(ex).__name__}: {ex}', traceback=tb[-3000:])
    return ctx.case_viol


def start_cover(names):
    """Line coverage (sys.monitoring) of the anchored functions 'mod.func'."""
    if not names:
        return None
    import sys as _sys
    from tvmon.interpose import LineCov
    funcs = {}
    for nm in names:
        modname, fname = nm.split('.', 1)
        m = _sys.modules.get(f'teneva.{modname}')
        obj = m
        try:
            for part in fname.split('.'):
                obj = getattr(obj, part)
            funcs[nm] = obj
        except AttributeError:
            continue
    cov = LineCov(funcs)
    try:
        cov.__enter__()
    except RuntimeError:
        return None
    return cov


def stop_cover(cov):
    if cov is None:
        return {}
    out = {}
    for code, (name, lines) in cov.codes.items():
        out[name] = {'hit': sorted(cov.hit[code] & lines), 'lines': sorted(lines)}
    cov.__exit__(None, None, None)
    return out


def worker_main(pid, tier, seed, shard, nshards, out, budget_s):
    t0 = time.time()
    import_teneva()
    mod = load_prop(pid)
    ctx = Ctx(pid)
    cases = mod.gen_cases(seed, tier)
    mine = cases[shard::nshards]
    if hasattr(mod, 'setup_worker'):
        mod.setup_worker(ctx)
    cov = start_cover(getattr(mod, 'COVER', []))
    done = 0
    truncated = False
    # a case that outlives the budget by half (a changed tree whose ranks or
    # loops blow up) is abandoned from inside, so that what the monitors saw
    # before it still reaches the verdict (truncated => inconclusive unless a
    # violation was already recorded); the parent's kill comes 40 s later
    import signal

    class _Watchdog(BaseException):
        pass

    def _alarm(signum, frame):
        raise _Watchdog()
    signal.signal(signal.SIGALRM, _alarm)
    signal.alarm(int(budget_s * 1.5) + 20)
    try:
        for case in mine:
            if time.time() - t0 > budget_s:
                truncated = True
                break
            run_one(mod, case, ctx)
            done += 1
            if len(ctx.samples) < 2 and ctx.case_viol == 0:
                ctx.sample(case)
        signal.alarm(0)
    except _Watchdog:
        truncated = True
    if hasattr(mod, 'finish_worker'):
        mod.finish_worker(ctx)
    res = ctx.dump()
    res['cover'] = stop_cover(cov)
    res.update({'n_cases_total': len(cases), 'n_mine': len(mine), 'done': done,
        'truncated': truncated, 'wall_s': time.time() - t0})
    with open(out, 'w') as f:
        json.dump(res, f)
