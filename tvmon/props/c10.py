"""C10 — results depend only on arguments and seed, not on global state / history.

Histories, not single calls.  A bundle is a list of probe calls from the API
table.  It is executed in three FRESH interpreters: 'solo' (probes only, in
order), 'h1' and 'h2' (the same probes embedded in two different random
interleavings with other library calls, different numpy.random.seed states,
extra draws from the global generator, poisoned shared default dictionaries).
Canonical byte encodings of every probe result must agree across the three
passes; inside a pass each probe is additionally checked for repeatability,
global-generator hygiene, generator-object discipline and independence of
np.empty contents.
"""
import json
import os
import subprocess
import sys

import numpy as np

from tvmon import api

PID = 'C10'
LEVEL = 'exploration'
RULE = ('bundles of 10-30 probe calls drawn from the API table (all exported '
    'names that complete, seeded and unseeded), each bundle executed in three '
    'fresh interpreters (solo / two different histories of 20-100 other '
    'calls, global reseeding and draws, poisoned default info/cache '
    'dictionaries); non-trivial = distinct (call shape, argument seed, '
    'history hash) probe executions whose result contains an array')
REQUIRED = {'cross-history': 300, 'repeatable': 300, 'global-rng-untouched':
    300, 'no-legacy-random': 300, 'generator-only': 40, 'generator-clone': 20,
    'uninitialised-memory': 150, 'no-identity-cache': 150,
    'same-objects-again': 300}
REQUIRED_EVENTS = {'default-dicts-poisoned': 20, 'seeded-probes': 60,
    'fitting-probes-with-default-info': 10}
ASSUMPTIONS = ['rand_custom without f is documented to use numpy.random.randn '
    '(no seed): exempt', 'seed=None (fresh entropy) is random by design: not '
    'driven', 'single-threaded BLAS for bitwise comparisons']
SHARDS = {'quick': 12, 'thorough': 16}
BUDGET_S = {'quick': 400, 'thorough': 3000}
HERE = os.path.dirname(os.path.dirname(os.path.dirname(os.path.abspath(
    __file__))))

EXCLUDE = {'_rand', 'getter'}


def probe_pool():
    return [c for c in api.CALLS if c.raises is None and c.name not in EXCLUDE]


def gen_cases(seed, tier):
    rng = np.random.default_rng([seed, 110])
    n = 60 if tier == 'quick' else 1500
    pool = probe_pool()
    seeded = [c for c in pool if c.seeded]
    fits = [c for c in pool if c.name in ('cross', 'als', 'als_func')]
    out = []
    # probes are dealt from shuffled copies of the whole pool, so that every
    # call shape is probed (several times) in every run, not just on average
    deck = []
    for j in range(n):
        k = int(rng.integers(10, 31))
        while len(deck) < k:
            deck += [int(x) for x in rng.permutation(len(pool))]
        picks = [pool[x] for x in deck[:k]]
        deck = deck[k:]
        # every bundle holds some seeded probes and one fitting routine
        picks[0] = seeded[j % len(seeded)]
        picks[1] = seeded[(j * 7 + 3) % len(seeded)]
        picks[2] = fits[j % len(fits)]
        out.append({'seed': int(rng.integers(1 << 62)),
            'probes': [[c.key, int(rng.integers(1 << 40))] for c in picks]})
    return out


def make_plan(case, mode):
    probes = case['probes']
    if mode == 'solo':
        return [['probe', k, s] for k, s in probes]
    rng = np.random.default_rng([case['seed'], 1 if mode == 'h1' else 2])
    pool = probe_pool()
    plan = [['gseed', int(rng.integers(1 << 31))]]
    nnoise = int(rng.integers(20, 101))
    # positions of the noise calls relative to the probes
    slots = np.sort(rng.integers(0, len(probes) + 1, size=nnoise))
    si = 0
    poisoned = False
    for p, (k, s) in enumerate(probes):
        while si < len(slots) and slots[si] <= p:
            c = pool[int(rng.integers(len(pool)))]
            plan.append(['noise', c.key, int(rng.integers(1 << 40))])
            if rng.random() < 0.3:
                plan.append(['gdraw', int(rng.integers(1, 50))])
            if rng.random() < 0.1:
                plan.append(['gseed', int(rng.integers(1 << 31))])
            si += 1
        # targeted history: other variants / other data of the SAME function
        # right before the probe (state kept inside a function or its module
        # shows up here), in a different selection per pass
        same = [c for c in pool if c.key.split(':')[0] == k.split(':')[0]]
        for _ in range(int(rng.integers(1, 3))):
            c = same[int(rng.integers(len(same)))]
            plan.append(['noise', c.key, int(rng.integers(1 << 40))])
        if not poisoned or rng.random() < 0.3:
            plan.append(['poison'])
            poisoned = True
        plan.append(['probe', k, s])
    return plan


def run_pass(case, mode, checks):
    req = {'mode': mode, 'plan': make_plan(case, mode), 'checks': checks}
    env = dict(os.environ)
    # each history runs under another hash salt of the interpreter (the
    # iteration order of sets of str / bytes follows it): ambient process
    # state that is neither an argument nor the seed
    env['PYTHONHASHSEED'] = {'solo': '11', 'h1': '222', 'h2': '3333'}.get(
        mode, '0')
    p = subprocess.run([sys.executable, '-B', '-W', 'ignore', '-m',
        'tvmon.c10pass'], input=json.dumps(req), capture_output=True,
        text=True, cwd=HERE, env=env, timeout=900)
    if p.returncode != 0:
        raise RuntimeError(f'pass {mode} failed: {p.stderr[-1500:]}')
    return json.loads(p.stdout), req['plan']


def run_case(case, ctx):
    passes = {}
    for mode, checks in (('solo', True), ('h1', True), ('h2', False)):
        passes[mode], plan = run_pass(case, mode, checks)
        res = passes[mode]
        for mon, nj in res['judged'].items():
            bad = sum(1 for v in res['viol'] if v['monitor'] == mon)
            ctx.held(mon, nj - bad)
        for v in res['viol']:
            ctx.viol(v['monitor'], f'[{mode} pass] {v["msg"]}', **v['detail'])
        for k, n in res['events'].items():
            ctx.event(k, n)
        ctx.event(f'calls-in-{mode}-history', len(plan))
    by_key = {c.key: c for c in api.CALLS}
    solo = passes['solo']['probes']
    for idx, (key, s) in enumerate(case['probes']):
        recs = {m: passes[m]['probes'][idx] for m in passes}
        call = by_key[key]
        if call.seeded:
            ctx.event('seeded-probes')
        if call.name in ('cross', 'als', 'als_func') and 'info' not in key:
            ctx.event('fitting-probes-with-default-info')
        same = len({(r['hash'], r['exc']) for r in recs.values()}) == 1
        ctx.check('cross-history', same, lambda: f'{key} (argument seed {s}): '
            f'result depends on the history / global state: '
            f'{ {m: (r["hash"], r["exc"]) for m, r in recs.items()} }',
            probe_index=idx)
        if solo[idx]['exc'] is not None:
            ctx.event('probe-raised:' + key)
        ctx.nontrivial([key, s, case['seed']])
    ctx.sample({'bundle_seed': case['seed'], 'probes': case['probes'][:6],
        'history_h1_head': make_plan(case, 'h1')[:8],
        'hashes_solo_head': [r['hash'] for r in solo[:4]]})
