"""C09 — public functions never modify their arguments nor alias results to them.

Sanitizer-style monitors on every exported name, driven by the API table
(tvmon/api.py): byte snapshot of everything reachable from the arguments before
and after the call, numpy.shares_memory between every array of the result and
every array of the arguments, and a read-only trap pass (arguments made
non-writeable, so an in-place write faults at the writing line).  Each call
shape is executed with four memory layouts of every array argument; TT
arguments additionally as views into one shared buffer.
"""
import traceback

import numpy as np

from tvmon import api, sanit

PID = 'C09'
LEVEL = 'exploration'
RULE = ('API table: one entry per documented argument combination of every '
    'exported name (incl. ANOVA / ANOVA_func via constructor + methods) x '
    'memory layouts {C, Fortran, strided view, shared buffer, read-only '
    'trap} x data seeds; non-trivial = distinct (name, variant, layout) whose '
    'result contains at least one array')
REQUIRED = {'no-mutation': 800, 'no-alias': 500, 'readonly-trap': 300,
    'inplace-contract': 8}
ASSUMPTIONS = ['whitelist from the statement: orthogonalize_left/right('
    'inplace=True) may change cores i, i+-1 and return the argument; info / '
    'cache dictionaries; pass-through helpers (grid_prep_opt(s), core_stab '
    'below its threshold, copy of a number/None)',
    'underscore helpers are not public: driven for argument mutation, '
    'aliasing recorded as an event only',
    'undocumented parameters (to_orth, p, _to_item, func, update_sol, '
    'float_cf, cores_are_prepared, check_phi) are not driven',
    'getter needs numba (not installed): recorded as not drivable']
SHARDS = {'quick': 12, 'thorough': 16}
LAYOUTS = ['C', 'F', 'strided', 'shared']


def gen_cases(seed, tier):
    rng = np.random.default_rng([seed, 109])
    reps = 6 if tier == 'quick' else 120
    out = []
    for j, c in enumerate(api.CALLS):
        for rep in range(reps if not c.heavy else max(1, reps // 2)):
            for lay in LAYOUTS:
                out.append({'call': c.key, 'layout': lay,
                    'seed': int(rng.integers(1 << 62))})
    return out


_by_key = {c.key: c for c in api.CALLS}


def relayout(o, mode, depth=0):
    """Copy of the argument structure with every array in the given layout."""
    if isinstance(o, np.ndarray):
        if o.dtype == object or o.ndim == 0:
            return o.copy()
        if mode == 'C' or mode == 'shared':
            return np.ascontiguousarray(o).copy()
        if mode == 'F':
            return np.array(o, order='F', copy=True) if o.ndim > 1 else o.copy()
        big = np.zeros(tuple(2 * s for s in o.shape), dtype=o.dtype)
        v = big[tuple(slice(None, None, 2) for _ in o.shape)]
        v[...] = o
        return v
    if isinstance(o, list):
        res = [relayout(x, mode, depth + 1) for x in o]
        if mode == 'shared' and len(res) >= 2 and all(isinstance(x, np.ndarray)
                and x.dtype == float and x.ndim == 3 for x in res):
            # TT cores as views into one shared buffer
            tot = sum(x.size for x in res)
            buf = np.zeros(tot + 3)
            pos, out = 1, []
            for x in res:
                v = buf[pos:pos + x.size].reshape(x.shape)
                v[...] = x
                out.append(v)
                pos += x.size
            return out
        return res
    if isinstance(o, tuple):
        return tuple(relayout(x, mode, depth + 1) for x in o)
    if isinstance(o, dict):
        return {k: relayout(v, mode, depth + 1) for k, v in o.items()}
    return o


def split_whitelist(kwargs):
    """info / cache dictionaries are filled on purpose: not snapshotted."""
    watched = {k: v for k, v in kwargs.items() if k not in ('info', 'cache')}
    return watched


def _is_float_path(res, path):
    for p, a in sanit.walk_arrays(res):
        if (p or '<result>') == path:
            return a.dtype.kind == 'f'
    return True


def has_array(o):
    return bool(sanit.walk_arrays(o))


def innermost_teneva(tb):
    last = None
    for fr in traceback.extract_tb(tb):
        if '/teneva/' in fr.filename and '/tvmon/' not in fr.filename:
            last = f'{fr.filename.rsplit("/", 1)[-1]}:{fr.lineno} {fr.line}'
    return last


def run_case(case, ctx):
    import teneva
    call = _by_key[case['call']]
    lay = case['layout']
    rng = np.random.default_rng(case['seed'])
    args, kwargs = call.build(rng)
    args, kwargs = relayout(args, lay), relayout(kwargs, lay)
    ctx.event('name:' + call.name)
    what = f'{call.name}[{call.label}] layout={lay}'

    # ---- pass 1: snapshot + alias
    watched = (args, split_whitelist(kwargs))
    snap = sanit.Snapshot(watched)
    ids_before = [id(G) for G in args[0]] if call.inplace is not None else []
    try:
        res = call.execute(teneva, args, dict(kwargs))
    except Exception as ex:
        if call.raises is not None and isinstance(ex, call.raises):
            ctx.event('not-drivable:' + call.name)
            ctx.check('no-mutation', not snap.diff(), f'{what}: arguments '
                'changed although the call was rejected')
            return
        raise
    if call.raises is not None:
        ctx.event('expected-rejection-did-not-happen:' + call.name)

    def allow(path):
        if call.inplace is None:
            return False
        i, j = call.inplace
        return path.startswith(f'[0][0][{i}]') or path.startswith(f'[0][0][{j}]')

    if call.inplace is not None:
        Yarg = args[0]
        diffs = [x for x in snap.diff(allow=allow)
            if not x.startswith('container structure')]
        ids_now = [id(G) for G in Yarg]
        if len(ids_now) != len(ids_before) or any(a != b for q, (a, b) in
                enumerate(zip(ids_now, ids_before)) if q not in call.inplace):
            diffs.append('list length / identity of untouched cores changed')
        ctx.check('inplace-contract', res is Yarg and not diffs,
            f'{what}: in-place variant must return its argument and change '
            f'only cores {call.inplace}: returned-is-argument={res is Yarg}, '
            f'other changes: {diffs[:3]}')
    else:
        diffs = snap.diff()
        ctx.check('no-mutation', not diffs, lambda: f'{what}: argument '
            f'modified: {diffs[:4]}')
        if call.passthrough:
            ctx.event('pass-through-helper-not-judged-for-aliasing')
        else:
            al = sanit.aliases(res, watched)
            # the statement speaks of returned tensors (TT-cores or dense):
            # index vectors handed back unchanged are recorded, not judged
            al_int = [x for x in al if not _is_float_path(res, x[0])]
            al = [x for x in al if x not in al_int]
            if al_int:
                ctx.event('integer-array-handed-back:' + call.name)
            if call.private:
                if al:
                    ctx.event('private-helper-aliases:' + call.name)
            else:
                ctx.check('no-alias', not al, lambda: f'{what}: result shares '
                    f'memory with an argument: {al[:4]}')
    if has_array(res):
        ctx.nontrivial([call.key, lay])

    # ---- pass 2: read-only trap (fresh, identical arguments)
    rng = np.random.default_rng(case['seed'])
    args2, kwargs2 = call.build(rng)
    args2, kwargs2 = relayout(args2, lay), relayout(kwargs2, lay)
    if call.inplace is not None:
        return
    undo = sanit.set_readonly((args2, split_whitelist(kwargs2)))
    try:
        call.execute(teneva, args2, dict(kwargs2))
        ctx.held('readonly-trap')
    except ValueError as ex:
        msg = str(ex)
        if 'assignment destination is read-only' in msg or \
                'output array is read-only' in msg:
            site = innermost_teneva(ex.__traceback__)
            ctx.viol('readonly-trap', f'{what}: in-place write to an argument '
                f'trapped at {site}: {msg}',
                traceback=traceback.format_exc()[-1500:])
        elif 'read-only' in msg or 'readonly' in msg:
            # a library routine refused a read-only buffer without writing
            ctx.skip('readonly-trap', 'library-refuses-readonly-buffer')
        else:
            raise
    finally:
        sanit.restore_writeable(undo)
    if len(ctx.samples) < 3 and has_array(res):
        ctx.sample({'call': call.key, 'layout': lay, 'seed': case['seed'],
            'argument_arrays': [(p, list(a.shape), str(a.dtype),
                bool(a.flags.c_contiguous)) for p, a in
                sanit.walk_arrays(watched)][:8],
            'result_arrays': len(sanit.walk_arrays(res)),
            'mutations': 0, 'aliases': 0})


def post_aggregate(events, mon):
    """Distinct exported names actually executed (from the event log)."""
    import teneva
    import inspect
    driven = sorted(k.split(':', 1)[1] for k, v in events.items()
        if k.startswith('name:') and v > 0)
    exported = sorted(n for n in dir(teneva) if not n.startswith('__')
        and not inspect.ismodule(getattr(teneva, n)))
    missing = [n for n in exported if n not in driven]
    cov = {'exported_names': len(exported), 'names_driven': len(driven),
        'names_not_driven': missing}
    reasons = []
    if missing:
        reasons.append(f'exported names never executed: {missing}')
    return cov, reasons
