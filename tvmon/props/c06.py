"""C06 — TT-cross: evaluation budget, index domain, stop contract (fault enumeration).

For every configuration a reference run without faults records the batch
sequence b_1..b_K (M = sum |b_i|).  Then the interruption space of that
configuration is enumerated COMPLETELY: every budget m = 1..M+1, the objective
returning None at call k for every k = 1..K, the callback returning True at
every sweep, and every pattern of stop arguments.  Each run is recorded at the
boundary (objective, callback, info, result) and judged by an offline checker
over the event log.
"""
import itertools

import numpy as np

from tvmon import crossh, ref
from tvmon.interpose import LineProbe, module

PID = 'C06'
LEVEL = 'fault_enumeration'
RULE = ('configurations (shape d=2..4, mode sizes 1..4, start tensor, dr '
    'settings, cache on/off, validation on/off) x COMPLETE enumeration of: '
    'budgets m=1..M+1, objective returns None at call k=1..K, callback stops '
    'at sweep s=1..nswp, 32 patterns of stop arguments; non-trivial = distinct '
    '(configuration, fault) whose interruption fell strictly inside a '
    'half-sweep (a pending factor had to be folded into the result)')
REQUIRED = {'domain': 500, 'budget': 500, 'prefix': 500, 'stop-m-iff': 500,
    'counter-m': 1000, 'counter-nswp': 1000, 'wellformed-on-interrupt': 1000,
    'stop-reason': 1000, 'none-stop': 200, 'no-eval-after-stop': 200,
    'cb-stop': 40, 'threshold-stop': 40, 'nswp-zero': 40, 'reject-before-eval': 100, 'pattern-run': 100,
    'cache-once': 200, 'counter-cache': 200, 'history-info-reuse': 200,
    'history-cache-reuse': 200, 'conv-rule': 40}
REQUIRED_EVENTS = {'interrupt-ltr-first': 5, 'interrupt-ltr-middle': 5,
    'interrupt-ltr-last': 5, 'interrupt-rtl-first': 5,
    'interrupt-rtl-middle': 5, 'interrupt-rtl-last': 5,
    'interrupt-by-budget': 50, 'interrupt-by-none': 50,
    'large-request-rows': 10}
ASSUMPTIONS = ['determinism of cross: a faulty run coincides with the '
    'reference run up to the interruption (checked, not assumed: prefix rule)',
    'objective = dense table lookup']
COVER = ['cross.cross', 'cross._func', 'cross._func_eval', 'cross._iter', 'utils._info_appr']
SHARDS = {'quick': 14, 'thorough': 16}
EXHAUSTIVE = False
STOPS = {'nswp', 'm', 'e', 'e_vld', 'cb', 'func', 'conv'}

_probes = {}


def gen_cases(seed, tier):
    rng = np.random.default_rng([seed, 106])
    q = tier == 'quick'
    out = []
    for j in range(126 if q else 2400):
        out.append({'seed': int(rng.integers(1 << 62)), 'cache': bool(j % 2),
            'vld': bool((j // 2) % 2), 'd': 2 + j % 3})
    # objectives with exactly-zero slices (product-form support mask): the
    # selection routines meet unfoldings with fewer non-zero rows than ranks
    for j in range(60 if q else 1200):
        out.append({'seed': int(rng.integers(1 << 62)), 'cache': j % 3 != 2,
            'vld': False, 'd': 2 + j % 3, 'zero_slices': True})
    for j in range(28 if q else 400):
        out.append({'kind': 'bigrequest', 'seed': int(rng.integers(1 << 62)),
            'cache': bool(j % 2), 'd': 2 + j % 2})
    return out


def setup_worker(ctx):
    import teneva
    crossh.install()
    cm = module('cross')
    p1 = LineProbe(cm.cross, {
        'Y[i] = np.tensordot(R, Y[i], 1)': 'line:early-return-ltr',
        'Y[i] = np.tensordot(Y[i], R, 1)': 'line:early-return-rtl'})
    p2 = LineProbe(cm._func_eval, {
        "info['stop'] = 'm'": ['line:stop-m-nocache', 'line:stop-m-cache'],
        "info['stop'] = 'func'": ['line:stop-func-nocache',
            'line:stop-func-cache']})
    for p in (p1, p2):
        p.__enter__()
    _probes['p'] = (p1, p2)


def finish_worker(ctx):
    for p in _probes.get('p', ()):
        for k, v in p.counts.items():
            ctx.event(k, v)
        for m in p.missing:
            ctx.event('line-probe-target-missing')


def same_batches(A, B):
    return len(A) == len(B) and all(a.shape == b.shape and np.array_equal(a, b)
        for a, b in zip(A, B))


def classify_position(ctx, run, d, how):
    """Where did the interruption fall? From the request log (boundary)."""
    if not run.requests or run.requests[-1][1]:
        return None
    pos = (len(run.requests) - 1) % (2 * d)
    ltr = pos < d
    i = pos if ltr else 2 * d - 1 - pos
    where = 'first' if i == 0 else ('last' if i == d - 1 else 'middle')
    ctx.event(f'interrupt-{"ltr" if ltr else "rtl"}-{where}')
    ctx.event(f'interrupt-by-{how}')
    inside = (i != 0) if ltr else (i != d - 1)
    return inside, ('ltr' if ltr else 'rtl', i)


def judge_common(ctx, run, n, kw, label):
    """Invariants of every run; returns False if the run cannot be judged."""
    if run.error is not None:
        if isinstance(run.error, crossh.Abort):
            if run.bad_rows:
                ctx.viol('domain', f'{label}: objective received an invalid '
                    f'batch (non-integer / wrong width / out of bounds): '
                    f'{run.bad_rows[0][:3].tolist()}', shape=n)
            else:
                ctx.skip('pattern-run', 'call-budget-of-harness-exceeded')
            return False
        raise run.error
    ctx.held('domain')
    info = run.info
    why = ref.wellformed(run.result, n)
    ctx.check('wellformed-on-interrupt', why is None,
        f'{label}: result is not a well-formed finite tensor of the original '
        f'shape: {why}', stop=info.get('stop'))
    stop = info.get('stop')
    ctx.check('stop-reason', stop in STOPS, f'{label}: stop = {stop!r}')
    ctx.check('counter-m', info.get('m') == run.evaluated,
        f'{label}: info["m"] = {info.get("m")} but {run.evaluated} indices '
        'were evaluated')
    ncb = sum(1 for ev in run.events if ev[0] == 'cb')
    ctx.check('counter-nswp', info.get('nswp') == ncb,
        f'{label}: info["nswp"] = {info.get("nswp")} but {ncb} sweeps were '
        'completed (callback count)')
    if kw.get('m') is not None:
        ctx.check('budget', run.evaluated <= kw['m'],
            f'{label}: {run.evaluated} evaluations for budget m = {kw["m"]}')
    if stop == 'nswp':
        ctx.check('stop-reason', kw.get('nswp') is not None
            and ncb == kw['nswp'], f'{label}: stop "nswp" after {ncb} sweeps, '
            f'nswp = {kw.get("nswp")}')
    if stop == 'e':
        ctx.check('stop-reason', kw.get('e') is not None
            and 0 <= info['e'] <= kw['e'], f'{label}: stop "e" with '
            f'info["e"] = {info["e"]}, e = {kw.get("e")}')
    if stop == 'e_vld':
        ok = kw.get('e_vld') is not None and 0 <= info['e_vld'] <= kw['e_vld']
        if ok and why is None:
            # independent: validation error of the returned tensor
            # (+ rounding of the evaluation: 1e3 eps |cores| chain / ||y||)
            ix = tuple(np.asarray(kw['I_vld']).T)
            slack = 1e3 * ref.EPS * ref.fro(ref.absbound(run.result)[ix]) / \
                ref.fro(kw['y_vld'])
            ok = vld_error(run.result, kw['I_vld'], kw['y_vld']) <= \
                kw['e_vld'] * (1 + 1e-9) + slack
        ctx.check('stop-reason', ok, f'{label}: stop "e_vld" with '
            f'info["e_vld"] = {info["e_vld"]}, e_vld = {kw.get("e_vld")}')
    if stop == 'm':
        ctx.check('stop-reason', kw.get('m') is not None,
            f'{label}: stop "m" without a budget')
    if kw.get('cache') is not None:
        rows = [tuple(int(x) for x in r) for b in run.batches for r in b]
        ctx.check('cache-once', len(rows) == len(set(rows)),
            f'{label}: an index was evaluated twice despite the cache')
        if run.requests:
            tot = sum(k for k, ok in run.requests if ok)
            ctx.check('counter-cache', tot == info['m'] + info['m_cache'],
                f'{label}: answered requests {tot} != m {info["m"]} + '
                f'm_cache {info["m_cache"]}')
    elif run.requests:
        ctx.check('counter-cache', info.get('m_cache') == 0,
            f'{label}: m_cache = {info.get("m_cache")} without a cache')
    return True


def run_bigrequest(case, ctx):
    """Single requests of several thousand multi-indices (mode sizes 26..36,
    start ranks 11..16: r n r = 3000..20000 rows per request): the counters
    and the stop contract at every None-returning call and at budgets placed
    inside such a request, with and without a cache."""
    rng = np.random.default_rng(case['seed'])
    d = case['d']
    n = [int(rng.integers(26, 37)) for _ in range(d)]
    Tt, rt, T = crossh.make_target(rng, n, int(rng.integers(1, 3)))
    r0s = int(rng.integers(11, 17))
    Y0 = crossh.start_tensor(rng, n, [1] + [r0s] * (d - 1) + [1])
    base = dict(dr_min=0, dr_max=int(rng.integers(0, 2)))

    def go(none_at=None, **kw):
        full = dict(base)
        full.update(kw)
        if case['cache']:
            full['cache'] = {}
        return crossh.execute(crossh.Run(T, none_at, None), Y0, **full), full

    refrun, kwr = go(nswp=1)
    if not judge_common(ctx, refrun, n, kwr, 'reference (large requests)'):
        return
    sizes = [len(b) for b in refrun.batches]
    K, M = len(sizes), int(sum(sizes))
    ctx.event('large-request-rows', max(sizes))
    for k in range(1, K + 1):
        run, kw = go(none_at=k, nswp=1)
        label = f'None at call {k} (requests of up to {max(sizes)} rows)'
        if not judge_common(ctx, run, n, kw, label):
            continue
        ctx.check('prefix', same_batches(run.batches, refrun.batches[:k - 1]),
            f'{label}: batches before the None differ from the reference')
        ctx.check('none-stop', run.info['stop'] == 'func',
            f'{label}: stop = {run.info["stop"]!r}, expected "func"')
    cum = np.cumsum(sizes)
    for m in sorted({int(x) for x in rng.integers(1, M + 1, size=4)} |
            {int(cum[0]) - 1, int(cum[0]), int(cum[-1])}):
        if m < 1:
            continue
        run, kw = go(nswp=1, m=m)
        label = f'budget m={m} (requests of up to {max(sizes)} rows)'
        if not judge_common(ctx, run, n, kw, label):
            continue
        j = int(np.searchsorted(cum, m, side='right'))
        ctx.check('prefix', same_batches(run.batches, refrun.batches[:j]),
            f'{label}: evaluated batches are not the reference prefix of '
            f'length {j}')
    ctx.nontrivial(['bigrequest', n, r0s, case['cache']])


def run_case(case, ctx):
    if case.get('kind') == 'bigrequest':
        return run_bigrequest(case, ctx)
    rng = np.random.default_rng(case['seed'])
    d = case['d']
    n = [int(rng.integers(1, 6)) for _ in range(d)]
    if max(n) == 1:
        n[int(rng.integers(d))] = 3
    rho = int(rng.integers(1, 4))
    Tt, rt, T = crossh.make_target(rng, n, rho)
    if case.get('zero_slices'):
        T = T.copy()
        for k in range(d):
            keep = rng.random(n[k]) < 0.5
            keep[int(rng.integers(n[k]))] = True
            sl = [slice(None)] * d
            sl[k] = ~keep
            T[tuple(sl)] = 0.
        ctx.event('objective-with-zero-slices')
    r0s = int(rng.integers(1, 3))
    r0 = [1] + [r0s] * (d - 1) + [1]
    Y0 = crossh.start_tensor(rng, n, r0)
    dr_min, dr_max = [(0, 0), (0, 1), (1, 1), (1, 2), (2, 2), (2, 3), (3, 3)][
        int(rng.integers(7))]
    nswp = int(rng.integers(1, 4))
    base = dict(dr_min=dr_min, dr_max=dr_max)
    if case['vld']:
        mv = int(rng.integers(1, 12))
        I_vld = np.stack([rng.integers(0, k, size=mv) for k in n], axis=1)
        base.update(I_vld=I_vld, y_vld=T[tuple(I_vld.T)])
    use_cache = case['cache']

    def go(none_at=None, cb_true_at=None, **kw):
        full = dict(base)
        full.update(kw)
        if use_cache:
            full['cache'] = {}
        run = crossh.execute(crossh.Run(T, none_at, cb_true_at), Y0, **full)
        return run, full

    refrun, kwr = go(nswp=nswp)
    if not judge_common(ctx, refrun, n, kwr, 'reference'):
        return
    sizes = [len(b) for b in refrun.batches]
    K, M = len(sizes), int(sum(sizes))
    cum = np.cumsum(sizes)
    ctx.event('reference-batches', K)
    ctx.event('reference-evaluations', M)
    conf = [n, r0, dr_min, dr_max, nswp, use_cache, case['vld']]

    # ---- (0) nswp = 0: only the pre-iteration; the stop reason set right
    # after it must be honoured at the first request of the first sweep
    run0, kw0 = go(nswp=0)
    if judge_common(ctx, run0, n, kw0, 'nswp=0'):
        ctx.check('nswp-zero', run0.info['stop'] == 'nswp'
            and run0.info['nswp'] == 0 and not run0.sweeps
            and len(run0.batches) <= 1, f'nswp=0: stop {run0.info["stop"]!r}, '
            f'{run0.info["nswp"]} sweeps, {len(run0.batches)} batches evaluated')

    # ---- (a) every budget
    for m in range(1, M + 2):
        run, kw = go(nswp=nswp, m=m)
        label = f'budget m={m}'
        if not judge_common(ctx, run, n, kw, label):
            continue
        j = int(np.searchsorted(cum, m, side='right'))   # batches that fit
        ctx.check('prefix', same_batches(run.batches, refrun.batches[:j]),
            f'{label}: evaluated batches are not the reference prefix of '
            f'length {j} (got {len(run.batches)} batches, '
            f'{run.evaluated} rows; reference sizes {sizes[:j + 1]})')
        if j < K:
            ctx.check('stop-m-iff', run.info['stop'] == 'm',
                f'{label}: next batch ({sizes[j]} rows after {cum[j - 1] if j else 0})'
                f' would exceed the budget but stop = {run.info["stop"]!r}')
            c = classify_position(ctx, run, d, 'budget')
            if c and c[0]:
                ctx.nontrivial([conf, 'm', c[1]])
        else:
            ctx.check('stop-m-iff', run.info['stop'] == refrun.info['stop'],
                f'{label}: everything fits (M = {M}) but stop = '
                f'{run.info["stop"]!r} instead of {refrun.info["stop"]!r}')

    # ---- (a') fractional budgets: never more than m indices means floor(m)
    for m in sorted({float(x) + f for x in rng.integers(1, M + 1, size=3)
            for f in (0.5, 0.75, 0.4)}):
        run, kw = go(nswp=nswp, m=m)
        label = f'budget m={m}'
        if not judge_common(ctx, run, n, kw, label):
            continue
        j = int(np.searchsorted(cum, int(np.floor(m)), side='right'))
        ctx.check('prefix', same_batches(run.batches, refrun.batches[:j]),
            f'{label}: evaluated {run.evaluated} indices in '
            f'{len(run.batches)} batches, the budget admits the first {j} '
            f'reference batches ({int(cum[j - 1]) if j else 0} indices)')
    # ---- (a'') the budget as the ONLY stop criterion, ended by the callback
    if len(refrun.sweeps) >= 1:
        s_cb = int(rng.integers(1, len(refrun.sweeps) + 1))
        full_b = dict(base)
        full_b['m'] = M + 1000
        if use_cache:
            full_b['cache'] = {}
        runb = crossh.execute(crossh.Run(T, cb_true_at=s_cb), Y0, **full_b)
        if judge_common(ctx, runb, n, full_b, 'budget-only run stopped by the '
                'callback'):
            lastb = runb.events[-1] if runb.events else None
            conv_first = any(sw[2].get('stop') == 'conv'
                for sw in runb.sweeps[:s_cb])
            ctx.check('cb-stop', (runb.info['stop'] in ('cb', 'conv'))
                and lastb is not None and lastb[0] == 'cb', lambda: 'only a '
                f'budget given, callback returns True at sweep {s_cb}: stop '
                f'{runb.info["stop"]!r}, last event '
                f'{lastb[:2] if lastb else None} (requests after the stop)')

    # ---- (b) objective returns None at call k
    for k in range(1, K + 1):
        run, kw = go(none_at=k, nswp=nswp)
        label = f'None at call {k}'
        if not judge_common(ctx, run, n, kw, label):
            continue
        ctx.check('prefix', same_batches(run.batches, refrun.batches[:k - 1]),
            f'{label}: batches before the None differ from the reference')
        idx = [t for t, ev in enumerate(run.events) if ev[0] == 'none']
        after = run.events[idx[0] + 1:] if idx else []
        ctx.check('no-eval-after-stop', bool(idx) and not any(
            ev[0] in ('batch', 'cb') for ev in after),
            f'{label}: events after the objective returned None: '
            f'{[ev[0] for ev in after][:5]}')
        ctx.check('none-stop', run.info['stop'] == 'func',
            f'{label}: stop = {run.info["stop"]!r}, expected "func"')
        c = classify_position(ctx, run, d, 'none')
        if c and c[0]:
            ctx.nontrivial([conf, 'none', c[1]])

    # ---- (h) histories: the caller's dictionaries reused over several calls
    # (h1) one info dictionary for a budgeted run and then an unbudgeted one
    shared = {}
    mb = int(cum[min(K - 1, max(0, K // 3))])
    kwa = dict(base, nswp=nswp, m=mb, info=shared)
    if use_cache:
        kwa['cache'] = {}
    runA = crossh.execute(crossh.Run(T), Y0, **kwa)
    okA = judge_common(ctx, runA, n, kwa, 'history: budgeted run')
    kwb = dict(base, nswp=nswp, info=shared)
    if use_cache:
        kwb['cache'] = {}
    runB = crossh.execute(crossh.Run(T), Y0, **kwb)
    if okA and \
            judge_common(ctx, runB, n, kwb, 'history: unbudgeted run reusing '
            'the info dictionary of a budgeted one'):
        ctx.check('history-info-reuse', same_batches(runB.batches,
            refrun.batches) and runB.info['stop'] == refrun.info['stop']
            and runB.info['nswp'] == refrun.info['nswp'], lambda: 'a run '
            'without budget that reuses the info dictionary of an earlier '
            f'budgeted run (m = {mb}) differs from the same run with a fresh '
            f'dictionary: stop {runB.info["stop"]!r}/{refrun.info["stop"]!r}, '
            f'sweeps {runB.info["nswp"]}/{refrun.info["nswp"]}, evaluated '
            f'{runB.evaluated}/{refrun.evaluated}')
    # (h2) the same two runs with the info argument left out altogether
    kwa2 = {k: v for k, v in kwa.items() if k != 'info'}
    kwb2 = {k: v for k, v in kwb.items() if k != 'info'}
    if use_cache:
        kwa2['cache'], kwb2['cache'] = {}, {}
    crossh.execute(crossh.Run(T), Y0, pass_info=False, **kwa2)
    runD = crossh.execute(crossh.Run(T), Y0, pass_info=False, **kwb2)
    if runD.error is None:
        ctx.check('history-info-reuse', same_batches(runD.batches,
            refrun.batches), lambda: 'a run without budget and without info '
            'argument, after a budgeted run without info argument, requests '
            f'{runD.evaluated} indices instead of {refrun.evaluated}')
    elif not isinstance(runD.error, crossh.Abort):
        raise runD.error
    # (h3) a cache that is not empty at entry: filled by an earlier run of
    # the same problem, or seeded by the caller with true values
    if use_cache:
        for how in ('earlier-run', 'seeded'):
            cch = {}
            if how == 'earlier-run':
                crossh.execute(crossh.Run(T), Y0, **dict(base, nswp=1,
                    cache=cch))
            else:
                for _ in range(int(rng.integers(1, 8))):
                    ix = tuple(int(rng.integers(0, k)) for k in n)
                    cch[ix] = float(T[ix])
            before = set(cch.keys())
            for kwc in (dict(base, nswp=nswp, cache=cch),
                    dict(base, nswp=nswp, m=max(1, M // 2), cache=dict(cch))):
                before = set(kwc['cache'].keys())
                runC = crossh.execute(crossh.Run(T), Y0, **kwc)
                lab = f'history: cache with {len(before)} entries at entry ' \
                    f'({how})'
                if not judge_common(ctx, runC, n, kwc, lab):
                    continue
                rows = {tuple(int(x) for x in r_) for b in runC.batches
                    for r_ in b}
                ctx.check('history-cache-reuse', not (rows & before),
                    f'{lab}: {len(rows & before)} indices that were already '
                    'in the cache were evaluated again')
                ctx.check('history-cache-reuse', set(kwc['cache'].keys()) ==
                    before | rows, f'{lab}: cache keys afterwards are not '
                    'the old keys plus the evaluated indices')
                if 'm' not in kwc and 'conv' not in (runC.info['stop'],
                        refrun.info['stop']):
                    # (the cache-specific stop "conv" may fire earlier when
                    # more requests are answered from the cache)
                    ctx.check('history-cache-reuse', crossh_same(runC.result,
                        refrun.result) and runC.info['nswp'] ==
                        refrun.info['nswp'], f'{lab}: result / sweep count '
                        'differ from the run with an empty cache')

    # ---- (h4) the cache-specific stop "conv": documented rule m_cache >
    # m_cache_scale * m after a sweep - strictly greater.  The trajectory of
    # the counters is recorded with the rule switched off, then scales are
    # placed exactly ON a point of it (a tie) and next to it
    if use_cache:
        traj_run = crossh.execute(crossh.Run(T), Y0, **dict(base, nswp=8,
            cache={}, m_cache_scale=1e18))
        if traj_run.error is None and traj_run.sweeps:
            tr = [(sw[2]['m'], sw[2]['m_cache']) for sw in traj_run.sweeps]
            cands = []
            for (m_s, c_s) in tr[:-1]:
                if m_s > 0 and c_s > 0:
                    sc = c_s / m_s
                    if sc * m_s == c_s:
                        cands += [sc, np.nextafter(sc, 0), np.nextafter(sc, 9)]
            for sc in cands[:6]:
                want = next((t + 1 for t, (m_t, c_t) in enumerate(tr)
                    if c_t > sc * m_t), None)
                runv = crossh.execute(crossh.Run(T), Y0, **dict(base, nswp=8,
                    cache={}, m_cache_scale=float(sc)))
                if runv.error is not None:
                    continue
                got = (runv.info['stop'], runv.info['nswp'])
                exp = ('conv', want) if want is not None and want <= 8 \
                    else ('nswp', 8)
                if exp[0] == 'conv' and want == 8:
                    exp_ok = got in (('conv', 8), ('nswp', 8))
                else:
                    exp_ok = got == exp
                ctx.check('conv-rule', exp_ok, lambda: f'stop rule "conv" '
                    f'with m_cache_scale = {float(sc)!r}: counters per sweep '
                    f'(m, m_cache) = {tr[:6]}...: expected stop {exp}, got '
                    f'{got} (the rule is m_cache > scale * m, strictly)')
            if cands:
                ctx.event('conv-rule-ties-placed')

    # ---- (c) callback returns True at sweep s
    for s in range(1, len(refrun.sweeps) + 1):
        run, kw = go(cb_true_at=s, nswp=nswp)
        label = f'callback stops at sweep {s}'
        if not judge_common(ctx, run, n, kw, label):
            continue
        conv_first = refrun.sweeps[s - 1][2].get('stop') == 'conv'
        want = 'conv' if conv_first else 'cb'
        last = run.events[-1] if run.events else None
        ctx.check('cb-stop', run.info['stop'] == want
            and run.info['nswp'] == s and last is not None
            and last[0] == 'cb' and last[1] == s,
            f'{label}: stop = {run.info["stop"]!r} (expected {want!r}), '
            f'nswp = {run.info["nswp"]}, last event {last[:2] if last else None}')
        ctx.check('cb-stop', crossh_same(run.result, refrun.sweeps[s - 1][0]),
            f'{label}: returned tensor differs from the reference trajectory '
            'at that sweep')
        ctx.nontrivial([conf, 'cb', s])

    # ---- (c') thresholds placed around the values of the reference trajectory
    for key in ('e', 'e_vld'):
        if key == 'e_vld' and not case['vld']:
            continue
        traj = [sw[2][key] for sw in refrun.sweeps]
        for v in sorted(set(traj)):
            if not (v > 0 and np.isfinite(v)):
                continue
            for thr in (v * (1 + 1e-6), v * (1 - 1e-6)):
                run, kw = go(nswp=nswp, **{key: thr})
                label = f'threshold {key}={thr:.6e}'
                if not judge_common(ctx, run, n, kw, label):
                    continue
                hit = [t + 1 for t, x in enumerate(traj) if 0 <= x <= thr]
                if key == 'e_vld':
                    # the validation error is also tested after the
                    # pre-iteration (sweep 0): value recomputed independently
                    # from the tensor cross copied when sweep 1 started
                    if len(refrun.copies) >= 2:
                        v0 = vld_error(refrun.copies[1], base['I_vld'],
                            base['y_vld'])
                        ix = tuple(np.asarray(base['I_vld']).T)
                        sl = 1e3 * ref.EPS * ref.fro(ref.absbound(
                            refrun.copies[1])[ix]) / ref.fro(base['y_vld'])
                        if v0 <= thr * (1 - 1e-9) - sl:
                            hit = [0] + hit
                        elif v0 <= thr * (1 + 1e-9) + sl:
                            ctx.skip('threshold-stop', 'tie-at-pre-iteration')
                            continue
                    elif run.info['nswp'] == 0:
                        ctx.skip('threshold-stop', 'pre-iteration-unobservable')
                        continue
                # priorities at a sweep end: conv > e_vld > e > nswp
                t_conv = next((t + 1 for t, sw in enumerate(refrun.sweeps)
                    if sw[2].get('stop') == 'conv'), None)
                if hit and (t_conv is None or hit[0] < t_conv):
                    want, wsw = key, hit[0]
                else:
                    want, wsw = refrun.info['stop'], refrun.info['nswp']
                ctx.check('threshold-stop', run.info['stop'] == want
                    and run.info['nswp'] == wsw, f'{label}: stop = '
                    f'{run.info["stop"]!r} after {run.info["nswp"]} sweeps, '
                    f'expected {want!r} after {wsw} (trajectory {traj})')

    # ---- (d) every pattern of stop arguments
    rt0 = list(rt)
    Yp = crossh.start_tensor(rng, n, rt0)
    for pm, pe, pn, pv in itertools.product([None, M // 2 + 1], [None, 1e-6],
            [None, 2], ['none', 'data', 'data+e', 'e-only']):
        kw = dict(dr_min=0, dr_max=0)
        if pm is not None:
            kw['m'] = pm
        if pe is not None:
            kw['e'] = pe
        if pn is not None:
            kw['nswp'] = pn
        has_data = pv in ('data', 'data+e')
        if has_data:
            mv = 6
            Iv = np.stack([rng.integers(0, k, size=mv) for k in n], axis=1)
            kw.update(I_vld=Iv, y_vld=T[tuple(Iv.T)])
        if pv in ('data+e', 'e-only'):
            kw['e_vld'] = 1e-6
        if use_cache:
            kw['cache'] = {}
        invalid = (pm is None and pe is None and pn is None and
            not (has_data and pv == 'data+e')) or (pv == 'e-only')
        run = crossh.execute(crossh.Run(T, max_calls=600), Yp, **kw)
        label = f'pattern m={pm} e={pe} nswp={pn} vld={pv}'
        if invalid:
            ctx.check('reject-before-eval', isinstance(run.error, ValueError)
                and run.calls == 0, f'{label}: expected ValueError before any '
                f'evaluation, got error={run.error!r} after {run.calls} calls')
            continue
        if judge_common(ctx, run, n, kw, label):
            ctx.held('pattern-run')
            allowed = {'conv'}
            if pm is not None:
                allowed.add('m')
            if pe is not None:
                allowed.add('e')
            if pn is not None:
                allowed.add('nswp')
            if pv == 'data+e':
                allowed.add('e_vld')
            ctx.check('stop-reason', run.info['stop'] in allowed,
                f'{label}: stop = {run.info["stop"]!r} not among the given '
                f'criteria {sorted(allowed)}')
    ctx.sample({'case': case, 'shape': n, 'start_ranks': r0, 'dr': [dr_min,
        dr_max], 'nswp': nswp, 'cache': use_cache, 'reference_batch_sizes':
        sizes[:24], 'K': K, 'M': M, 'budget_runs': M + 1, 'none_runs': K,
        'cb_runs': len(refrun.sweeps), 'reference_stop': refrun.info['stop']})


def vld_error(Y, I, y):
    A = np.asarray(ref.dense_ld(Y), dtype=float)
    return ref.fro(A[tuple(np.asarray(I).T)] - y) / ref.fro(y)


def crossh_same(A, B):
    return len(A) == len(B) and all(a.shape == b.shape
        and np.array_equal(a, b) for a, b in zip(A, B))
