"""C08 — maxvol / maxvol_rect return a dominant submatrix with exact coefficients.

Postcondition monitors interposed on maxvol, maxvol_rect and _maxvol (all
calls, direct and nested via TT-cross / core_dot_maxvol); the number of row
swaps is observed with a sys.monitoring line probe on the swap statement.
"""
import inspect

import numpy as np

from tvmon import core, ref
from tvmon import docsig
from tvmon.ref import EPS
from tvmon.interpose import installed, LineProbe

PID = 'C08'
LEVEL = 'exploration'
RULE = ('A = U diag(s) V^T with cond 1..1e8, n = r+1 .. 40 r, r = 1..12, '
    'scaled 1e-3..1e3, duplicate rows, zero rows, dr_min forcing all rows; '
    'e in {1.01,1.05,1.5,2}, k in {1,2,5,100,1000}, all 0<=dr_min<=dr_max<=5 '
    'and dr_max=None; invalid arguments; nested calls through cross; '
    'non-trivial = distinct (n, r, flags) with >= 1 swap or >= 1 added row')
REQUIRED = {'mv-index': 500, 'mv-coeff': 500, 'mv-identity': 500,
    'mv-dominant': 300, 'rect-index': 500, 'rect-coeff': 500,
    'rect-identity': 500, 'rect-rownorm': 200, 'reject': 200,
    '_maxvol': 200, 'nested-in-cross': 50}
REQUIRED_EVENTS = {'swaps-observed': 100, 'limit-hit': 5, 'rows-added': 100,
    'big-matrix': 10}
ASSUMPTIONS = ['coefficient tolerance 100 eps (r + steps + 10) r max(1,|B|max) '
    '|A[I]|max (backward-stable construction, no conditioning factor)', 'swap count read by a line probe on '
    '"I[j] = i"; if the probe target is missing the dominance monitor is '
    'inconclusive']
COVER = ['maxvol.maxvol', 'maxvol.maxvol_rect', 'utils._maxvol']
SHARDS = {'quick': 12, 'thorough': 16}

_probe = {'p': None}
_state = {'nested': False}


def gen_cases(seed, tier):
    rng = np.random.default_rng([seed, 108])
    q = tier == 'quick'
    out = []
    for j in range(10000 if q else 300000):
        out.append({'kind': 'matrix', 'seed': int(rng.integers(1 << 62)),
            'rows': ['plain', 'dup', 'zero', 'dupzero'][j % 4]})
    for j in range(40 if q else 600):
        out.append({'kind': 'cross', 'seed': int(rng.integers(1 << 62))})
    # matrices of more than 2^20 entries (any internal blocking, temporaries
    # and flat-index arithmetic of the rank-one update see several blocks)
    for j in range(14 if q else 140):
        out.append({'kind': 'big', 'seed': int(rng.integers(1 << 62)),
            'r': [256, 300, 512, 1000, 400, 700, 350][j % 7]})
    return out


def coeff_tol(A, I, B, steps=0):
    """Residual tolerance of A = B A[I] for a backward-stable construction.

    B is obtained by triangular solves with the LU factors and rank-one
    updates with pivots |B_ij| > 1: the residual B A[I] - A is bounded by
    c eps (r + steps) |B|max |A[I]|max r, independent of cond(A[I]).  (The
    first version of this check allowed a factor cond(A[I]); an explicit
    inverse, whose residual grows with the conditioning, slipped through.)
    """
    AI = A[I]
    r = max(A.shape[1], 1)
    return 100 * EPS * (r + steps + 10) * max(1., float(np.abs(B).max())) * \
        float(np.abs(AI).max()) * r


def judge_index(ctx, mon, I, n, lo, hi, what):
    ok = isinstance(I, np.ndarray) and I.ndim == 1 and \
        np.issubdtype(I.dtype, np.integer)
    if not ctx.check(mon, ok, f'{what}: I is not a 1-D integer array: {I!r}'):
        return False
    ok = lo <= len(I) <= hi and len(set(I.tolist())) == len(I) and \
        (len(I) == 0 or (I.min() >= 0 and I.max() < n))
    return ctx.check(mon, ok, f'{what}: row numbers {I.tolist()[:30]} not '
        f'distinct / in range [0,{n}) / of length in [{lo},{hi}]')


def judge_maxvol(ctx, A, e, k, I, B, swaps):
    n, r = A.shape
    if not judge_index(ctx, 'mv-index', I, n, r, r, f'maxvol {n}x{r}'):
        return
    if not ctx.check('mv-coeff', isinstance(B, np.ndarray)
            and B.shape == (n, r) and np.all(np.isfinite(B)),
            f'maxvol: B has shape {getattr(B, "shape", None)} / non-finite'):
        return
    tol = coeff_tol(A, I, B, swaps or 0)
    res = float(np.abs(B @ A[I] - A).max())
    ctx.margins['mv-coeff'] = max(ctx.margins.get('mv-coeff', 0.), res / tol)
    ctx.check('mv-coeff', res <= tol, lambda: f'maxvol {n}x{r}: |B A[I] - A|'
        f'max = {res:.3e} > {tol:.3e}', e=e, k=k)
    # B[I] = A[I] A[I]^-1 is a FORWARD quantity: its deviation from the
    # identity is bounded by the conditioning of the selected rows
    sv = np.linalg.svd(A[I], compute_uv=False)
    cond = sv[0] / sv[-1] if sv[-1] > 0 else np.inf
    tol_id = 100 * EPS * (r + (swaps or 0) + 10) * r * min(cond, 1e12)
    dev = float(np.abs(B[I] - np.eye(r)).max())
    ctx.check('mv-identity', dev <= tol_id, lambda: f'maxvol: |B[I] - '
        f'identity|max = {dev:.3e} > {tol_id:.3e} (cond {cond:.1e})')
    if swaps is None:
        ctx.skip('mv-dominant', 'swap-probe-missing')
        return
    if swaps >= k:
        ctx.event('limit-hit')
        ctx.skip('mv-dominant', 'iteration-limit-hit')
    else:
        bm = float(np.abs(B).max())
        # independent coefficients: solve with the selected rows
        try:
            Bref = np.linalg.solve(A[I].T, A.T).T
            bref = float(np.abs(Bref).max())
        except np.linalg.LinAlgError:
            bref = np.inf
        ctx.check('mv-dominant', bm <= e and bref <= e * (1 + 1e-8) + tol,
            lambda: f'maxvol {n}x{r} stopped after {swaps} < k = {k} swaps '
            f'but max|B| = {bm:.6f} (independent: {bref:.6f}) > e = {e}')
    if swaps:
        ctx.event('swaps-observed', swaps)
        ctx.nontrivial(['maxvol', n, r, e, k, int(swaps)])


def judge_rect(ctx, A, e, dr_min, dr_max, I, B):
    n, r = A.shape
    hi = n if dr_max is None else min(n, r + dr_max)
    lo = r + dr_min
    if not judge_index(ctx, 'rect-index', I, n, lo, hi,
            f'maxvol_rect {n}x{r} dr=({dr_min},{dr_max})'):
        return
    q = len(I)
    if not ctx.check('rect-coeff', isinstance(B, np.ndarray)
            and B.shape == (n, q) and np.all(np.isfinite(B)),
            f'maxvol_rect: B has shape {getattr(B, "shape", None)} for '
            f'{q} rows / non-finite entries'):
        return
    tol = coeff_tol(A, I, B, q - r) * (1 + q - r)
    res = float(np.abs(B @ A[I] - A).max())
    ctx.margins['rect-coeff'] = max(ctx.margins.get('rect-coeff', 0.), res / tol)
    ctx.check('rect-coeff', res <= tol, lambda: f'maxvol_rect {n}x{r}: '
        f'|B A[I] - A|max = {res:.3e} > {tol:.3e}', dr=[dr_min, dr_max], e=e)
    ctx.check('rect-identity', np.array_equal(B[I], np.eye(q)),
        'maxvol_rect: B[I] is not exactly the identity')
    if q < hi:
        rn = float(np.linalg.norm(B, axis=1).max())
        ctx.check('rect-rownorm', rn <= e * (1 + 1e-6),
            lambda: f'maxvol_rect stopped at {q} < {hi} rows but a row of B '
            f'has norm {rn:.6f} > e = {e}', shape=[n, r])
    else:
        ctx.skip('rect-rownorm', 'upper-limit-reached')
    if q > r:
        ctx.event('rows-added', q - r)
        ctx.nontrivial(['rect', n, r, e, dr_min, dr_max, q])


def make_maxvol(orig):
    sig = docsig.sig('maxvol')

    def maxvol(*args, **kw):
        a = sig.bind(*args, **kw)
        a.apply_defaults()
        a = a.arguments
        A0 = np.array(a['A'], dtype=float, copy=True)
        p = _probe['p']
        before = p.counts['swap'] if p else 0
        I, B = orig(*args, **kw)
        ctx = core.CUR
        if ctx is not None and A0.ndim == 2:
            swaps = None if (p is None or p.missing) else \
                p.counts['swap'] - before
            judge_maxvol(ctx, A0, float(a['e']), int(a['k']), I, B, swaps)
            if _state['nested']:
                ctx.held('nested-in-cross')
        return I, B
    return maxvol


def make_rect(orig):
    sig = docsig.sig('maxvol_rect')

    def maxvol_rect(*args, **kw):
        a = sig.bind(*args, **kw)
        a.apply_defaults()
        a = a.arguments
        A0 = np.array(a['A'], dtype=float, copy=True)
        I, B = orig(*args, **kw)
        ctx = core.CUR
        if ctx is not None and A0.ndim == 2:
            judge_rect(ctx, A0, float(a['e']), int(a['dr_min']),
                None if a['dr_max'] is None else int(a['dr_max']), I, B)
        return I, B
    return maxvol_rect


def make__maxvol(orig):
    def _maxvol(A, *args, **kw):
        A0 = np.array(A, dtype=float, copy=True)
        I, B = orig(A, *args, **kw)
        ctx = core.CUR
        if ctx is not None:
            n, r = A0.shape
            if n <= r:
                ctx.check('_maxvol', np.array_equal(I, np.arange(n))
                    and np.array_equal(B, np.eye(n)),
                    f'_maxvol for a {n}x{r} matrix must return all rows '
                    'and the identity')
            else:
                ctx.check('_maxvol', isinstance(I, np.ndarray)
                    and B.shape[0] == n and B.shape[1] == len(I),
                    '_maxvol: inconsistent (I, B)')
        return I, B
    return _maxvol


def setup_worker(ctx):
    import teneva
    installed({'maxvol': make_maxvol, 'maxvol_rect': make_rect,
        '_maxvol': make__maxvol}).__enter__()
    p = LineProbe(teneva.maxvol, {'I[j] = i': 'swap'})
    p.__enter__()
    _probe['p'] = p
    if p.missing:
        ctx.event('swap-probe-missing')


def expect_reject(ctx, fn, what):
    try:
        fn()
    except ValueError:
        ctx.held('reject')
        return
    except Exception as ex:
        ctx.viol('reject', f'{what}: raised {type(ex).__name__}: {ex}')
        return
    ctx.viol('reject', f'{what}: accepted')


def make_matrix(rng, rows):
    r = int(rng.integers(1, 13))
    mode = int(rng.integers(4))
    n = r + 1 + [0, int(rng.integers(1, 4)), int(rng.integers(r, 5 * r + 2)),
        int(rng.integers(10 * r, 40 * r + 1))][mode]
    n = min(n, 300)
    cond = 10.0 ** rng.uniform(0, 8)
    U, _ = np.linalg.qr(rng.normal(size=(n, r)))
    V, _ = np.linalg.qr(rng.normal(size=(r, r)))
    s = np.geomspace(1, 1 / cond, r) if r > 1 else np.ones(1)
    A = (U * s) @ V.T * 10.0 ** rng.uniform(-3, 3)
    if rng.random() < 0.15:
        # entries of equal magnitude: random signs / small integers (ties in
        # the pivot search and exact +-1 multipliers in the LU start)
        for _ in range(20):
            A = rng.choice([-1., 1.], size=(n, r)) if rng.random() < 0.5 else \
                rng.integers(-2, 3, size=(n, r)).astype(float)
            sv = np.linalg.svd(A, compute_uv=False)
            if sv[-1] > 1e-8 * sv[0]:
                cond = float(sv[0] / sv[-1])
                break
        else:
            A = (U * s) @ V.T
    extra = []
    if rows in ('dup', 'dupzero'):
        for _ in range(int(rng.integers(1, 4))):
            extra.append(A[int(rng.integers(n))].copy())
    if rows in ('zero', 'dupzero'):
        for _ in range(int(rng.integers(1, 4))):
            extra.append(np.zeros(r))
    if extra:
        A = np.vstack([A] + [x[None, :] for x in extra])
        A = A[rng.permutation(A.shape[0])]
    return np.ascontiguousarray(A), cond


def run_matrix(case, ctx):
    import teneva
    rng = np.random.default_rng(case['seed'])
    A, cond = make_matrix(rng, case['rows'])
    n, r = A.shape
    if rng.random() < 0.3:
        A = np.asfortranarray(A)
    e = float(rng.choice([1.01, 1.05, 1.5, 2.]))
    k = int(rng.choice([1, 2, 5, 100, 1000]))
    if rng.random() < 0.5:
        I, B = teneva.maxvol(A, e, k)
    else:
        I, B = teneva.maxvol(A, e=e, k=k)
    dr_min = int(rng.integers(0, 6))
    dr_max = int(rng.integers(dr_min, 6))
    choice = rng.random()
    if choice < 0.15:
        dr_max = None
    elif choice < 0.3:
        dr_min = dr_max = n - r          # force all rows
    if r + dr_min > n:
        expect_reject(ctx, lambda: teneva.maxvol_rect(A, e, dr_min, dr_max),
            f'maxvol_rect r+dr_min > n ({n}x{r}, dr_min={dr_min})')
        dr_min = min(dr_min, n - r)
        dr_max = max(dr_min, dr_max) if dr_max is not None else None
    e2 = float(rng.choice([1.01, 1.1, 1.5, 2.]))
    if rng.random() < 0.08:
        # "never add rows beyond dr_min": any accuracy e >= 1.01 is valid,
        # also one whose square is not a double
        e2 = [1e155, 1e200, 1.7976931348623157e308][int(rng.integers(3))]
        ctx.event('rect-huge-accuracy')
    I2, B2 = teneva.maxvol_rect(A, e2, dr_min, dr_max, e, k)
    # _maxvol clips dr_min / dr_max to what the matrix allows (as TT-cross
    # relies on for small cores): raw, unclipped values here
    dm = int(rng.integers(0, 6))
    dM = int(rng.integers(dm, 6))
    I3, B3 = teneva._maxvol(A, e2, dm, dM, e, k)
    ctx.check('_maxvol', r + min(dm, n - r) <= len(I3) <= r + min(dM, n - r),
        f'_maxvol {n}x{r} dr=({dm},{dM}) returned {len(I3)} rows')
    if rng.random() < 0.2:
        W = A[:r] if rng.random() < 0.5 else A[:max(1, r - 1)]
        teneva._maxvol(W)
        expect_reject(ctx, lambda: teneva.maxvol(W, e, k),
            f'maxvol on a {W.shape} (not tall) matrix')
        expect_reject(ctx, lambda: teneva.maxvol_rect(A, e2, 3, 2),
            'maxvol_rect dr_min > dr_max')
        expect_reject(ctx, lambda: teneva.maxvol_rect(A, e2, -1, 2),
            'maxvol_rect dr_min < 0')
        # the same inconsistent requests with numpy integer scalars of every
        # kind (differences of unsigned scalars wrap around)
        ut = [np.uint8, np.uint16, np.uint32, np.uint64, np.int8, np.int32,
            np.int64, np.uintp][int(rng.integers(8))]
        lo, hi = int(rng.integers(0, 3)), int(rng.integers(3, 8))
        expect_reject(ctx, lambda: teneva.maxvol_rect(A, e2, ut(hi), ut(lo)),
            f'maxvol_rect dr_min={hi} > dr_max={lo} as {ut.__name__}')
        expect_reject(ctx, lambda: teneva.maxvol_rect(A, e2, ut(hi), lo),
            f'maxvol_rect dr_min={ut.__name__}({hi}) > dr_max={lo}')
        expect_reject(ctx, lambda: teneva.maxvol_rect(A, e2, hi, ut(lo)),
            f'maxvol_rect dr_min={hi} > dr_max={ut.__name__}({lo})')
        if n - r + 1 <= 120:
            expect_reject(ctx, lambda: teneva.maxvol_rect(A, e2,
                ut(n - r + 1)), f'maxvol_rect dr_min={ut.__name__}({n - r + 1})'
                f' > n - r, dr_max=None')
    ctx.sample({'case': case, 'shape': [n, r], 'cond': cond, 'e': e, 'k': k,
        'I': I, 'max_abs_B': float(np.abs(B).max()), 'dr': [dr_min, dr_max],
        'rect_rows': len(I2),
        'rect_max_rownorm': float(np.linalg.norm(B2, axis=1).max())})


def run_big(case, ctx):
    import teneva
    rng = np.random.default_rng(case['seed'])
    r = case['r']
    # (the height stays below 6000: the routine's scipy.linalg.lu call builds
    # a dense n x n permutation matrix, a resource limit of the original)
    n = min(int((1 << 20) * rng.uniform(1.15, 2.6)) // r + 1, 6000)
    A = rng.normal(size=(n, r))
    # rows of graded size in random order: the dominant rows (the swaps) are
    # spread over the whole height of the matrix
    A *= (10.0 ** rng.uniform(-1.5, 0, size=n))[:, None]
    if rng.random() < 0.3:
        A = np.asfortranarray(A)
    e = float(rng.choice([1.05, 1.5]))
    k = int(rng.choice([3, 20, 100]))
    teneva.maxvol(A, e, k)                  # judged by the interposer
    ctx.event('big-matrix')
    if r <= 300:
        teneva.maxvol_rect(A, 1.1, 1, 3, e, k)


def run_cross(case, ctx):
    """Nested calls: TT-cross drives _maxvol / maxvol / maxvol_rect."""
    import teneva
    rng = np.random.default_rng(case['seed'])
    d = int(rng.integers(2, 5))
    n = [int(rng.integers(2, 6)) for _ in range(d)]
    T = [rng.normal(size=(a, m, b)) for a, m, b in zip(
        [1] + [2] * (d - 1), n, [2] * (d - 1) + [1])]
    Y0 = [rng.normal(size=(a, m, b)) for a, m, b in zip(
        [1] + [1] * (d - 1), n, [1] * (d - 1) + [1])]
    _state['nested'] = True
    try:
        teneva.cross(lambda I: teneva.get_many(T, I), Y0, nswp=3,
            dr_min=int(rng.integers(0, 2)), dr_max=int(rng.integers(1, 3)),
            info={})
    finally:
        _state['nested'] = False


def run_case(case, ctx):
    {'matrix': run_matrix, 'cross': run_cross, 'big': run_big}[case['kind']](
        case, ctx)
