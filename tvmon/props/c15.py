"""C15 — optimum search returns true tensor entries and is exact when nothing
is pruned.

Two layers of monitors:

* call monitors (oracle attached to the function, DESIGN 3.1): wrappers on
  `optima_tt_beam`, `optima_tt_max` and `optima_tt` judge EVERY call — the
  ones the workload makes and the internal ones (`optima_tt` -> `optima_tt_max`
  on Y and on (Y - y1)^2 -> `optima_tt_beam` in both directions; `optima_qtt`
  -> `optima_tt` on the quantised tensor) — against the longdouble dense tensor
  of the call's own argument;
* end-to-end monitors for `optima_qtt`, `optima_tt_maxvol` and
  `optima_func_tt_beam` (driven from `run_case`).

Rounding model (all tolerances; safety factor C = 10):

* a value obtained by `teneva.get` on the caller's cores is a sum of products:
  `tolv = C (sum ranks + d) 2^-52 absbound` elementwise (DESIGN 3.3);
* whatever goes through `orthogonalize` (beam row norms, the values reported by
  the maxvol variant) carries a *normwise* backward error (Householder QR per
  core, chain products): `tolx(Y) = C size(Y) 2^-52 S(Y)`, `S = prod_k
  ||G_k||_F >= ||Y||_F >= max absbound`, `size` = number of core entries
  (>= every inner dimension that occurs).  A full beam therefore returns an
  element whose modulus is >= max|Y| - tolx(Y);
* the opposite extreme of `optima_tt` is the max-modulus element of
  Z = (Y - y1)^2 as computed, so for the reported value v and the true extreme
  e: (e - y1)^2 - (v - y1)^2 <= tz := 2 tolx(Z), hence with D = |e - y1|:
  |e - v| <= min(D, tz / D).  (For nearly constant tensors this is the
  sqrt(eps) conditioning of the squared shift, not a defect.)  Z is the tensor
  actually handed to the second `optima_tt_max` call (observed), bounded below
  by the analytic norm of the block/Kronecker construction;
* `optima_qtt` searches in a quantised copy truncated at e = 1e-12: its
  measured deviation dq = max|dense(QTT) - dense(Y)| (own index map, F order)
  enters as 2 dq per compared value; dq > 1e-6 max|Y| is "not judged" (the
  accuracy of the conversion is C17's claim);
* `optima_func_tt_beam`: per mode the maximiser is a critical point of a
  degree m = 2(n-1) polynomial found from monomial coefficients (companion
  matrix, backward stable): the maximiser of a polynomial perturbed by eps_p
  loses <= 2 eps_p of the maximum, eps_p <= c m^2 (1+sqrt 2)^m 2^-52 max|p|
  (Chebyshev -> monomial coefficient growth), c = 100: relative tolerance
  sum_k 100 m_k^2 (1+sqrt2)^m_k 2^-52 (<= 8e-8 for n <= 6, d <= 5; the DESIGN
  figure 1e-6 is the cap).  The reference maximum is a lower bound of the true
  one (values at chebroots of the derivative, end points and a 2001-grid).

Known findings (never loosened, keyed by mechanism; the conditions are next to
the `kf=` sites): K1 `rank1-pruned-opposite-extreme`,
K2 `maxvol-deficient-unfolding`, K4 `maxvol-rank1-pruned-opposite-extreme`.
Every other violation is a plain violation.
"""
import traceback

import numpy as np
from numpy.polynomial import chebyshev as Ch

from tvmon import gen, ref, interpose
from tvmon.ref import LD, EPS

PID = 'C15'
LEVEL = 'exploration'
RULE = ('generated TT tensors (families generic / integer with ties / constant '
    '(rank 1 and rank 2 representation) / positive / negative / shifted '
    'sign-mixed / rank 1 (float, integer, padded to rank 2) / over-ranked / '
    'rank-deficient / mode size 1 / d=2 / scaled / zero; d=2..5, mode sizes '
    '1..4, ranks 1..4(6)), each searched with k in {1,2,3,random<N,N,N+3} by '
    'optima_tt_beam (l2r, r2l, ret_all, to_orth=False), optima_tt_max, '
    'optima_tt, optima_tt_maxvol (l2r,r2l,both,smart); [2^q]^d tensors by '
    'optima_qtt; rank-1 Chebyshev coefficient tensors (mode sizes 1..6, '
    'generic / integer / decaying / constant-mode / trailing-zero / '
    'leading-zero coefficients, k=1..5, k_loc) by optima_func_tt_beam. '
    'Non-trivial = distinct (kind, '
    'family, shape, ranks, k list) with >= 4 elements, a non-constant dense '
    'tensor and at least one exactness monitor judged')
REQUIRED = {
    'beam-index': 400, 'beam-exact-full': 200, 'beam-exact-rank1': 100,
    'beam-all': 100,
    'max-index': 200, 'max-value': 200, 'max-exact-full': 100,
    'max-exact-rank1': 50,
    'tt-index': 200, 'tt-value': 200, 'tt-order': 200, 'tt-exact-full': 100,
    'tt-exact-rank1': 50,
    'qtt-index': 50, 'qtt-value': 50, 'qtt-order': 50, 'qtt-backmap': 50,
    'qtt-exact-full': 30, 'qtt-agrees-tt': 30,
    'maxvol-index': 100, 'maxvol-value': 100, 'maxvol-order': 100,
    'maxvol-exact-full': 50, 'maxvol-rank1-maxmod': 20,
    'maxvol-rank1-minmax': 20,
    'func-point': 50, 'func-max': 50, 'func-all': 30, 'func-max-redundant': 50,
}
REQUIRED_EVENTS = {'beam-calls-internal': 400, 'beam-calls-external': 400,
    'max-calls-internal': 200, 'tt-calls-internal': 50,
    'tt-shifted-square-observed': 100, 'beam-l2r': 200, 'beam-r2l': 200,
    'cross-tensor': 10, 'qtt-fine-accuracy-tiny-tensor': 10}
ASSUMPTIONS = [
    'numpy longdouble (64-bit mantissa) contraction is the dense reference',
    'value tolerance 10*(sum ranks + d)*2^-52*absbound; exactness tolerance '
    '10*size(Y)*2^-52*prod_k||G_k||_F (normwise, orthogonalisation); opposite '
    'extreme of optima_tt: min(D, 2*tolx(Z)/D), Z = observed (Y-y1)^2',
    'optima_qtt: measured QTT deviation dq (own F-order index map) added '
    'twice per compared value; dq > 1e-6*max|Y| is not judged',
    'optima_func_tt_beam: relative tolerance sum_k 100*m_k^2*(1+sqrt2)^m_k*'
    '2^-52 (m_k = 2(n_k-1)), capped at 1e-6; reference maximum from '
    'numpy chebroots + end points + 2001-point grid (a lower bound)',
    'a ValueError (incl. numpy LinAlgError, its subclass) from '
    'optima_tt_maxvol is a rejection of the input and not judged',
    'maxvol variant, TT-rank-1 input with pruning k: max-modulus and min/max '
    'claims judged (a miss of the opposite extreme with a right max-modulus '
    'is known finding maxvol-rank1-pruned-opposite-extreme); rank-1 tensors '
    'held in rank-2 cores with pruning k are not judged there (singular '
    'matrices handed to maxvol, event maxvol-rank1-deficient-pruned-not-judged)',
]
SHARDS = {'quick': 8, 'thorough': 16}
BUDGET_S = {'quick': 240, 'thorough': 1500}

K1 = 'rank1-pruned-opposite-extreme'
K2 = 'maxvol-deficient-unfolding'
K4 = 'maxvol-rank1-pruned-opposite-extreme'

C = 10.
MAXN = 6000          # dense references only up to this many elements

TT_FAMILIES = ['generic', 'generic', 'int', 'int', 'const', 'const2', 'pos',
    'neg', 'shift', 'shift', 'rank1', 'rank1', 'rank1', 'rank1int',
    'rank1pad', 'overrank', 'deficient', 'mode1', 'd2', 'scaled', 'zero',
    'tiny', 'huge', 'intdtype', 'intdtype', 'needle', 'needle', 'cross']
QTT_FAMILIES = ['generic', 'generic', 'int', 'const', 'pos', 'shift',
    'rank1', 'rank1', 'rank1int', 'overrank', 'zero', 'smooth', 'smooth']
FUNC_FAMILIES = ['generic', 'generic', 'generic', 'int', 'decay', 'mode1',
    'constmode', 'trail0', 'lead0', 'n2']


# ---- cases ---------------------------------------------------------------------

def gen_cases(seed, tier):
    rng = np.random.default_rng([seed, 115])
    quick = tier == 'quick'
    n_tt, n_qtt, n_func = (600, 200, 400) if quick else (24000, 10000, 24000)
    out = []
    for j in range(n_tt):
        out.append({'kind': 'tt', 'seed': int(rng.integers(1 << 62)),
            'family': TT_FAMILIES[j % len(TT_FAMILIES)],
            'maxN': 300 if quick else 1100})
    for j in range(n_qtt):
        out.append({'kind': 'qtt', 'seed': int(rng.integers(1 << 62)),
            'family': QTT_FAMILIES[j % len(QTT_FAMILIES)],
            'maxN': 256 if quick else 600})
    for j in range(n_func):
        out.append({'kind': 'func', 'seed': int(rng.integers(1 << 62)),
            'family': FUNC_FAMILIES[j % len(FUNC_FAMILIES)]})
    # interleave the kinds so that every shard sees all of them
    order = np.random.default_rng([seed, 116]).permutation(len(out))
    return [out[int(i)] for i in order]


# ---- own TT constructions (independent of teneva) -------------------------------

def tt_add(Y1, Y2):
    d = len(Y1)
    out = []
    for k, (G1, G2) in enumerate(zip(Y1, Y2)):
        a1, n, b1 = G1.shape
        a2, _, b2 = G2.shape
        if k == 0:
            G = np.concatenate([G1, G2], axis=2)
        elif k == d - 1:
            G = np.concatenate([G1, G2], axis=0)
        else:
            G = np.zeros((a1 + a2, n, b1 + b2))
            G[:a1, :, :b1] = G1
            G[a1:, :, b1:] = G2
        out.append(np.ascontiguousarray(G))
    return out


def tt_const(n, v, rng):
    """Constant tensor, the modulus split at random over the cores."""
    d = len(n)
    if v == 0:
        Y = [np.ones((1, k, 1)) for k in n]
        Y[int(rng.integers(d))] *= 0.
        return Y
    w = rng.dirichlet(np.ones(d))
    Y = [np.ones((1, k, 1)) * abs(v) ** w[j] for j, k in enumerate(n)]
    if v < 0:
        Y[int(rng.integers(d))] *= -1.
    return Y


def pad_rank1(Y, rng):
    """The same rank-1 tensor held in cores of rank 2 (exactly)."""
    d = len(Y)
    dup = rng.random() < 0.5
    out = []
    for k, G in enumerate(Y):
        g = G[0, :, 0]
        a = 1 if k == 0 else 2
        b = 1 if k == d - 1 else 2
        H = np.zeros((a, len(g), b))
        if dup:
            # first core [g/2, g/2], middle diag(g, g), last [g; g]
            if k == 0:
                H[0, :, :] = (0.5 * g)[:, None]
            elif k == d - 1:
                H[:, :, 0] = g[None, :]
            else:
                H[0, :, 0] = g
                H[1, :, 1] = g
            if d == 1:
                H[0, :, 0] = g
        else:
            H[0, :, 0] = g       # zero blocks elsewhere
        out.append(H)
    return out, ('dup' if dup else 'zeroblock')


def rand_shape(rng, maxN, dmin=2, dmax=5, nmin=1, nmax=4):
    for _ in range(200):
        d = int(rng.integers(dmin, dmax + 1))
        n = [int(rng.integers(nmin, nmax + 1)) for _ in range(d)]
        if int(np.prod(n)) <= maxN:
            return n
    return [2, 2]


def make_tensor(rng, family, maxN, n=None):
    """(Y, meta); meta['rank1'] is true by construction, never numerically."""
    if n is None:
        if family == 'd2':
            n = rand_shape(rng, maxN, 2, 2, 1, 7)
        elif family == 'mode1':
            n = rand_shape(rng, maxN)
            for k in rng.choice(len(n), size=int(rng.integers(1, len(n) + 1)),
                    replace=False):
                n[int(k)] = 1
        else:
            n = rand_shape(rng, maxN)
    d = len(n)
    meta = {'family': family, 'rank1': False, 'rep': ''}
    r = gen.rand_ranks(rng, d, 4)
    if family in ('generic', 'mode1', 'd2'):
        Y = gen.cores(rng, n, r, 'normal')
    elif family == 'int':
        Y = [rng.integers(-2, 3, size=G.shape).astype(float)
            for G in gen.cores(rng, n, r, 'normal')]
    elif family == 'const':
        Y = tt_const(n, float(np.round(rng.normal() * 3, 3)) or 1.5, rng)
        meta['rank1'] = True
    elif family == 'const2':
        Y = tt_add(tt_const(n, float(rng.normal()) or 1., rng),
            tt_const(n, float(rng.normal()) or 1., rng))
        meta['rank1'] = True
        meta['rep'] = 'sum of two constants'
    elif family == 'pos':
        Y = gen.cores(rng, n, r, 'pos')
    elif family == 'neg':
        Y = gen.cores(rng, n, r, 'pos')
        Y[int(rng.integers(d))] *= -1.
    elif family == 'shift':
        r = gen.rand_ranks(rng, d, 3)
        T = gen.cores(rng, n, r, 'pos')
        typ = float(np.prod([np.mean(np.sum(G, axis=(0, 2))) / np.sqrt(
            G.shape[0]) for G in T]))
        c = -typ * float(rng.uniform(0.2, 1.5))
        Y = tt_add(T, tt_const(n, c, rng))
    elif family == 'rank1':
        Y = gen.cores(rng, n, [1] * (d + 1), 'normal')
        meta['rank1'] = True
    elif family == 'rank1int':
        Y = [rng.integers(-3, 4, size=(1, k, 1)).astype(float) for k in n]
        if rng.random() < 0.7:      # mostly without zero slices
            Y = [np.where(G == 0, 1., G) for G in Y]
        meta['rank1'] = True
    elif family == 'rank1pad':
        Y0 = gen.cores(rng, n, [1] * (d + 1),
            'normal' if rng.random() < 0.7 else 'int')
        Y, meta['rep'] = pad_rank1(Y0, rng)
        meta['rank1'] = True
    elif family == 'overrank':
        Y = gen.cores(rng, n, gen.rand_ranks(rng, d, 6, 2), 'normal')
    elif family == 'deficient':
        Y = gen.cores(rng, n, gen.rand_ranks(rng, d, 4, 2), 'normal')
        for k in range(d - 1):
            if rng.random() < 0.5:
                Y[k][:, :, -1] = Y[k][:, :, 0]
            else:
                Y[k][:, :, -1] = 0.
    elif family == 'scaled':
        Y = gen.cores(rng, n, r, 'normal')
        Y[int(rng.integers(d))] *= 10.0 ** int(rng.integers(-6, 7))
    elif family in ('tiny', 'huge'):
        # every entry far from 1 (but the tensor well inside the double
        # range): squares of entries under/overflow unless the routine
        # normalises before squaring
        Y = gen.cores(rng, n, r if rng.random() < 0.6 else [1] * (d + 1),
            'normal')
        meta['rank1'] = all(x == 1 for x in ref.ranks_of(Y))
        # |entries| within 1e-150..1e150: the documented algorithm of optima_tt
        # squares the shifted tensor, so entries must have representable squares
        ex = float(rng.choice([60, 90, 140])) * (1 if family == 'huge' else -1)
        for G in Y:
            G *= 10.0 ** (ex / d)
    elif family == 'smooth':
        # fibres affine (sometimes quadratic) in the grid index: samples of a
        # smooth function, low QTT ranks, so the quantisation really truncates
        r = gen.rand_ranks(rng, d, 4, 2)
        Y = []
        for k in range(d):
            t = np.arange(n[k]) / max(1, n[k] - 1)
            G = rng.normal(size=(r[k], 1, r[k + 1])) + \
                rng.normal(size=(r[k], 1, r[k + 1])) * t[None, :, None]
            if rng.random() < 0.3:
                G = G + rng.normal(size=(r[k], 1, r[k + 1])) * \
                    (t ** 2)[None, :, None]
            Y.append(G)
    elif family == 'intdtype':
        # hand-built count / indicator tensors: cores of INTEGER dtype, all
        # entries of one sign or mixed (converted below)
        lo = 0 if rng.random() < 0.6 else -2
        Y = [rng.integers(lo, 4, size=G.shape).astype(float)
            for G in gen.cores(rng, n, r, 'normal')]
        for G in Y:                       # no all-zero slices by accident
            G[G == 0] = 1. if rng.random() < 0.7 else 0.
    elif family == 'needle':
        # nearly constant background (about +-1) whose slices through the
        # origin are damped by 0.1, plus one large entry at the origin: every
        # fibre through the large entry has a small norm, a pruning beam
        # overlooks it in its first pass and finds it in the shifted one
        # (long outer modes are needed for the beam to be fooled: N up to
        # ~3500, driven with pruning beams only, see case_tt)
        if rng.random() < 0.7:
            n = [int(rng.integers(28, 42)), int(rng.integers(2, 4)),
                int(rng.integers(28, 42))]
        else:
            n = [int(rng.integers(12, 20)), 3, 3, int(rng.integers(12, 20))]
        d = len(n)
        sgn = float(rng.choice([-1., 1.]))
        v = float(rng.uniform(3., 8.))
        Y = []
        for k in range(d):
            a = 1. + 0.02 * rng.random(n[k])
            a[0] = 0.1
            s_ = np.zeros(n[k])
            s_[0] = v ** (1. / d)
            if k == 0:
                G = np.stack([a * sgn, s_], axis=1)[None, :, :]
            elif k == d - 1:
                G = np.stack([a, s_ * sgn], axis=0)[:, :, None]
            else:
                G = np.zeros((2, n[k], 2))
                G[0, :, 0], G[1, :, 1] = a, s_
            Y.append(G)
    elif family == 'zero':
        Y = gen.cores(rng, n, r, 'normal')
        Y[int(rng.integers(d))] *= 0.
        meta['rank1'] = True
    elif family == 'cross':
        # more than 100 partial indices in both sweep directions, and the
        # second extreme where the squared shifted tensor of optima_tt has
        # its WEAKEST slices: a flat background b, a line of ones along the
        # last axis and one along the first axis, the value -0.5 where they
        # cross (a search that is exhaustive for k >= N must still find it)
        n = [[11, 11, 11], [12, 12, 12], [6, 6, 6, 6], [5, 6, 7, 5],
            [13, 10, 11]][int(rng.integers(5))]
        d = len(n)
        pt = [int(rng.integers(x)) for x in n]
        unit = lambda k: np.eye(n[k])[pt[k]].reshape(1, -1, 1)
        one = lambda k: np.ones((1, n[k], 1))
        L1 = [unit(k) if k < d - 1 else one(k) for k in range(d)]
        L2 = [unit(k) if k > 0 else one(k) for k in range(d)]
        X_ = [unit(k) for k in range(d)]
        X_[0] = X_[0] * -2.5
        bg = [rng.uniform(0.5, 1., size=(1, n[k], 1)) for k in range(d)]
        bg[0] *= float(rng.choice([0., 1e-3, 0.05]))
        Y = tt_add(tt_add(L1, L2), tt_add(X_, bg))
        if rng.random() < 0.5:
            Y[int(rng.integers(d))] *= -1.
        meta['rep'] = f'two unit lines crossing at {pt} with value -0.5'
    else:
        raise ValueError(family)
    Y = [np.ascontiguousarray(G, dtype=float) for G in Y]
    if family == 'intdtype':
        Y = [G.astype([np.int64, np.int32][int(rng.integers(2))]) for G in Y]
    meta['n'] = [int(x) for x in n]
    meta['r'] = ref.ranks_of(Y)
    return Y, meta


# ---- per-tensor reference information -------------------------------------------

class _State:
    def __init__(self):
        self.on = False
        self.ctx = None
        self.depth = 0
        self.frames = []
        self.info = {}
        self.r1 = set()
        self.mv = None      # log of matrices handed to maxvol (run_maxvol)

    def reset(self, ctx):
        self.ctx = ctx
        self.depth = 0
        self.frames = []
        self.info = {}
        self.r1 = set()
        self.mv = None


ST = _State()


class Info:
    """Dense reference data of one TT argument (computed before the call)."""

    def __init__(self, Y, rank1=False):
        self.Y = Y
        self.usable = False
        self.why = ref.wellformed(Y, finite=False, ints=True)
        if self.why is not None:
            return
        if not all(np.all(np.isfinite(G)) for G in Y):
            self.why = 'non-finite cores'
            return
        self.n = ref.shape_of(Y)
        self.r = ref.ranks_of(Y)
        self.d = len(Y)
        self.N = int(np.prod(self.n))
        if self.N > MAXN:
            self.why = 'too large for a dense reference'
            return
        self.A = ref.dense_ld(Y)
        self.S = float(np.prod([np.sqrt(np.sum(np.asarray(G, dtype=LD) ** 2))
            for G in Y], dtype=LD))
        self.size = int(sum(G.size for G in Y))
        self.tolx = C * self.size * EPS * self.S
        self.rank1 = bool(rank1 or all(x == 1 for x in self.r))
        self.M = float(np.max(np.abs(self.A)))
        self.tmin = float(np.min(self.A))
        self.tmax = float(np.max(self.A))
        self._tolv = None
        self.usable = bool(np.isfinite(self.S) and np.all(np.isfinite(self.A)))
        if not self.usable:
            self.why = 'dense reference overflowed'

    @property
    def tolv(self):
        if self._tolv is None:
            # + the resolution of a double near zero: an entry below the
            # smallest subnormal (4.9e-324) cannot be returned as a float
            self._tolv = ref.tol_tt(self.Y, C) + ref.LD(2e-323)
        return self._tolv


def tinfo(Y):
    key = id(Y)
    inf = ST.info.get(key)
    if inf is None or inf.Y is not Y:
        inf = Info(Y, rank1=key in ST.r1) if isinstance(Y, list) else None
        if inf is None:
            inf = Info.__new__(Info)
            inf.Y, inf.usable, inf.why = Y, False, 'argument is not a list'
        ST.info[key] = inf
    return inf


KF_RECORDED = 5


def kviol(ctx, mon, msg, kf=None, **detail):
    """ctx.viol, but known-finding matches beyond the first KF_RECORDED per
    key and worker are only counted (evaluation + violation of the monitor
    and an event): core.Ctx keeps at most 40 violation records per worker and
    decides the exit code from the records, so a frequent known finding must
    never crowd out a plain violation."""
    if kf is not None:
        seen = ctx.events.get('known-finding:' + kf, 0)
        ctx.event('known-finding:' + kf)
        if seen >= KF_RECORDED:
            m = ctx._m(mon)
            m[0] += 1
            m[1] += 1
            ctx.case_viol += 1
            return
    ctx.viol(mon, msg, kf=kf, **detail)


def valid_index(i, n):
    try:
        a = np.asarray(i)
    except Exception:
        return False
    if a.ndim != 1 or a.shape[0] != len(n):
        return False
    if not np.issubdtype(a.dtype, np.integer):
        return False
    return bool(np.all(a >= 0) and np.all(a < np.asarray(n)))


def is_real(x):
    return isinstance(x, (float, int, np.floating, np.integer)) and \
        not isinstance(x, bool)


def at(A, i):
    return A[tuple(int(x) for x in np.asarray(i))]


# ---- call monitors ----------------------------------------------------------------

def judge_beam(ctx, inf, k, l2r, ret_all, res, internal):
    ctx.event('beam-calls-internal' if internal else 'beam-calls-external')
    ctx.event('beam-l2r' if l2r else 'beam-r2l')
    if not inf.usable:
        ctx.event('beam-call-not-judged:' + str(inf.why)[:40])
        return
    n, N = inf.n, inf.N
    I = res
    if ret_all:
        a = np.asarray(I) if isinstance(I, np.ndarray) else None
        ok = a is not None and a.ndim == 2 and a.shape[1] == inf.d and \
            1 <= a.shape[0] <= max(int(k), 1) and all(
            valid_index(row, n) for row in a)
        if not ctx.check('beam-all', ok, 'optima_tt_beam(ret_all=True): not '
                'an integer array [m <= k, d] of in-bounds multi-indices',
                k=k, l2r=l2r, result=I, shape=n):
            return
        if a.shape[0] != min(int(k), N):
            ctx.event('beam-all-fewer-rows-than-min(k,N)')
        if len({tuple(row) for row in a.tolist()}) != a.shape[0]:
            ctx.event('beam-all-duplicate-rows')
        i0 = a[0]
    else:
        i0 = I
    if not ctx.check('beam-index', valid_index(i0, n), 'optima_tt_beam: '
            'result is not an in-bounds integer multi-index of length d',
            k=k, l2r=l2r, result=I, shape=n):
        return
    got = abs(at(inf.A, i0))
    if k >= N:
        mon = 'beam-exact-full'
    elif inf.rank1:
        mon = 'beam-exact-rank1'
    else:
        ctx.event('beam-pruned-structure-only')
        return
    ctx.close(mon, got, inf.M, inf.tolx, f'optima_tt_beam(k={k}, l2r={l2r}'
        f'{", internal call" if internal else ""}): modulus at the returned '
        f'index is not the maximum modulus (N={N}, ranks={inf.r})',
        index=np.asarray(i0), shape=n)


def judge_max(ctx, inf, k, res, internal):
    ctx.event('max-calls-internal' if internal else 'max-calls-external')
    if not inf.usable:
        ctx.event('max-call-not-judged:' + str(inf.why)[:40])
        return
    n, N = inf.n, inf.N
    ok = isinstance(res, tuple) and len(res) == 2 and valid_index(res[0], n) \
        and is_real(res[1])
    if not ctx.check('max-index', ok, 'optima_tt_max: result is not '
            '(in-bounds integer multi-index, number)', k=k, result=res,
            shape=n):
        return
    i, y = res
    ctx.close('max-value', y, at(inf.A, i), at(inf.tolv, i), 'optima_tt_max: '
        'reported value differs from the entry at the reported index',
        index=np.asarray(i), k=k)
    if k >= N:
        mon = 'max-exact-full'
    elif inf.rank1:
        mon = 'max-exact-rank1'
    else:
        ctx.event('max-pruned-structure-only')
        return
    ctx.close(mon, abs(at(inf.A, i)), inf.M, inf.tolx, f'optima_tt_max(k={k}'
        f'{", internal call" if internal else ""}): not the maximum modulus '
        f'(N={N}, ranks={inf.r})', index=np.asarray(i), shape=n)


def analytic_tz(inf, y1):
    """2 tolx of the block/Kronecker representation of (Y - y1)^2."""
    c2 = abs(float(y1)) ** (2. / inf.d) if y1 != 0 else 0.
    S = 1.
    size = 0
    R = [1] + [x + 1 for x in inf.r[1:-1]] + [1]
    for k, G in enumerate(inf.Y):
        S *= float(np.sum(np.asarray(G, dtype=LD) ** 2)) + inf.n[k] * c2
        size += inf.n[k] * R[k] ** 2 * R[k + 1] ** 2
    return 2 * C * size * EPS * S


def minmax_verdict(tmin, tmax, ymin, ymax, a_side, tz, slack):
    """Exactness of (ymin, ymax) given the max-modulus side is searched
    directly (allowance a_side) and the other one in the squared shift
    (allowance min(D, tz/D) + slack).  Returns (ok, maxmod_ok, k1_like)."""
    D = tmax - tmin
    opp = (min(D, tz / D) if D > 0 else 0.) + slack
    emin = abs(ymin - tmin)
    emax = abs(tmax - ymax)
    sides = []
    if tmax >= -tmin - a_side:
        sides.append('max')
    if -tmin >= tmax - a_side:
        sides.append('min')
    ok = False
    k1_like = False
    for s in sides:
        e_side, e_opp = (emax, emin) if s == 'max' else (emin, emax)
        if e_side <= a_side and e_opp <= opp:
            ok = True
        if e_side <= a_side and e_opp > opp:
            k1_like = True
    M = max(abs(tmin), abs(tmax))
    maxmod_ok = max(abs(ymin), abs(ymax)) >= M - a_side
    return ok, maxmod_ok, (k1_like and not ok), opp


def judge_tt(ctx, inf, k, res, fr, internal):
    ctx.event('tt-calls-internal' if internal else 'tt-calls-external')
    if not inf.usable:
        ctx.event('tt-call-not-judged:' + str(inf.why)[:40])
        return None
    n, N = inf.n, inf.N
    ok = isinstance(res, tuple) and len(res) == 4 and valid_index(res[0], n) \
        and valid_index(res[2], n) and is_real(res[1]) and is_real(res[3])
    if not ctx.check('tt-index', ok, 'optima_tt: result is not (index, '
            'number, index, number) with in-bounds integer multi-indices',
            k=k, result=res, shape=n):
        return None
    imin, ymin, imax, ymax = res
    ctx.close('tt-value', [ymin, ymax], [at(inf.A, imin), at(inf.A, imax)],
        [at(inf.tolv, imin), at(inf.tolv, imax)], 'optima_tt: a reported '
        'value differs from the entry at its reported index', k=k,
        i_min=np.asarray(imin), i_max=np.asarray(imax))
    ctx.check('tt-order', bool(ymin <= ymax), 'optima_tt: reported minimum '
        f'{ymin!r} exceeds reported maximum {ymax!r}', k=k)
    full = k >= N
    if not (full or inf.rank1):
        ctx.event('tt-pruned-structure-only')
        return None
    # the max-modulus value the routine worked with, and the observed Z
    mc = fr['max'] if fr else []
    y1 = None
    tz = 0.
    if len(mc) == 2 and isinstance(mc[0][2], tuple) and len(mc[0][2]) == 2 \
            and is_real(mc[0][2][1]) and mc[0][0] is inf.Y:
        y1 = float(mc[0][2][1])
        zinf = tinfo(mc[1][0])
        if zinf.usable:
            tz = 2 * zinf.tolx
            ctx.event('tt-shifted-square-observed')
    if y1 is None:
        ctx.event('tt-inner-calls-not-observed')
        y1 = float(ymin if abs(ymin) >= abs(ymax) else ymax)
    tz = max(tz, analytic_tz(inf, y1))
    tv = float(max(at(inf.tolv, imin), at(inf.tolv, imax)))
    a_side = inf.tolx + tv
    ok, maxmod_ok, k1_like, opp = minmax_verdict(inf.tmin, inf.tmax,
        float(ymin), float(ymax), a_side, tz, 2 * a_side)
    mon = 'tt-exact-full' if full else 'tt-exact-rank1'
    if ok:
        ctx.held(mon)
        return True
    # K1 (known finding, DESIGN §1): TT-rank-1 input AND pruning beam AND the
    # function is optima_tt AND the max-modulus element reported is the true
    # one AND the wrong value is the extreme on the opposite side (searched in
    # (Y - y1)^2, which has rank 4).  Everything else is a plain violation.
    kf = K1 if (inf.rank1 and not full and maxmod_ok and k1_like) else None
    kviol(ctx, mon, f'optima_tt(k={k}{", internal call" if internal else ""}): '
        f'reported (min, max) = ({float(ymin)!r}, {float(ymax)!r}), true '
        f'({inf.tmin!r}, {inf.tmax!r}); N={N}, ranks={inf.r}, '
        f'max-modulus {"right" if maxmod_ok else "WRONG"}', kf=kf,
        shape=n, k=k, y1=y1, allowed_side=a_side, allowed_opposite=opp,
        i_min=np.asarray(imin), i_max=np.asarray(imax),
        cores=[G for G in inf.Y] if inf.size <= 60 else None)
    return False


def _mk_beam(orig):
    def optima_tt_beam(Y, k=100, l2r=True, ret_all=False, *a, **kw):
        if not ST.on:
            return orig(Y, k, l2r, ret_all, *a, **kw)
        inf = tinfo(Y)
        internal = ST.depth > 0
        ST.depth += 1
        try:
            res = orig(Y, k, l2r, ret_all, *a, **kw)
        finally:
            ST.depth -= 1
        judge_beam(ST.ctx, inf, k, bool(l2r), bool(ret_all), res, internal)
        return res
    return optima_tt_beam


def _mk_max(orig):
    def optima_tt_max(Y, k=100, *a, **kw):
        if not ST.on:
            return orig(Y, k, *a, **kw)
        inf = tinfo(Y)
        internal = ST.depth > 0
        ST.depth += 1
        try:
            res = orig(Y, k, *a, **kw)
        finally:
            ST.depth -= 1
        judge_max(ST.ctx, inf, k, res, internal)
        if ST.frames:
            ST.frames[-1]['max'].append((Y, k, res))
        return res
    return optima_tt_max


def _mk_tt(orig):
    def optima_tt(Y, k=100, *a, **kw):
        if not ST.on:
            return orig(Y, k, *a, **kw)
        inf = tinfo(Y)
        internal = ST.depth > 0
        fr = {'max': [], 'tt': []}
        ST.frames.append(fr)
        ST.depth += 1
        try:
            res = orig(Y, k, *a, **kw)
        finally:
            ST.depth -= 1
            ST.frames.pop()
        verdict = judge_tt(ST.ctx, inf, k, res, fr, internal)
        if ST.frames:
            ST.frames[-1]['tt'].append((Y, k, res, fr, verdict))
        return res
    return optima_tt


def _col_deficient(A):
    """Independent test on the very matrix handed to maxvol."""
    A = np.asarray(A, dtype=float)
    if A.ndim != 2 or not np.all(np.isfinite(A)):
        return True
    s = np.linalg.svd(A, compute_uv=False)
    return bool(A.shape[0] < A.shape[1] or s[0] == 0 or s[-1] <= 1e-9 * s[0])


def _mk_maxvol(orig):
    def maxvol(A, *a, **kw):
        if ST.mv is None:
            return orig(A, *a, **kw)
        rec = {'fn': 'maxvol', 'shape': list(np.shape(A)),
            'deficient': _col_deficient(A), 'dup': None}
        ST.mv.append(rec)
        res = orig(A, *a, **kw)
        I = np.asarray(res[0]).reshape(-1).tolist()
        rec['dup'] = len(set(I)) < len(I)
        return res
    return maxvol


def _mk_maxvol_rect(orig):
    def maxvol_rect(A, *a, **kw):
        if ST.mv is None:
            return orig(A, *a, **kw)
        rec = {'fn': 'maxvol_rect', 'shape': list(np.shape(A)),
            'deficient': _col_deficient(A), 'dup': None}
        ST.mv.append(rec)
        res = orig(A, *a, **kw)
        I = np.asarray(res[0]).reshape(-1).tolist()
        rec['dup'] = len(set(I)) < len(I)
        return res
    return maxvol_rect


def setup_worker(ctx):
    import teneva   # noqa
    interpose.install('optima_tt_beam', _mk_beam)
    interpose.install('optima_tt_max', _mk_max)
    interpose.install('optima_tt', _mk_tt)
    interpose.install('maxvol', _mk_maxvol)
    interpose.install('maxvol_rect', _mk_maxvol_rect)


def finish_worker(ctx):
    interpose.uninstall_all()


# ---- the cases ---------------------------------------------------------------------

def run_case(case, ctx):
    import teneva
    if getattr(teneva.optima_tt_beam, '__tvmon_orig__', None) is None:
        setup_worker(ctx)     # replay path / defensive
    ST.reset(ctx)
    ST.on = True
    try:
        rng = np.random.default_rng(case['seed'])
        if case['kind'] == 'tt':
            case_tt(case, ctx, teneva, rng)
        elif case['kind'] == 'qtt':
            case_qtt(case, ctx, teneva, rng)
        else:
            case_func(case, ctx, teneva, rng)
    finally:
        ST.on = False
        ST.info = {}
        ST.frames = []


def k_list(rng, N):
    ks = [k for k in (1, 2, 3) if k < N]
    if N > 5:
        ks.append(int(rng.integers(4, N)))
    return ks, [N, N + 3]


def deficient_bonds(inf):
    """Independent test: a TT bond whose rank exceeds the numerical rank of
    the corresponding unfolding of the dense tensor (so that a partial-product
    matrix handed to maxvol cannot have full column rank)."""
    A = np.asarray(inf.A, dtype=float)
    out = []
    for k in range(1, inf.d):
        s = np.linalg.svd(A.reshape(int(np.prod(inf.n[:k])), -1),
            compute_uv=False)
        rk = inf.r[k]
        if rk > len(s) or s[0] == 0 or s[rk - 1] <= 1e-9 * s[0]:
            out.append(k)
    return out


def case_tt(case, ctx, teneva, rng):
    Y, meta = make_tensor(rng, case['family'], case['maxN'])
    if meta['rank1']:
        ST.r1.add(id(Y))
    inf = tinfo(Y)
    n, N, d = inf.n, inf.N, inf.d
    pruned, full = k_list(rng, N)
    if case['family'] == 'needle':
        pruned, full = [1, 2, 5], []
    if case['family'] == 'cross':
        pruned, full = [2], [N, N + int(rng.integers(1, 500))]
        ctx.event('cross-tensor')
    judged_exact = False
    first = {}
    for k in pruned + full:
        exact = k >= N or inf.rank1
        for l2r in (True, False):
            teneva.optima_tt_beam(Y, k, l2r=l2r)
            teneva.optima_tt_beam(Y, k=k, l2r=l2r, ret_all=True)
        r_max = teneva.optima_tt_max(Y, k)
        r_tt = teneva.optima_tt(Y, k)
        judged_exact = judged_exact or exact
        if full and k == full[0]:
            first = {'k': k, 'optima_tt_max': r_max, 'optima_tt': r_tt}
    # already orthogonalised input (to_orth=False): the same claim about the
    # tensor that is passed in
    if rng.random() < 0.3 and inf.M > 0:
        for l2r in (True, False):
            Z, p = teneva.orthogonalize([G.copy() for G in Y],
                0 if l2r else d - 1, use_stab=True)
            if meta['rank1']:
                ST.r1.add(id(Z))
            k = pruned[0] if not full else (full[0] if rng.random() < 0.5
                or not (inf.rank1 and pruned) else pruned[0])
            teneva.optima_tt_beam(Z, k, l2r, False, to_orth=False, p=p)
            ctx.event('beam-to_orth-false')
    # maxvol variant
    if N <= 130:
        deficient = deficient_bonds(inf)
        hows = ['l2r', 'r2l', 'both', 'smart']
        for k in full:
            for how in hows:
                run_maxvol(ctx, teneva, Y, inf, k, how, deficient)
        for k in pruned[:3]:
            for how in rng.permutation(hows)[:2]:
                run_maxvol(ctx, teneva, Y, inf, k, str(how), deficient)
    if len(ctx.samples) < 3:
        ctx.sample({'case': case, 'shape': n, 'ranks': inf.r,
            'rank1_by_construction': meta['rank1'], 'rep': meta['rep'],
            'k_pruned': pruned, 'k_full': full,
            'dense_min_max': [inf.tmin, inf.tmax], 'max_modulus': inf.M,
            'observed_at_k=N': first,
            'cores': [G for G in Y] if inf.size <= 40 else 'omitted'})
    if N >= 4 and inf.tmax > inf.tmin and judged_exact:
        ctx.nontrivial(['tt', case['family'], n, inf.r, pruned, full])


def run_maxvol(ctx, teneva, Y, inf, k, how, deficient):
    n, N = inf.n, inf.N
    ST.mv = log = []
    try:
        res = teneva.optima_tt_maxvol(Y, k=k, how=how)
    except ValueError as ex:
        # documented-by-behaviour rejection (maxvol_rect size check, or
        # numpy.linalg.LinAlgError — a ValueError subclass — from a singular
        # partial-product matrix): the input is refused, nothing is claimed
        ctx.skip('maxvol-index', 'rejected-' + type(ex).__name__)
        ctx.event('maxvol-rejected:' + how)
        return
    finally:
        ST.mv = None
    ctx.event('maxvol-calls:' + how)
    ctx.event('maxvol-matrices-observed', len(log))
    handed_deficient = [r['shape'] for r in log if r['deficient']]
    dup_rows = [r['fn'] for r in log if r['dup']]
    ok = isinstance(res, tuple) and len(res) == 4 and valid_index(res[0], n) \
        and valid_index(res[2], n) and is_real(res[1]) and is_real(res[3])
    if not ctx.check('maxvol-index', ok, f'optima_tt_maxvol(how={how}): '
            'result is not (index, number, index, number) with in-bounds '
            'integer multi-indices', k=k, result=res, shape=n):
        return
    imin, ymin, imax, ymax = res
    # the values are read from the orthogonalised cores: normwise error
    tol = inf.tolx + float(max(at(inf.tolv, imin), at(inf.tolv, imax)))
    vok = ctx.close('maxvol-value', [ymin, ymax], [at(inf.A, imin),
        at(inf.A, imax)], tol, f'optima_tt_maxvol(how={how}, k={k}): a '
        'reported value differs from the entry at its reported index',
        i_min=np.asarray(imin), i_max=np.asarray(imax))
    ook = ctx.check('maxvol-order', bool(ymin <= ymax), f'optima_tt_maxvol('
        f'how={how}): reported minimum {ymin!r} exceeds maximum {ymax!r}')
    emin, emax = abs(float(ymin) - inf.tmin), abs(inf.tmax - float(ymax))
    if k >= N:
        if emin <= 2 * tol and emax <= 2 * tol:
            ctx.held('maxvol-exact-full')
            return
        # K2 (known finding): optima_tt_maxvol AND nothing should be pruned
        # (k >= N) AND a matrix actually handed to teneva.maxvol during this
        # call has no full column rank (SVD of that very matrix; this happens
        # iff a TT bond is rank-deficient, cf. `deficient`), which violates
        # maxvol's precondition: its LU start may return a duplicate row and a
        # candidate is lost.  Only a *missed extreme* (valid entries, ordered)
        # qualifies.  A full-column-rank matrix with zero rows that makes
        # maxvol_rect repeat row 0 is D10, not K2: plain violation.
        kf = K2 if (handed_deficient and deficient and vok and ook) else None
        kviol(ctx, 'maxvol-exact-full', f'optima_tt_maxvol(how={how}, k={k} >= '
            f'N={N}): reported (min, max) = ({float(ymin)!r}, '
            f'{float(ymax)!r}), true ({inf.tmin!r}, {inf.tmax!r}); ranks='
            f'{inf.r}, rank-deficient bonds={deficient}, column-rank-'
            f'deficient matrices handed to maxvol={handed_deficient}, '
            f'duplicate rows returned by={dup_rows}', kf=kf, shape=n,
            tol=2 * tol, cores=[G for G in Y] if inf.size <= 60 else None)
    elif inf.rank1:
        if deficient:
            # a rank-1 tensor held in rank-2 cores: the matrices handed to
            # maxvol are singular (K2's mechanism under a pruning beam)
            ctx.event('maxvol-rank1-deficient-pruned-not-judged')
            return
        got = max(abs(float(ymin)), abs(float(ymax)))
        ctx.close('maxvol-rank1-maxmod', got, inf.M, 2 * tol,
            f'optima_tt_maxvol(how={how}, k={k}) on a TT-rank-1 tensor: the '
            'larger modulus of (min, max) is not the maximum modulus',
            shape=n)
        ctx.event('maxvol-rank1-pruned-calls')
        # the statement's rank-1 clause covers every routine: min and max
        # must be the true ones for any candidate count
        if emin <= 2 * tol and emax <= 2 * tol:
            ctx.held('maxvol-rank1-minmax')
            return
        # K4 (known finding): optima_tt_maxvol AND TT-rank-1 input (ranks all
        # 1 / rank 1 by construction with full-column-rank matrices only) AND
        # pruning k < N AND the max-modulus element reported is the true one
        # AND the wrong value is the extreme on the opposite side: the rows
        # are selected by modulus only (maxvol / maxvol_rect on a one-column
        # matrix keep the k+1 partial products of largest modulus), so the
        # smallest-modulus or opposite-sign extreme is pruned.
        side_max = inf.tmax >= -inf.tmin - 2 * tol   # max-modulus is the max
        side_min = -inf.tmin >= inf.tmax - 2 * tol
        k4 = (got >= inf.M - 2 * tol) and vok and ook and not handed_deficient \
            and ((side_max and emax <= 2 * tol < emin) or
                 (side_min and emin <= 2 * tol < emax))
        kviol(ctx, 'maxvol-rank1-minmax', f'optima_tt_maxvol(how={how}, k={k} < '
            f'N={N}) on a TT-rank-1 tensor: reported (min, max) = ('
            f'{float(ymin)!r}, {float(ymax)!r}), true ({inf.tmin!r}, '
            f'{inf.tmax!r}); max-modulus '
            f'{"right" if got >= inf.M - 2 * tol else "WRONG"}',
            kf=K4 if k4 else None, shape=n, ranks=inf.r, tol=2 * tol,
            cores=[G for G in Y] if inf.size <= 60 else None)
    else:
        ctx.event('maxvol-pruned-structure-only')


# ---- quantised variant ----------------------------------------------------------------

def qtt_to_tt_dense(Aq, d, q):
    """dense QTT array (2,)*(d q) -> [2^q]^d, bit t of mode k is QTT mode
    k q + t with weight 2^t (F order inside a mode)."""
    perm = []
    for k in range(d):
        perm.extend(range(k * q + q - 1, k * q - 1, -1))
    return Aq.transpose(perm).reshape([2 ** q] * d)


def qtt_to_tt_index(j, d, q):
    j = [int(x) for x in np.asarray(j)]
    return [sum(j[k * q + t] << t for t in range(q)) for k in range(d)]


def case_qtt(case, ctx, teneva, rng):
    fam = case['family']
    if rng.random() < 0.06:
        # outside the quantifier: unequal or non-power-of-two mode sizes (and
        # 2^0) are refused with ValueError — counted, never judged
        n = [[2, 4], [3, 3], [4, 4, 2], [1, 1], [6, 6, 6]][int(rng.integers(5))]
        Y = gen.cores(rng, n, gen.rand_ranks(rng, len(n), 3), 'normal')
        try:
            teneva.optima_qtt(Y, 5)
            ctx.event('qtt-accepted-outside-domain:' + str(n))
        except ValueError:
            ctx.event('qtt-rejected-outside-domain')
        return
    for _ in range(100):
        d = int(rng.integers(2, 5))
        q = int(rng.integers(1, 4))
        if (2 ** q) ** d <= case['maxN']:
            break
    n = [2 ** q] * d
    Y, meta = make_tensor(rng, fam, case['maxN'], n=n)
    if meta['rank1']:
        ST.r1.add(id(Y))
    inf = tinfo(Y)
    N = inf.N
    pruned, full = k_list(rng, N)
    first = {}
    judged_exact = False
    # lossy quantisation (explicit rank cap / coarse accuracy): whatever is
    # found, the reported values must be entries of Y at the reported indices
    for e_q, r_q in ((1e-2, 1), (1e-1, 2), (1e-12, 2)):
        ST.depth += 1
        try:
            res = teneva.optima_qtt(Y, full[0] if full else 10, e_q, r_q)
        finally:
            ST.depth -= 1
        ok = isinstance(res, tuple) and len(res) == 4 and \
            valid_index(res[0], n) and valid_index(res[2], n) and \
            is_real(res[1]) and is_real(res[3])
        if not ctx.check('qtt-index', ok, 'optima_qtt(lossy): malformed '
                'result', e=e_q, r=r_q, result=res, shape=n):
            continue
        ctx.close('qtt-value-lossy', [res[1], res[3]], [at(inf.A, res[0]),
            at(inf.A, res[2])], [at(inf.tolv, res[0]), at(inf.tolv, res[2])],
            f'optima_qtt(e={e_q}, r={r_q}): a reported value is not the entry '
            'of the tensor at its reported index', i_min=np.asarray(res[0]),
            i_max=np.asarray(res[2]))
        ctx.check('qtt-order', bool(res[1] <= res[3]), 'optima_qtt(lossy): '
            f'reported minimum {res[1]!r} exceeds reported maximum {res[3]!r}')
    plans = [(Y, k, ()) for k in pruned[:2] + pruned[3:] + full]
    # the requested accuracy e is the caller's: a tiny tensor whose magnitude
    # sits in one core (as after orthogonalize / truncate), searched with an
    # accuracy well below its entries, is quantised as exactly as any other
    if fam in ('generic', 'int', 'pos', 'shift', 'overrank') and inf.usable \
            and inf.M > 0 and full and rng.random() < 0.6:
        sig = 10.0 ** float(rng.uniform(-25, -13))
        Yt = [np.asarray(G, dtype=float) / (np.linalg.norm(G) or 1.)
            for G in Y]
        jt = int(rng.integers(d))
        Yt[jt] = Yt[jt] * sig
        plans.append((Yt, full[0], (sig * 1e-12, 100)))
        ctx.event('qtt-fine-accuracy-tiny-tensor')
    Y0_, inf0_ = Y, inf
    for Y, k, eargs in plans:
        inf = tinfo(Y)
        if not inf.usable:
            continue
        fr = {'max': [], 'tt': []}
        ST.frames.append(fr)
        ST.depth += 1           # calls below are internal to optima_qtt
        try:
            res = teneva.optima_qtt(Y, k, *eargs)
        finally:
            ST.depth -= 1
            ST.frames.pop()
        ok = isinstance(res, tuple) and len(res) == 4 and \
            valid_index(res[0], n) and valid_index(res[2], n) and \
            is_real(res[1]) and is_real(res[3])
        if not ctx.check('qtt-index', ok, 'optima_qtt: result is not (index, '
                'number, index, number) with in-bounds integer multi-indices '
                'of length d', k=k, result=res, shape=n):
            continue
        imin, ymin, imax, ymax = res
        tv = float(max(at(inf.tolv, imin), at(inf.tolv, imax)))
        ctx.close('qtt-value', [ymin, ymax], [at(inf.A, imin),
            at(inf.A, imax)], [at(inf.tolv, imin), at(inf.tolv, imax)],
            'optima_qtt: a reported value differs from the entry at its '
            'reported index', k=k, i_min=np.asarray(imin),
            i_max=np.asarray(imax))
        ctx.check('qtt-order', bool(ymin <= ymax), 'optima_qtt: reported '
            f'minimum {ymin!r} exceeds reported maximum {ymax!r}', k=k,
            shape=n, i_min=np.asarray(imin), i_max=np.asarray(imax))
        # the inner optima_tt call on the quantised tensor
        if len(fr['tt']) != 1:
            ctx.event('qtt-inner-call-not-observed')
            continue
        Zq, kq, rq, frq, verdict_q = fr['tt'][0]
        zinf = tinfo(Zq)
        if not (zinf.usable and zinf.n == [2] * (d * q) and
                isinstance(rq, tuple) and len(rq) == 4 and
                valid_index(rq[0], zinf.n) and valid_index(rq[2], zinf.n)):
            ctx.event('qtt-inner-tensor-not-usable')
            continue
        ctx.check('qtt-backmap', list(np.asarray(imin)) == qtt_to_tt_index(
            rq[0], d, q) and list(np.asarray(imax)) == qtt_to_tt_index(
            rq[2], d, q), 'optima_qtt: returned indices are not the images '
            'of the quantised indices (bit t of mode k = QTT mode k q + t)',
            qtt_min=np.asarray(rq[0]), qtt_max=np.asarray(rq[2]),
            i_min=np.asarray(imin), i_max=np.asarray(imax), q=q)
        if k < N:
            ctx.event('qtt-pruned-structure-only')
            continue
        dq = float(np.max(np.abs(qtt_to_tt_dense(zinf.A, d, q) - inf.A)))
        # what the quantisation may legitimately lose: truncation at e = 1e-12
        # per split plus the sqrt(eps) resolution of its Gram-matrix SVD, each
        # relative to the product of the core norms.  A copy that is further
        # off is the routine's own error and buys no allowance.
        legit = 100 * d * q * 1.5e-8 * inf.S
        if dq > legit:
            ctx.event('qtt-copy-off-beyond-truncation')
            dq = legit
        if not dq <= 1e-3 * inf.M:
            ctx.skip('qtt-exact-full', 'qtt-approximation-poor')
            continue
        # allowances: inner call exact for the quantised tensor (tolx(Zq), and
        # tz of its squared shift), every compared value moved by <= dq
        tz = 0.
        mc = frq['max'] if frq else []
        if len(mc) == 2 and tinfo(mc[1][0]).usable:
            tz = 2 * tinfo(mc[1][0]).tolx
        y1 = float(ymin if abs(ymin) >= abs(ymax) else ymax)
        tz = max(tz, analytic_tz(zinf, y1)) + 4 * (inf.tmax - inf.tmin) * dq \
            + 4 * dq * dq
        a_side = zinf.tolx + 2 * dq + tv
        okx, maxmod_ok, _, opp = minmax_verdict(inf.tmin, inf.tmax,
            float(ymin), float(ymax), a_side, tz, 2 * a_side + 4 * dq)
        judged_exact = True
        ctx.check('qtt-exact-full', okx, lambda: f'optima_qtt(k={k} >= N={N}): '
            f'reported (min, max) = ({float(ymin)!r}, {float(ymax)!r}), true '
            f'({inf.tmin!r}, {inf.tmax!r}); ranks={inf.r}, q={q}, max-modulus '
            f'{"right" if maxmod_ok else "WRONG"}', shape=n, dq=dq,
            allowed_side=a_side, allowed_opposite=opp,
            i_min=np.asarray(imin), i_max=np.asarray(imax))
        # agreement with the unquantised search under the same full beam
        r_tt = teneva.optima_tt(Y, k)
        if isinstance(r_tt, tuple) and len(r_tt) == 4 and is_real(r_tt[1]) \
                and is_real(r_tt[3]):
            a2 = inf.tolx + tv
            _, _, _, opp2 = minmax_verdict(inf.tmin, inf.tmax, float(r_tt[1]),
                float(r_tt[3]), a2, analytic_tz(inf, y1), 2 * a2)
            lim = max(a_side, opp) + max(a2, opp2)
            ctx.close('qtt-agrees-tt', [ymin, ymax], [r_tt[1], r_tt[3]], lim,
                f'optima_qtt and optima_tt disagree under a full beam (k={k})')
        if not first:
            first = {'k': k, 'optima_qtt': res, 'inner_qtt_result': rq,
                'qtt_ranks': zinf.r, 'qtt_deviation': dq}
    Y, inf = Y0_, inf0_
    if len(ctx.samples) < 3:
        ctx.sample({'case': case, 'shape': n, 'ranks': inf.r, 'q': q,
            'dense_min_max': [inf.tmin, inf.tmax], 'observed': first})
    if N >= 4 and inf.tmax > inf.tmin and judged_exact:
        ctx.nontrivial(['qtt', fam, n, inf.r, q])


# ---- functional variant ---------------------------------------------------------------

def mode_max(c):
    """Lower bound (tight) of max |sum_j c_j T_j(x)| on [-1, 1]."""
    c = np.asarray(c, dtype=float)
    cand = [-1., 1.]
    if len(c) > 2 and np.any(c[2:] != 0):
        dc = Ch.chebder(c)
        dc = np.trim_zeros(dc, 'b')
        if len(dc) > 1:
            rts = Ch.chebroots(dc)
            cand += [float(np.clip(z.real, -1, 1)) for z in np.atleast_1d(rts)]
    xs = np.concatenate([np.array(cand), np.linspace(-1, 1, 2001)])
    return float(np.max(np.abs(Ch.chebval(xs.astype(LD), c.astype(LD)))))


def func_value(x, A):
    v = LD(1)
    for xk, G in zip(x, A):
        v = v * Ch.chebval(LD(xk), np.asarray(G[0, :, 0], dtype=LD))
    return float(abs(v))


def case_func(case, ctx, teneva, rng):
    fam = case['family']
    d = int(rng.integers(2, 6))
    n = [int(rng.integers(2, 7)) for _ in range(d)]
    if fam == 'mode1':
        for j in rng.choice(d, size=int(rng.integers(1, d + 1)),
                replace=False):
            n[int(j)] = 1
    elif fam == 'n2':
        # linear first mode with a root inside: with k >= 3 the zero of the
        # interpolant is kept as a candidate (identically zero continuation)
        n[0] = 2
    A = gen.cores(rng, n, [1] * (d + 1), 'normal')
    if fam == 'int':
        A = [rng.integers(-3, 4, size=G.shape).astype(float) for G in A]
    elif fam == 'decay':
        for G in A:
            G *= (0.5 ** np.arange(G.shape[1]))[None, :, None]
    elif fam == 'constmode':
        for j in rng.choice(d, size=int(rng.integers(1, d + 1)),
                replace=False):
            A[int(j)][0, 1:, 0] = 0.
    elif fam == 'trail0':
        for G in A:
            G[0, int(rng.integers(1, G.shape[1] + 1)):, 0] = 0.
    elif fam == 'lead0':
        for G in A:
            if rng.random() < 0.7:
                G[0, 0, 0] = 0.
    elif fam == 'n2':
        A[0][0, :, 0] = [float(np.round(rng.uniform(-1, 1), 2)),
            float(np.round(rng.uniform(1, 3), 2))]
    k = int(rng.integers(1, 6)) if fam != 'n2' else int(rng.integers(3, 6))
    k_loc = None if rng.random() < 0.6 else int(rng.integers(1, 4))
    best = float(np.prod([mode_max(G[0, :, 0]) for G in A]))
    m = [2 * (x - 1) for x in n]
    # + evaluation of f(x*) and of the reference (longdouble Clenshaw, results
    # rounded to double): C (sum n + d) 2^-52
    rtol = min(1e-6, sum(100. * mk * mk * (1 + np.sqrt(2.)) ** mk * EPS
        for mk in m) + C * (sum(n) + d) * EPS)
    A0 = [G.copy() for G in A]
    out = {}
    for ret_all in (False, True):
        try:
            X = teneva.optima_func_tt_beam(A, k=k, k_loc=k_loc,
                ret_all=ret_all)
        except ValueError as ex:
            # no rejection is documented for a rank-1 coefficient tensor: a
            # raise is a violation (repaired defect: a kept candidate with
            # partial value exactly 0, or a constant mode polynomial, made
            # np.polyder return an empty array which polyroots refuses)
            tb = traceback.extract_tb(ex.__traceback__)
            ctx.viol('func-raises', f'optima_func_tt_beam raised ValueError('
                f'{ex}) in {tb[-1].name if tb else "?"} on a rank-1 '
                f'coefficient tensor (n={n}, k={k}, k_loc={k_loc})',
                cores=[G[0, :, 0] for G in A],
                where=[f'{f.name}:{f.lineno}' for f in tb][-4:])
            return
        ctx.held('func-raises')
        if not ret_all:
            ok = isinstance(X, np.ndarray) and X.shape == (d,) and \
                np.issubdtype(X.dtype, np.floating) and \
                bool(np.all(np.abs(X) <= 1))
            if not ctx.check('func-point', ok, 'optima_func_tt_beam: result '
                    'is not a float point of [-1, 1]^d', result=X, n=n, k=k):
                return
            x = X
        else:
            ok = isinstance(X, np.ndarray) and X.ndim == 2 and \
                X.shape[1] == d and 1 <= X.shape[0] <= k and \
                bool(np.all(np.abs(X) <= 1))
            if not ctx.check('func-all', ok, 'optima_func_tt_beam(ret_all): '
                    'result is not an array [m <= k, d] of points of '
                    '[-1, 1]^d', result=X, n=n, k=k):
                return
            x = X[0]
        val = func_value(x, A)
        out['all' if ret_all else 'one'] = [x, val]
        ctx.check('func-max', val >= best * (1 - rtol) - 1e-300,
            lambda: f'optima_func_tt_beam(k={k}, k_loc={k_loc}, ret_all='
            f'{ret_all}): |f(x*)| = {val!r} < max |f| = {best!r} (rel. gap '
            f'{(best - val) / best if best else 0:.3g} > {rtol:.3g})',
            x=x, n=n, cores=[G[0, :, 0] for G in A])
        if best > 0:
            ctx.margins['func-max'] = max(ctx.margins.get('func-max', 0.),
                float((best - val) / best / rtol))
    # the same rank-1 tensor stored with TT-ranks above 1 (w1 f + w2 f as
    # block cores, in a random gauge): rank 1 is a property of the tensor,
    # not of the list of cores
    if best > 0 and d >= 2:
        q = int(rng.integers(2, 4))
        w = rng.uniform(0.5, 2., size=q) * rng.choice([-1., 1.], size=q)
        if abs(w.sum()) < 0.3:
            w[0] += 1.
        R_ = []
        for j, G in enumerate(A):
            H = np.zeros((1 if j == 0 else q, G.shape[1],
                1 if j == d - 1 else q))
            for t in range(q):
                H[0 if j == 0 else t, :, 0 if j == d - 1 else t] = \
                    G[0, :, 0] * (w[t] if j == 0 else 1.)
            R_.append(H)
        gauged = rng.random() < 0.6
        if gauged:
            for j in range(1, d):
                Mg = rng.normal(size=(q, q)) + 2 * np.eye(q)
                R_[j - 1] = np.einsum('aib,bc->aic', R_[j - 1], Mg)
                R_[j] = np.einsum('ab,bic->aic', np.linalg.inv(Mg), R_[j])
        try:
            xr = teneva.optima_func_tt_beam(R_, k=k, k_loc=k_loc)
        except ValueError as ex:
            ctx.viol('func-raises', 'optima_func_tt_beam raised ValueError('
                f'{ex}) on a rank-1 tensor stored with TT-ranks {q}')
            xr = None
        if xr is not None and ctx.check('func-point', isinstance(xr,
                np.ndarray) and xr.shape == (d,) and bool(np.all(np.abs(xr)
                <= 1)), 'optima_func_tt_beam (redundant ranks): result is '
                'not a point of [-1, 1]^d', result=xr):
            valr = func_value(xr, A)
            # known finding (mechanism): a mode whose LEADING coefficient is
            # exactly 0 in the rank-1 factor carries it at rounding level
            # (1e-16 relative) in the gauged block cores; the routine feeds
            # the full-degree polynomial to the companion-matrix root finder,
            # whose roots are then off by ~1e-3 (value ~1e-5 below the max)
            # (or come out complex and are dropped: the kept candidate loses
            # its best continuation).  The routine's own orthogonalize(A, 0)
            # mixes the blocks of every mode after the first, gauged or not;
            # the first mode keeps its exact zeros (0 * R = 0, trimmed)
            noisy_lead = any(G.shape[1] >= 3 and G[0, -1, 0] == 0
                for G in A[1:])
            ctx.check('func-max-redundant', valr >= best * (1 - 10 * rtol -
                1e-9) - 1e-300, kf='func-leading-coefficient-at-rounding-level'
                if noisy_lead else None, msg=lambda: f'optima_func_tt_beam(k={k}, '
                f'k_loc={k_loc}) on a rank-1 coefficient tensor stored with '
                f'TT-ranks {q}: |f(x*)| = {valr!r} < max |f| = {best!r}',
                x=xr, n=n)
    if not all(np.array_equal(G, H) for G, H in zip(A, A0)):
        ctx.event('func-argument-changed')      # C09's claim, telemetry here
    if len(ctx.samples) < 3:
        ctx.sample({'case': case, 'coefficients': [G[0, :, 0] for G in A],
            'k': k, 'k_loc': k_loc, 'returned': out,
            'reference_max_modulus': best, 'relative_tolerance': rtol})
    if best > 0:
        ctx.nontrivial(['func', fam, n, k, k_loc])
