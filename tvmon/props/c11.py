"""C11 — degenerate but valid inputs yield well-formed finite tensors, never NaN.

Well-formedness contract (list of 3-D float cores, boundary ranks 1, matching
neighbour ranks, expected mode sizes, finite entries, accepted by the
library's own validator teneva.show) on every TT returned by the
transformations, decompositions and fitting routines, driven by the cross
product {degenerate input families} x {routines} x {flags}; scalars (norm,
sum, mean, scalar product, effective rank) must be finite and an undefined
relative accuracy must be the sentinel -1.  np.empty is poisoned with NaN
throughout (a read of an unwritten buffer becomes visible).
"""
import contextlib
import io
import itertools

import numpy as np

from tvmon import gen, ref, sanit

PID = 'C11'
LEVEL = 'exploration'
RULE = ('cross product of degenerate families {exact zero via const / mul by 0 '
    '/ one zero core / Y - Y; rank 1; rank-deficient; over-ranked; d = 2; mode '
    'size 1 first / middle / last; all modes 1; constant / zero data; repeated '
    'samples} x routines {truncate, orthogonalize, svd, svd_matrix, tt_to_qtt / '
    'qtt_to_tt, add_many, cross, als (constant rank and adaptive), als_func, '
    'anova (orders 1, 2; noise 0 and > 0), anova_func, func_int, func_gets} x '
    'all mode / flag combinations, under NaN poison of np.empty; non-trivial = '
    'distinct (family, routine, flags, shape class) triples')
REQUIRED = {'truncate': 400, 'orthogonalize': 300, 'svd': 100, 'svd_matrix': 20,
    'qtt': 60, 'add_many': 100, 'cross': 100, 'als': 60, 'als-adaptive': 20,
    'als_func': 30, 'anova': 60, 'anova_func': 20, 'cheb': 100, 'scalars': 200,
    'accuracy': 200, 'show': 200}
REQUIRED_EVENTS = {'family:zero-const': 5, 'family:zero-mul': 5,
    'family:zero-core': 5, 'family:zero-diff': 5, 'family:rank1': 5,
    'family:deficient': 5, 'family:overrank': 5, 'family:d2': 5,
    'family:mode1-first': 5, 'family:mode1-middle': 5, 'family:mode1-last': 5,
    'family:all-modes-1': 5}
ASSUMPTIONS = ['accuracy_on_data against all-zero reference data is recorded, '
    'not judged (its only documented sentinel is for missing data)',
    'tt_to_qtt on mode size 1 (2^0, q = 0) is outside its documented domain '
    '(q >= 1): rejection or a well-formed result are both accepted']
COVER = ['svd.matrix_svd', 'svd.matrix_skeleton', 'transformation.truncate', 'act_two.accuracy', 'act_one.norm', 'anova.ANOVA.build', 'anova.ANOVA.cores', 'anova_func.ANOVA_func.cores', 'core.core_stab', 'core.core_tt_to_qtt', 'vis.show']
SHARDS = {'quick': 12, 'thorough': 16}

FAMILIES = ['zero-const', 'zero-mul', 'zero-core', 'zero-diff', 'rank1',
    'deficient', 'overrank', 'd2', 'mode1-first', 'mode1-middle', 'mode1-last',
    'all-modes-1', 'generic']
ROUTINES = ['truncate', 'orthogonalize', 'svd', 'qtt', 'add_many', 'cross',
    'als', 'als_func', 'anova', 'anova_func', 'cheb', 'svd_matrix']


def gen_cases(seed, tier):
    rng = np.random.default_rng([seed, 111])
    reps = 8 if tier == 'quick' else 150
    out = []
    for rep in range(reps):
        for fam in FAMILIES:
            for rt in ROUTINES:
                out.append({'family': fam, 'routine': rt,
                    'seed': int(rng.integers(1 << 62))})
        for j in range(8):
            out.append({'family': 'generic', 'routine': 'extreme-scale',
                'seed': int(rng.integers(1 << 62))})
    return out


def make_family(rng, fam, pow2=False):
    import teneva
    def sizes(d):
        if pow2:
            return [int(rng.choice([2, 4])) for _ in range(d)]
        return [int(rng.integers(2, 5)) for _ in range(d)]
    d = int(rng.integers(2, 5))
    n = sizes(d)
    if fam == 'd2':
        d, n = 2, sizes(2)
    if fam.startswith('mode1') and not pow2:
        d = max(d, 3)
        n = sizes(d)
        n[{'mode1-first': 0, 'mode1-middle': d // 2, 'mode1-last': d - 1}[fam]] = 1
    if fam == 'all-modes-1' and not pow2:
        n = [1] * d
    r = gen.rand_ranks(rng, d, 3)
    Y = gen.cores(rng, n, r, 'normal')
    if fam == 'zero-const':
        Y = teneva.const(n, 0.)
    elif fam == 'zero-mul':
        Y = teneva.mul(Y, 0)
    elif fam == 'zero-core':
        Y[int(rng.integers(d))][...] = 0.
    elif fam == 'zero-diff':
        Y = teneva.sub(Y, Y)
    elif fam == 'rank1':
        Y = gen.cores(rng, n, [1] * (d + 1), 'normal')
    elif fam == 'deficient':
        Y = gen.cores(rng, n, [1] + [3] * (d - 1) + [1], 'normal')
        for G in Y[:-1]:
            G[:, :, 2] = G[:, :, 0]
            if rng.random() < 0.5:
                G[:, :, 1] = 0.
    elif fam == 'overrank':
        Y = gen.cores(rng, n, [1] + [int(rng.integers(5, 9))
            for _ in range(d - 1)] + [1], 'normal')
    return Y, n


def wf(ctx, mon, Z, n, what, flags=None):
    import teneva
    why = ref.wellformed(Z, n)
    ok = ctx.check(mon, why is None, f'{what}: result is not a well-formed '
        f'finite tensor: {why}', flags=flags, shape=n)
    if ok:
        buf = io.StringIO()
        try:
            with contextlib.redirect_stdout(buf):
                teneva.show(Z)
            ctx.held('show')
        except Exception as ex:
            ctx.viol('show', f'{what}: teneva.show rejects the result: '
                f'{type(ex).__name__}: {ex}')
    return ok


def scalars(ctx, Y, what):
    import teneva
    vals = {'norm': teneva.norm(Y), 'sum': teneva.sum(Y), 'mean': teneva.mean(Y),
        'mul_scalar': teneva.mul_scalar(Y, Y), 'erank': teneva.erank(Y)}
    v, p = teneva.norm(Y, use_stab=True)
    vals['norm-stab-v'], vals['norm-stab-p'] = v, p
    v, p = teneva.mul_scalar(Y, Y, use_stab=True)
    vals['mul_scalar-stab-v'], vals['mul_scalar-stab-p'] = v, p
    bad = {k: x for k, x in vals.items() if not np.isfinite(x)}
    ctx.check('scalars', not bad, f'{what}: non-finite scalars {bad}')


def accuracy_ok(ctx, Y1, Y2, what):
    import teneva
    a = teneva.accuracy(Y1, Y2)
    ctx.check('accuracy', np.isfinite(a) and (a >= 0 or a == -1),
        f'{what}: accuracy returned {a!r} (must be finite >= 0 or the '
        'sentinel -1)')
    return a


def r_truncate(ctx, rng, Y, n, fam):
    import teneva
    for eigh, stab, orth, cap in itertools.product([True, False], [False, True],
            [True, False], [1e12, 1]):
        e = float(rng.choice([1e-10, 1e-2]))
        Z = teneva.truncate(Y, e, cap, orth, stab, eigh)
        flags = dict(e=e, r=cap, orth=orth, use_stab=stab, is_eigh=eigh)
        if wf(ctx, 'truncate', Z, n, f'truncate[{fam}]', flags):
            ctx.check('truncate', all(q <= max(1, int(min(cap, 1e9)))
                for q in ref.ranks_of(Z)), f'truncate[{fam}] rank cap',
                flags=flags)
        ctx.nontrivial(['truncate', fam, eigh, stab, orth, cap == 1, len(n)])
    Z = teneva.truncate(Y, 1e-8)
    scalars(ctx, Z, f'truncate[{fam}] result')
    accuracy_ok(ctx, Z, Y, f'accuracy(truncate(Y), Y) [{fam}]')


def r_orth(ctx, rng, Y, n, fam):
    import teneva
    d = len(n)
    for k in sorted({0, d // 2, d - 1}):
        for stab in (False, True):
            res = teneva.orthogonalize(Y, k, stab)
            Z = res[0] if stab else res
            if stab:
                ctx.check('orthogonalize', isinstance(res[1], (int, np.integer)),
                    f'orthogonalize[{fam}] exponent {res[1]!r}')
            wf(ctx, 'orthogonalize', Z, n, f'orthogonalize[{fam}](k={k}, '
                f'use_stab={stab})')
            ctx.nontrivial(['orthogonalize', fam, k == 0, k == d - 1, stab, d])
    scalars(ctx, Y, f'input [{fam}]')
    # the same degenerate family spread over >= 64 binary / 32 quaternary
    # modes: the element count does not fit into an int64
    dd, nn = (int(rng.integers(64, 70)), 2) if rng.random() < 0.6 else (32, 4)
    if fam.startswith('zero'):
        Yb = [np.zeros((1, nn, 1)) for _ in range(dd)]
    elif fam == 'rank1':
        Yb = [rng.uniform(0.5, 1.5, size=(1, nn, 1)) for _ in range(dd)]
    else:
        rb = [1] + [2] * (dd - 1) + [1]
        Yb = [rng.uniform(0.2, 0.8, size=(rb[k], nn, rb[k + 1])) / 1.5
            for k in range(dd)]
    scalars(ctx, Yb, f'{dd} modes of size {nn} [{fam}]')
    ctx.event('element-count-above-int64')
    accuracy_ok(ctx, Y, Y, f'accuracy(Y, Y) [{fam}]')
    X = gen.cores(rng, n, gen.rand_ranks(rng, d, 2), 'normal')
    a = accuracy_ok(ctx, X, Y, f'accuracy(X, Y) [{fam}]')
    if fam in ('zero-const', 'zero-mul', 'zero-core'):   # exactly zero cores
        ctx.check('accuracy', a == -1, f'accuracy(X, zero tensor) = {a!r}, '
            'expected the sentinel -1 (relative accuracy undefined)')


def r_svd(ctx, rng, Y, n, fam):
    import teneva
    A = np.asarray(ref.dense_ld(Y), dtype=float)
    for e, cap in [(1e-10, 1e12), (1e-2, 2), (1e-10, 1)]:
        Z = teneva.svd(A, e, cap)
        wf(ctx, 'svd', Z, n, f'svd[{fam}](e={e}, r={cap})')
        ctx.nontrivial(['svd', fam, e, cap, len(n)])
    if fam == 'generic':
        for B in (np.zeros(n), np.ones(n), np.full(n, -3.5)):
            wf(ctx, 'svd', teneva.svd(B, 1e-10), n, 'svd of a constant array')


def r_svd_matrix(ctx, rng, Y, n, fam):
    import teneva
    q = int(rng.integers(1, 5))
    N = 2 ** q
    mats = {'zero': np.zeros((N, N)), 'ones': np.ones((N, N)),
        'identity': np.eye(N), 'rank1': np.outer(rng.normal(size=N),
        rng.normal(size=N)), 'unit': np.eye(N)[:, [0]] @ np.eye(N)[[N - 1], :]}
    for name, M in mats.items():
        for e, cap in [(1e-10, 1e12), (1e-2, 1)]:
            Z = teneva.svd_matrix(M, e, cap)
            if wf(ctx, 'svd_matrix', Z, [4] * q, f'svd_matrix[{name}]'):
                F = teneva.full_matrix(Z)
                ctx.check('svd_matrix', np.all(np.isfinite(F)),
                    f'full_matrix(svd_matrix[{name}]) not finite')
        ctx.nontrivial(['svd_matrix', name, q])


def r_qtt(ctx, rng, fam, seed):
    import teneva
    Y, n = make_family(rng, fam, pow2=True)
    for e, cap in [(1e-12, 100), (0., 1e12), (1e-2, 1), (1e-3, 2)]:
        Z = teneva.tt_to_qtt(Y, e, cap)
        qs = [int(np.log2(k)) for k in n]
        if wf(ctx, 'qtt', Z, [2] * sum(qs), f'tt_to_qtt[{fam}](e={e}, r={cap})'):
            if len(set(qs)) == 1:
                B = teneva.qtt_to_tt(Z, qs[0])
                wf(ctx, 'qtt', B, n, f'qtt_to_tt(tt_to_qtt[{fam}])')
        ctx.nontrivial(['qtt', fam, e, cap, len(n)])


def r_add_many(ctx, rng, Y, n, fam):
    import teneva
    d = len(n)
    X = gen.cores(rng, n, gen.rand_ranks(rng, d, 2), 'normal')
    lists = {'Y+Y': [Y, Y], 'X-X': [X, teneva.mul(X, -1.)],
        'X+X-2X': [X, X, teneva.mul(X, -2.)], 'Y+0': [Y, 0.],
        'Y+X-X': [Y, X, teneva.mul(X, -1)], '0+0+Y': [0, 0., Y]}
    for name, L in lists.items():
        for tf in (1, 15):
            Z = teneva.add_many(L, 1e-10, 1e12, tf)
            wf(ctx, 'add_many', Z, n, f'add_many[{fam}: {name}, '
                f'trunc_freq={tf}]')
            ctx.nontrivial(['add_many', fam, name, tf, d])
    scalars(ctx, teneva.add_many([X, teneva.mul(X, -1.)]),
        'add_many cancelling to zero')


def r_cross(ctx, rng, Y, n, fam):
    import teneva
    A = np.asarray(ref.dense_ld(Y), dtype=float)
    d = len(n)
    delta = np.zeros(n)
    delta[tuple(int(rng.integers(k)) for k in n)] = 2.5
    objs = {'family-tensor': A, 'zero': np.zeros(n), 'constant': np.full(n, 3.),
        'delta': delta}
    # values in the subnormal range (an un-normalised Boltzmann weight, the
    # far tail of a Gaussian): finite input, finite output
    amax = float(np.abs(A).max()) or 1.
    objs['subnormal'] = A / amax * float(10.0 ** rng.uniform(-322, -309))
    tail = np.zeros(n)
    tail[...] = 10.0 ** rng.uniform(-318, -310)
    tail[tuple(int(rng.integers(k)) for k in n)] = 1.
    objs['subnormal-with-peak'] = tail
    for name, T in objs.items():
        for (dmin, dmax), use_cache in itertools.product([(0, 0), (1, 1),
                (0, 2), (2, 2), (2, 3), (3, 3)], [False, True]):
            Y0 = gen.cores(rng, n, [1] + [int(rng.integers(1, 3))] * (d - 1)
                + [1], 'normal')
            info = {}
            Z = teneva.cross(lambda I, T=T: T[tuple(np.asarray(I).T)], Y0,
                nswp=2, dr_min=dmin, dr_max=dmax, info=info,
                cache={} if use_cache else None)
            ok = wf(ctx, 'cross', Z, n, f'cross[{fam}: {name} objective, '
                f'dr=({dmin},{dmax}), cache={use_cache}]')
            if ok:
                bad = {k: v for k, v in info.items() if isinstance(v, float)
                    and np.isnan(v)}
                ctx.check('cross', not bad, f'cross[{name}] info has NaN: {bad}')
            ctx.nontrivial(['cross', fam, name, dmin, dmax, use_cache, d])


def training(rng, n, kind):
    d = len(n)
    m = int(rng.integers(max(n), 40))
    I = np.stack([rng.integers(0, k, size=m) for k in n], axis=1)
    for k, nk in enumerate(n):
        I[rng.permutation(m)[:nk], k] = np.arange(nk)
    if kind == 'repeated':
        I[m // 2:] = I[:m - m // 2][:len(I[m // 2:])]
        for k, nk in enumerate(n):
            I[rng.permutation(m)[:nk], k] = np.arange(nk)
    y = {'zero': np.zeros(m), 'constant': np.full(m, 2.5)}.get(kind)
    if y is None:
        y = rng.normal(size=m)
        if kind == 'repeated':
            y[m // 2:] = y[:m - m // 2][:len(y[m // 2:])]
    return I, y


def r_als(ctx, rng, Y, n, fam):
    import teneva
    d = len(n)
    for kind in ('zero', 'constant', 'repeated', 'random'):
        I, y = training(rng, n, kind)
        lamb = float(rng.choice([1e-3, 0.0, 1.]))
        Z = teneva.als(I, y, Y, nswp=2, e=None, lamb=lamb, info={})
        wf(ctx, 'als', Z, n, f'als[{fam} start, {kind} data, lamb={lamb}]')
        ctx.nontrivial(['als', fam, kind, d])
        if d >= 3:
            rcap = max(max(ref.ranks_of(Y)), 2)
            Za = teneva.als(I, y, Y, nswp=2, e=None, r=rcap, lamb=1e-3,
                info={})
            wf(ctx, 'als-adaptive', Za, n, f'als(r={rcap})[{fam} start, '
                f'{kind} data]')
            ctx.nontrivial(['als-adaptive', fam, kind, d])


def r_als_func(ctx, rng, fam):
    import teneva
    d = int(rng.integers(2, 4))
    nm = int(rng.integers(2, 5))
    r = {'rank1': 1, 'overrank': 5}.get(fam, 2)
    A0 = gen.cores(rng, [nm] * d, [1] + [r] * (d - 1) + [1], 'normal')
    if fam.startswith('zero'):
        for G in A0:
            G[...] = 0.
    m = int(rng.integers(5, 40))
    X = rng.uniform(-1, 1, size=(m, d))
    for kind in ('zero', 'constant', 'repeated', 'random'):
        y = {'zero': np.zeros(m), 'constant': np.full(m, -1.5)}.get(kind)
        Xk = X.copy()
        if y is None:
            y = rng.normal(size=m)
        if kind == 'repeated':
            Xk[:] = X[0]
        Z = teneva.als_func(Xk, y, A0, -1., 1., 2, None, {}, lamb=1e-3,
            thr_pow=0.)
        wf(ctx, 'als_func', Z, [nm] * d, f'als_func[{fam} start, {kind} data]')
        ctx.nontrivial(['als_func', fam, kind, d])


def r_anova(ctx, rng, Y, n, fam):
    import teneva
    d = len(n)
    for kind in ('zero', 'constant', 'repeated', 'random', 'single-point',
            'gaps'):
        I, y = training(rng, n, 'random' if kind in ('single-point', 'gaps')
            else kind)
        nn = n
        if kind == 'single-point':      # every sample at one multi-index
            I[:] = I[int(rng.integers(len(I)))]
            nn = [1] * d
        elif kind == 'gaps':            # an index below the maximum never sampled
            k = int(np.argmax(n))
            if n[k] >= 3:
                gap = int(rng.integers(0, n[k] - 1))
                keep = I[:, k] != gap
                I, y = I[keep], y[keep]
                nn = [len(np.unique(I[:, j])) for j in range(d)]
        n_save, n = n, nn
        if fam not in ('generic', 'all-modes-1') and kind == 'random':
            y = np.asarray(ref.dense_ld(Y), dtype=float)[tuple(I.T)]
        for order, noise, r in [(1, 0., 2), (1, 1e-10, 3), (2, 0., 3),
                (2, 1e-10, 2)]:
            Z = teneva.anova(I, y, r, order, noise, seed=int(rng.integers(1 << 30)))
            wf(ctx, 'anova', Z, n, f'anova[{fam}, {kind} data, order={order}, '
                f'noise={noise}, r={r}]')
            ctx.nontrivial(['anova', fam, kind, order, noise > 0, d])
        n = n_save


def r_anova_func(ctx, rng, fam):
    import teneva
    d = int(rng.integers(2, 4))
    nm = int(rng.integers(2, 5))
    m = int(rng.integers(5, 40))
    X = rng.uniform(-1, 1, size=(m, d))
    a, b = [(-1., 1.), (0., 4.), (-3., -1.)][int(rng.integers(3))]
    X = a + (X + 1) * (b - a) / 2
    for kind in ('zero', 'constant', 'repeated', 'random', 'repeated-centre',
            'centre-hyperplane', 'repeated-corner', 'two-values'):
        y = {'zero': np.zeros(m), 'constant': np.full(m, 4.)}.get(kind)
        Xk = X.copy()
        if y is None:
            y = rng.normal(size=m)
        if kind == 'repeated':
            Xk[:] = X[0]
            y = np.full(m, y[0])
        elif kind == 'repeated-centre':
            Xk[:] = (a + b) / 2
            y = np.full(m, y[0])
        elif kind == 'centre-hyperplane':
            Xk[:, int(rng.integers(d))] = (a + b) / 2
        elif kind == 'repeated-corner':
            Xk[:] = [a if rng.random() < 0.5 else b for _ in range(d)]
            y = np.full(m, y[0])
        elif kind == 'two-values':
            Xk[:] = np.where(rng.random((m, d)) < 0.5, X[0], X[1])
        lamb = [1e-7, 1e-7, 1e-3, 1.][int(rng.integers(4))]
        Z = teneva.anova_func(Xk, y, nm, a, b, lamb, 1e-8)
        wf(ctx, 'anova_func', Z, [nm] * d, f'anova_func[{kind} data]')
        ctx.nontrivial(['anova_func', kind, d, nm])


def r_accuracy_ratio(ctx, rng):
    """accuracy of tensors whose norms differ by 2^1024 and more (cores with
    ordinary finite entries): the documented saturation values, the sentinel
    or the true value - never an exception, inf or NaN."""
    import teneva
    d = int(rng.integers(60, 140))
    big = [np.full((1, 2, 1), float(rng.uniform(500, 3000))) for _ in range(d)]
    one = [np.ones((1, 2, 1)) for _ in range(d)]
    zero = [np.zeros((1, 2, 1)) for _ in range(d)]
    small = [np.full((1, 2, 1), float(rng.uniform(1e-4, 1e-3)))
        for _ in range(d)]
    pairs = [('huge vs ones', big, one), ('ones vs huge', one, big),
        ('huge vs zero', big, zero), ('zero vs huge', zero, big),
        ('huge vs tiny', big, small), ('tiny vs huge', small, big),
        ('tiny vs zero', small, zero)]
    for name, Y1, Y2 in pairs:
        try:
            a = teneva.accuracy(Y1, Y2)
        except Exception as ex:
            ctx.viol('accuracy', f'accuracy({name}, d = {d}) raised '
                f'{type(ex).__name__}: {ex}')
            continue
        ctx.check('accuracy', np.isfinite(a) and (a >= 0 or a == -1),
            f'accuracy({name}, d = {d}) returned {a!r}')
    ctx.event('accuracy-norm-ratio-beyond-2^1024')


def r_unbalanced_product(ctx, rng):
    """Plain scalar product of two finite degenerate tensors (rank 1, two or
    three modes) whose scale sits in different cores: the exact value is an
    ordinary double, every partial product formed in the natural order is."""
    import teneva
    for _ in range(200):
        d = int(rng.integers(2, 4))
        n = [int(rng.integers(1, 4)) for _ in range(d)]
        e1 = [int(rng.integers(80, 151)) for _ in range(d)]
        tot = int(rng.integers(-100, 101))
        e2 = [int(rng.integers(20, 151))] + [int(rng.integers(-280, 1))
            for _ in range(d - 2)]
        e2.append(tot - sum(e1) - sum(e2))
        # the documented algorithm forms the product of the two cores of one
        # position first: those pair products, and the running values after
        # each position, are kept inside the double range
        if all(-300 <= x <= 300 for x in e2) and all(
                abs(a_ + b_) <= 290 for a_, b_ in zip(e1, e2)) and all(
                abs(sum(e1[:k + 1]) + sum(e2[:k + 1])) <= 290
                for k in range(d)):
            break
    else:
        return
    Y1 = [rng.uniform(0.5, 1.5, size=(1, k, 1)) * 10.0 ** x
        for k, x in zip(n, e1)]
    Y2 = [rng.uniform(0.5, 1.5, size=(1, k, 1)) * 10.0 ** x
        for k, x in zip(n, e2)]
    if rng.random() < 0.2:
        Y2[-1][...] = 0.
    try:
        v = teneva.mul_scalar(Y1, Y2)
    except Exception as ex:
        ctx.viol('scalars', f'mul_scalar of unbalanced rank-1 tensors raised '
            f'{type(ex).__name__}: {ex}')
        return
    ctx.check('scalars', bool(np.isfinite(v)), lambda: f'mul_scalar of two '
        f'finite rank-1 tensors (core scales 1e{e1} and 1e{e2}) returned '
        f'{v!r}; the exact value is ~1e{tot}')
    ctx.event('unbalanced-plain-scalar-product')


def r_balanced_huge_core(ctx, rng):
    """A tensor of ordinary size whose scale is distributed unevenly: one
    core carries 1e155..1e250 (its square is not a double), its neighbours
    the inverse, and a bond next to it has rank 1.  Orthogonalisation and
    rounding (which orthogonalise first) work on scaled norms and must stay
    finite and right."""
    import teneva
    d = int(rng.integers(3, 6))
    n = [int(rng.integers(2, 5)) for _ in range(d)]
    r = gen.rand_ranks(rng, d, 3)
    j = int(rng.integers(d))
    if j == 0:
        r[1] = 1
    elif j == d - 1:
        r[d - 1] = 1
    else:
        r[j + int(rng.integers(2))] = 1
    Y = gen.cores(rng, n, r, 'normal')
    s_ = int(rng.integers(155, 251))
    Y[j] = Y[j] * 10.0 ** s_
    others = [k for k in range(d) if k != j]
    if rng.random() < 0.5:
        for k in others:
            Y[k] = Y[k] * 10.0 ** (-s_ / len(others))
    else:
        k1 = others[int(rng.integers(len(others)))]
        Y[k1] = Y[k1] * 10.0 ** -s_
    what = f'core {j} scaled by 1e{s_}, ranks {r}'
    for k in range(d):
        for stab in (False, True):
            res = teneva.orthogonalize(Y, k, use_stab=stab)
            Z, p = res if stab else (res, 0)
            # (well-formed and finite is all this property claims; the VALUE
            # of the stabilised results on such inputs belongs to C16 / C04,
            # where the mechanism stab-thr-no-rescale is a recorded finding:
            # truncate(use_stab=True, is_eigh=True) returns the zero tensor
            # when the scale sits on one core and its inverse on another)
            wf(ctx, 'orthogonalize', Z, n, f'orthogonalize(k={k}, use_stab='
                f'{stab})[{what}]')
    for eigh, stab in itertools.product([True, False], [False, True]):
        Z = teneva.truncate(Y, 1e-10, 1e12, True, stab, eigh)
        wf(ctx, 'truncate', Z, n, f'truncate(use_stab={stab}, is_eigh='
            f'{eigh})[{what}]')
    ctx.event('extreme-scale:balanced-huge-core')
    ctx.nontrivial(['extreme-scale', 'balanced-huge-core', d, j])


def r_extreme(ctx, rng):
    u_ = rng.random()
    if u_ < 0.2:
        return r_accuracy_ratio(ctx, rng)
    if u_ < 0.4:
        return r_unbalanced_product(ctx, rng)
    if u_ < 0.6:
        return r_balanced_huge_core(ctx, rng)
    """Finite cores whose tensor is so small that Gram matrices underflow
    to exactly zero (norm < 1e-162, float32: < 1e-23), or so large that the
    norm is not a double (> 1e308; stabilised rounding only): the results
    must still be well-formed with finite entries."""
    import teneva
    d = int(rng.integers(3, 7))
    n = [int(rng.choice([2, 4])) for _ in range(d)]
    Y = gen.cores(rng, n, gen.rand_ranks(rng, d, 3), 'normal')
    kind = ['one-core-tiny', 'all-cores-tiny', 'float32-tiny', 'huge'][
        int(rng.integers(4))]
    if kind == 'one-core-tiny':
        Y[int(rng.integers(d))] *= 10.0 ** -int(rng.integers(165, 200))
    elif kind == 'all-cores-tiny':
        for G in Y:
            G *= 10.0 ** (-int(rng.integers(170, 280)) / d)
    elif kind == 'float32-tiny':
        Y = [(G * 10.0 ** (-int(rng.integers(26, 36)) / d)).astype(np.float32)
            for G in Y]
    else:
        for G in Y:
            G *= 10.0 ** (int(rng.integers(315, 420)) / d)
    ctx.event('extreme-scale:' + kind)
    if kind == 'huge':
        for eigh in (True, False):
            for cap in (1e12, 2):
                Z = teneva.truncate(Y, 1e-6, cap, True, True, eigh)
                wf(ctx, 'truncate', Z, n, f'truncate(use_stab=True)[norm '
                    f'beyond the double range, d={d}]', dict(is_eigh=eigh,
                    r=cap))
        Z, p = teneva.orthogonalize(Y, int(rng.integers(d)), True)
        wf(ctx, 'orthogonalize', Z, n, 'orthogonalize(use_stab=True)[norm '
            'beyond the double range]')
        v, p = teneva.norm(Y, use_stab=True)
        ctx.check('scalars', np.isfinite(v) and np.isfinite(p),
            f'norm(use_stab=True) of a huge tensor: ({v}, {p})')
    else:
        for eigh, stab, orth, cap in itertools.product([True, False],
                [False, True], [True, False], [1e12, 1]):
            Z = teneva.truncate(Y, 1e-10, cap, orth, stab, eigh)
            wf(ctx, 'truncate', Z, n, f'truncate[{kind}]', dict(r=cap,
                orth=orth, use_stab=stab, is_eigh=eigh))
        Z = teneva.add_many([Y, Y, Y])
        wf(ctx, 'add_many', Z, n, f'add_many[{kind}]')
        Z = teneva.tt_to_qtt([np.asarray(G, dtype=float) for G in Y])
        wf(ctx, 'qtt', Z, [2] * int(sum(np.log2(n))), f'tt_to_qtt[{kind}]')
        for x in (teneva.norm(Y), teneva.sum(Y), teneva.mean(Y)):
            ctx.check('scalars', np.isfinite(x), f'scalar of a tiny tensor '
                f'[{kind}]: {x}')
    ctx.nontrivial(['extreme-scale', kind, d])


def r_cheb(ctx, rng, Y, n, fam):
    import teneva
    if min(n) < 2:
        ctx.event('chebyshev-transforms-need-mode-size>=2')
        return
    A = teneva.func_int(Y)
    if wf(ctx, 'cheb', A, n, f'func_int[{fam}]'):
        Z = teneva.func_gets(A)
        wf(ctx, 'cheb', Z, n, f'func_gets(func_int[{fam}])')
        m = [k + 2 for k in n]
        wf(ctx, 'cheb', teneva.func_gets(A, m), m, f'func_gets(m)[{fam}]')
        v = teneva.func_sum(A, -1., 1.)
        ctx.check('cheb', np.isfinite(v), f'func_sum[{fam}] = {v}')
    ctx.nontrivial(['cheb', fam, len(n)])


def run_case(case, ctx):
    rng = np.random.default_rng(case['seed'])
    fam, rt = case['family'], case['routine']
    ctx.event('family:' + fam)
    with sanit.Poison('nan'):
        if rt == 'qtt':
            return r_qtt(ctx, rng, fam, case['seed'])
        if rt == 'als_func':
            return r_als_func(ctx, rng, fam)
        if rt == 'anova_func':
            return r_anova_func(ctx, rng, fam)
        if rt == 'extreme-scale':
            return r_extreme(ctx, rng)
        Y, n = make_family(rng, fam)
        fn = {'truncate': r_truncate, 'orthogonalize': r_orth, 'svd': r_svd,
            'svd_matrix': r_svd_matrix, 'add_many': r_add_many,
            'cross': r_cross, 'als': r_als, 'anova': r_anova,
            'cheb': r_cheb}[rt]
        fn(ctx, rng, Y, n, fam)
        if len(ctx.samples) < 3:
            ctx.sample({'family': fam, 'routine': rt, 'shape': n,
                'ranks': ref.ranks_of(Y), 'max_abs_entry': float(max(
                np.abs(G).max() for G in Y))})
