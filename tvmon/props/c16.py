"""C16 - stabilised arithmetic stays finite and correct where plain floats overflow.

Oracle: an independent contraction in (longdouble mantissa, Python-int
exponent) arithmetic.  Every core is renormalised by a power of two before it
is used and the running product after every core, so neither the cores' scales
nor the number of dimensions can over/underflow the reference.

Tolerance model (first-order running error analysis of a chain product).  The
scalar product is  s = L_{k-1} T_k R_{k+1}  for every k, with L the left
partial product (row vector), T_k = sum_i G1_k[:, i, :] (x) G2_k[:, i, :] the
local transfer matrix and R the right partial product.  An implementation in
double precision commits, at step k, a local error bounded componentwise by
gamma_{m_k} |L_{k-1}| Tabs_k  (Tabs_k = sum_i |G1_k| (x) |G2_k|,
m_k = n_k + r1 q1 + 2 operations per entry); that error reaches the result
through the exact remaining product R_{k+1}.  Hence

    |fl(s) - s| <= eps * sum_k m_k |L_{k-1}| Tabs_k |R_{k+1}|  + O(eps^2),

which the reference evaluates alongside the value (`sweep`, field `bound`).
Unlike prod_k |T_k| this bound does not grow exponentially with d when the
signed product does not.  Checks use C = 10 times the bound with
eps = 2^-52 (twice the unit roundoff, so the effective safety factor is 20);
a scalar product whose bound exceeds 1e-3 of its modulus is ill-conditioned
(massive cancellation) and is not judged.  The reference itself has the same
bound with 2^-63 instead of 2^-52 (2^-11 of the tolerance).

Input domain.  The statement quantifies over per-core scales such that the
TOTAL norm is anywhere in 2^+-30000 (clipped to what d finite cores can carry);
it does not promise anything for the plain functions.  The main ("core")
families keep every single core, and every product of two entries of cores at
the same position, far inside the double range (|log2 core scale| <= 140, so a
local product is within 2^+-300 and above core_stab's threshold 1e-100).
Small "edge" families leave that comfort zone on purpose - still finite double
cores, total norm still inside 2^+-30000 - and are judged by the same oracles.
A failure is tagged with a mechanism key computed from the failing INPUT (never
from a seed), so that it can be listed in KNOWN_FINDINGS.txt:

  stab-thr-no-rescale       running product <= 1e-100 is not rescaled: mantissa
                            not moderate, then underflow to (0, 0)
  stab-pair-product-range   a product of two core entries over/underflows
                            before the running product is rescaled
  accuracy-block-underflow  accuracy(): the difference tensor keeps the blocks
                            <Y1,Y1>, <Y1,Y2>, <Y2,Y2> in one double matrix; a
                            block 2^-960 of the largest is flushed although it
                            matters in the end

TVMON_C16_EDGE=0 does not drive inputs that satisfy one of these input
predicates (development aid for the mutation self-test; the default is on).
"""
import os

import numpy as np

from tvmon import ref
from tvmon.ref import LD, EPS

PID = 'C16'
LEVEL = 'exploration'
RULE = ('TT-tensors with d in {2,3,10,50,300,1000,3000 (thorough: 6000)}, ranks '
    '1..4, mode sizes 1..3, normal / non-negative / rank-1 / rand_stab cores '
    'times per-core powers of two (optionally times a mantissa in [1,2)) '
    'such that log2 of the total norm is uniform in [-30000, 30000] '
    '(clipped to 100 d); scale spread evenly, concentrated in one core, in '
    'a few cores, or up in one half and down in the other; a second tensor '
    'with an independent profile. Every case drives mul_scalar / norm / '
    'orthogonalize / accuracy / truncate with use_stab and, where the plain '
    'computation is representable, the plain functions; references in '
    '(longdouble mantissa, integer exponent) arithmetic. Non-trivial = '
    'distinct (d, ranks, profile, family) whose total norm or some partial '
    'product is outside the double range (|log2| > 1000) or whose plain '
    'result was compared with the stabilised one')
REQUIRED = {'mul_scalar-value': 60, 'mul_scalar-form': 60, 'norm-value': 60,
    'norm-form': 60, 'orth-form': 60, 'orth-orthonormal': 60,
    'orth-tensor': 60, 'orth-probe': 60, 'accuracy-value': 40,
    'accuracy-saturation': 20, 'truncate-finite': 30, 'truncate-error': 30,
    'agree-plain': 30, 'pow2-mul_scalar': 40, 'pow2-norm': 40,
    'pow2-orth': 20, 'narrow-int-exact': 20, 'truncate-absolute': 100}
REQUIRED_EVENTS = {'beyond-double-range': 40, 'd>=1000': 8,
    'acc-saturated-high': 3, 'acc-minus-one': 3,
    'truncate-rank-lowered': 10, 'truncate-d>=1000': 2,
    'truncate-norm-beyond-double-range': 10}
ASSUMPTIONS = [
    'reference: chain contraction in numpy longdouble (64-bit mantissa) with '
    'a Python-int exponent, renormalised per core; trusted',
    'tolerance of a scalar product: 10 * 2^-52 * sum_k m_k |L_{k-1}| Tabs_k '
    '|R_{k+1}| (first-order running error bound, evaluated by the '
    'reference); products with bound > 1e-3 |value| are not judged',
    'orthogonalisation / rounding: norm-wise backward error model '
    '100 * 2^-52 * sum_k r_k n_k r_{k+1} relative to the tensor norm (QR/RQ and '
    'one small matrix product per core, generic conditioning of the '
    'interfaces), measured through <Z,Y>, <Z,Z> and inner products with '
    'probes that overlap Y (Y with a window of cores replaced)',
    '"moderate" mantissa: 2^-10 <= |v| <= 2^10 unless the value is zero',
    'rounding floor of truncate: sqrt(50 (d-1) 2^-52) in eigen mode, '
    '50 (d-1) 2^-52 in SVD mode (as C02), plus the resolution of the '
    'reference distance (cancellation in longdouble)',
    'edge families (a core, or a product of two cores, outside '
    '[1e-100, 2^1000]) are judged by the same oracles; their failures carry '
    'a mechanism key']
SHARDS = {'quick': 12, 'thorough': 16}
# CPU cost (idle machine): quick ~ 250 s, thorough ~ 4100 s over the shards;
# the budgets leave room for a heavily shared machine
BUDGET_S = {'quick': 400, 'thorough': 2400}

C = 10.
EDGE = os.environ.get('TVMON_C16_EDGE', '1') != '0'
B_CORE = 100      # |log2 scale| of a core when the scale is spread
B_ONE = 140       # ... of a core that concentrates the scale
LOG2_THR = float(np.log2(1e-100))    # core_stab's documented threshold


# ---- (mantissa, exponent) arithmetic ------------------------------------------

def _nrm(v):
    """v -> (v / 2^e, e), max|v / 2^e| in [0.5, 1); zero stays (v, 0)."""
    m = np.max(np.abs(v))
    if m == 0:
        return v, 0
    e = int(np.frexp(m)[1])
    return np.ldexp(v, -e), e


def normcores(Y):
    """Cores as (longdouble array with max modulus in [0.5, 1), exponent)."""
    return [_nrm(np.asarray(G, dtype=LD)) for G in Y]


def _clip(e):
    return int(max(-16000, min(16000, e)))


def sp_ld(m, e, e0=0):
    """m 2^(e - e0) as a longdouble (saturating far outside its range)."""
    return np.ldexp(LD(m), _clip(e - e0))


def sp_log2(m, e):
    m = abs(LD(m))
    return -np.inf if m == 0 else float(np.log2(m)) + e


def sp_sqrt(m, e):
    m = LD(m)
    if e % 2:
        m, e = m * 2, e - 1
    return np.sqrt(m), e // 2


class SP:
    """Result of `sweep`: value m 2^e, absolute first-order bound b 2^e
    (b already contains the operation counts m_k, not eps)."""

    def __init__(self, m, e, b, eL, tiny, pair, pairmin, nz=None):
        self.m, self.e, self.b = LD(m), int(e), b
        self.nz = nz        # left partial product k is not identically zero
        self.pairmin = pairmin   # min_k of the same (non-zero cores)
        self.eL = eL        # log2 max-modulus of every left partial product
        self.tiny = tiny    # min_k log2 max|Lhat_{k-1} T_k|, Lhat max in [1,2)
        self.pair = pair    # max_k log2(max|G1_k| max|G2_k|) (upper bound)

    @property
    def rel(self):
        """bound / |value| (inf for a zero value with a non-zero bound)."""
        if self.m == 0:
            return 0. if self.b == 0 else np.inf
        return float(self.b / abs(self.m))

    @property
    def illc(self):
        """Tolerance C eps bound is not small against the value."""
        return not C * EPS * self.rel <= 1e-3

    @property
    def log2(self):
        return sp_log2(self.m, self.e)


def sweep(NY, NX, bound=True):
    """<Y, X> for normalised cores; see the module docstring."""
    d = len(NY)
    L = [None] * (d + 1)
    eL = [0] * (d + 1)
    v = np.ones((1, 1), dtype=LD)
    L[0] = v
    tiny, pair, pairmin = np.inf, -np.inf, np.inf
    nz = [True] * (d + 1)
    for k in range(d):
        A, ea = NY[k]
        B, eb = NX[k]
        T1 = np.tensordot(v, A, axes=(0, 0))
        v = np.tensordot(T1, B, axes=([0, 1], [0, 1]))
        v, ev = _nrm(v)
        L[k + 1] = v
        nz[k + 1] = bool(np.any(v))
        eL[k + 1] = eL[k] + ea + eb + ev
        if np.any(v):
            # previous L has max in [0.5, 1): teneva's has max in [1, 2)
            tiny = min(tiny, ea + eb + ev + 1)
        pair = max(pair, ea + eb)
        if np.any(A) and np.any(B):
            pairmin = min(pairmin, ea + eb)
    m, e = v[0, 0], eL[d]
    if not bound:
        return SP(m, e, None, eL, tiny, pair, pairmin, nz)
    w = np.ones((1, 1), dtype=LD)
    eR = 0
    tot = LD(0)
    for k in range(d - 1, -1, -1):
        A, ea = NY[k]
        B, eb = NX[k]
        T1 = np.tensordot(np.abs(L[k]), np.abs(A), axes=(0, 0))
        T2 = np.tensordot(T1, np.abs(B), axes=([0, 1], [0, 1]))
        t = np.sum(T2 * np.abs(w))
        cnt = A.shape[1] + A.shape[0] * B.shape[0] + 2
        tot += cnt * np.ldexp(t, _clip(eL[k] + ea + eb + eR - e))
        W1 = np.tensordot(A, w, axes=(2, 0))
        w = np.tensordot(W1, B, axes=([1, 2], [1, 2]))
        w, ew = _nrm(w)
        eR += ea + eb + ew
    return SP(m, e, tot, eL, tiny, pair, pairmin, nz)


def got_vs_ref(v, p, s):
    """(v 2^p - s) / 2^s.e as longdouble (p may be huge or wrong)."""
    return sp_ld(v, p, s.e) - s.m


# ---- generators ----------------------------------------------------------------

DS_QUICK = [2, 3, 10, 50, 300, 1000, 3000]
MODES = ['spread', 'one', 'few', 'updown', 'natural']
KINDS = ['normal', 'normal', 'pos', 'rank1', 'randstab']
EDGES = ['edge-spread-tiny', 'edge-one-tiny', 'edge-one-huge',
    'edge-spread-huge', 'edge-acc-profile']


def gen_cases(seed, tier):
    rng = np.random.default_rng([seed, 1601])
    quick = tier == 'quick'
    # (d, number of cases): the cost of a case is linear in d
    plan = ([(2, 40), (3, 40), (10, 50), (50, 50), (300, 30), (1000, 14),
        (3000, 10)] if quick else [(2, 1500), (3, 1500), (10, 2200),
        (50, 2200), (300, 1200), (1000, 480), (3000, 270), (6000, 80)])
    out = []
    for d, cnt in plan:
        for j in range(cnt):
            Lmax = min(30000, B_CORE * d)
            c = {'seed': int(rng.integers(1 << 62)), 'd': d,
                'mode': MODES[j % len(MODES)],
                'kind': KINDS[(j // len(MODES) + j) % len(KINDS)],
                'L': int(rng.integers(-Lmax, Lmax + 1)),
                'L2': int(rng.integers(-Lmax, Lmax + 1)),
                'mode2': MODES[int(rng.integers(len(MODES)))],
                'frac': bool(rng.random() < 0.5),
                'zero': bool(rng.random() < 0.03)}
            out.append(c)
    if EDGE:
        ne = 24 if quick else 600
        for j in range(ne):
            e = EDGES[j % len(EDGES)]
            d = [2, 3, 10, 50, 300][int(rng.integers(5))]
            if e == 'edge-acc-profile':
                d = [50, 300][int(rng.integers(2))]
            out.append({'seed': int(rng.integers(1 << 62)), 'd': d,
                'mode': e, 'kind': 'normal', 'L': 0, 'L2': 0,
                'mode2': 'natural', 'frac': False, 'zero': False})
    # the cost of a case is linear in d and shard s runs cases[s::nshards]:
    # dealing them in order of decreasing d balances the shards
    order = sorted(range(len(out)), key=lambda i: (-out[i]['d'], i))
    return [out[i] for i in order]


def split_sum(rng, total, cnt, bound):
    """cnt integers with the given sum, as equal as possible, jittered."""
    base, rem = divmod(int(total), cnt)
    e = np.full(cnt, base, dtype=int)
    e[rng.permutation(cnt)[:rem]] += 1
    if cnt >= 2:
        for _ in range(min(cnt // 2, 200)):
            i, j = rng.choice(cnt, size=2, replace=False)
            t = int(rng.integers(-5, 6))
            if abs(e[i] + t) <= bound and abs(e[j] - t) <= bound:
                e[i] += t
                e[j] -= t
    return e


def profile(rng, d, L, mode):
    """Per-core power-of-two exponents with sum L (|L| <= B_CORE d)."""
    if mode == 'natural':
        return np.zeros(d, dtype=int)
    if mode == 'spread':
        return split_sum(rng, L, d, B_CORE + 5)
    if mode in ('one', 'few'):
        m = 1 if mode == 'one' else max(1, min(d - 1, d // 10))
        if d < 2 or m >= d:
            return split_sum(rng, L, d, B_CORE + 5)
        idx = rng.permutation(d)[:m]
        big = int(np.sign(L)) * min(abs(L), B_ONE * m)
        e = np.zeros(d, dtype=int)
        e[idx] = split_sum(rng, big, m, B_ONE)
        rest = np.setdiff1d(np.arange(d), idx)
        e[rest] = split_sum(rng, L - big, len(rest), B_CORE + 5)
        return e
    if mode == 'updown':
        e = split_sum(rng, L, d, B_CORE + 5)
        room = B_ONE - int(np.max(np.abs(e)))
        a = int(rng.integers(1, max(2, room)))
        h = d // 2
        s = 1 if rng.random() < 0.5 else -1
        e[:h] += s * a
        e[d - h:] -= s * a
        return e
    raise ValueError(mode)


def base_cores(rng, n, r, kind):
    d = len(n)
    if kind == 'randstab':
        import teneva
        noise = float(10.0 ** rng.integers(-15, -1))
        return teneva.rand_stab(n, r, noise=noise,
            seed=int(rng.integers(1 << 31)))
    Y = []
    for k in range(d):
        G = rng.normal(size=(r[k], n[k], r[k + 1]))
        if kind == 'pos':
            G = np.abs(G) + 0.05
        Y.append(G)
    return Y


def scaled(rng, Y, exps, frac):
    out = []
    for G, e in zip(Y, exps):
        u = float(rng.uniform(1, 2)) if frac else 1.
        out.append(np.ldexp(G * u, int(e)))
    return out


def make_pair(rng, case):
    """(Y, X, info): two tensors of one shape with independent profiles."""
    d = case['d']
    kind = case['kind']
    n = [int(rng.integers(1, 4)) for _ in range(d)]
    if rng.random() < 0.15:
        n = [int(rng.integers(2, 4))] * d

    def ranks():
        if kind == 'rank1' or rng.random() < 0.1:
            return [1] * (d + 1)
        if rng.random() < 0.3:
            q = int(rng.integers(1, 5))
            return [1] + [q] * (d - 1) + [1]
        return [1] + [int(rng.integers(1, 5)) for _ in range(d - 1)] + [1]

    r1, r2 = ranks(), ranks()
    mode = case['mode']
    Yb = base_cores(rng, n, r1, kind)
    Xb = base_cores(rng, n, r2, 'normal' if kind == 'randstab' else kind)
    if mode.startswith('edge'):
        ey, ex = edge_profile(rng, d, mode)
    else:
        ey = profile(rng, d, case['L'], mode)
        ex = profile(rng, d, case['L2'], case['mode2'])
    Y = scaled(rng, Yb, ey, case['frac'])
    X = scaled(rng, Xb, ex, case['frac'])
    if case['zero']:
        Y[int(rng.integers(d))][...] = 0.
    return Y, X, {'n': n, 'r1': r1, 'r2': r2, 'ey': ey, 'ex': ex}


def edge_profile(rng, d, mode):
    ey = np.zeros(d, dtype=int)
    ex = np.zeros(d, dtype=int)
    if mode == 'edge-spread-tiny':
        ey[:] = -int(rng.integers(170, 300))
        ex[:] = ey if rng.random() < 0.5 else 0
    elif mode == 'edge-spread-huge':
        ey[:] = int(rng.integers(515, 600))
        ex[:] = ey if rng.random() < 0.5 else 0
    elif mode == 'edge-one-tiny':
        ey[int(rng.integers(d))] = -int(rng.integers(340, 900))
    elif mode == 'edge-one-huge':
        ey[int(rng.integers(d))] = int(rng.integers(520, 1000))
    elif mode == 'edge-acc-profile':
        # same total scale, distributed differently: the partial products of
        # Y and X drift apart by 2^(>500) although the norms are comparable
        a = int(rng.integers(12, 40))
        h = d // 2
        ey[:h] = a
        ex[d - h:] = a
    return ey, ex


# ---- helpers for the checks ------------------------------------------------------

ARITH = (OverflowError, ValueError, ZeroDivisionError, FloatingPointError,
    np.linalg.LinAlgError)


def call(ctx, mon, kf, fn, *a, **kw):
    """Run a library function; an arithmetic exception is a violation."""
    try:
        return True, fn(*a, **kw)
    except ARITH as ex:
        ctx.viol(mon, f'{fn.__name__} raised {type(ex).__name__}: {ex}',
            kf=kf, kwargs={k: v for k, v in kw.items() if np.isscalar(v)})
        return False, None


def kf_pair(*sps):
    """Mechanism key of a scalar-product-type failure, from the inputs.

    stab-pair-product-range: a product of two entries of the cores at one
        position (times the <= 2 * 16 * 3 terms added) can reach 2^1024, or
        all such products are below 2^-960 (underflow / loss of bits), before
        the rescaling of the running product sees them.
    stab-thr-no-rescale: the running product (max modulus in [1, 2)) times the
        next transfer matrix has max modulus <= 1e-100, core_stab's documented
        threshold, so it is not rescaled (necessary condition, evaluated on
        the reference's partial products).
    """
    for s in sps:
        if s.pair >= 1017 or s.pairmin <= -960:
            return 'stab-pair-product-range'
    for s in sps:
        if s.tiny <= LOG2_THR + 2:
            return 'stab-thr-no-rescale'
    return None


def kf_orth(NY):
    """Same two mechanisms for the QR chain: the carried factor R (|R| < 16)
    times the next core; the first step multiplies two raw cores."""
    es = [e for (A, e) in NY if np.any(A)]
    if not es:
        return None
    lo, hi = min(es), max(es)
    if len(NY) >= 2:
        ends = [NY[0][1] + NY[1][1], NY[-1][1] + NY[-2][1]]
        lo, hi = min(lo, *ends), max(hi, *ends)
    if hi >= 1017 or lo <= -960:
        return 'stab-pair-product-range'
    if lo <= LOG2_THR + 12:
        return 'stab-thr-no-rescale'
    return None


def is_integral(p):
    if isinstance(p, (bool, np.bool_)):
        return False
    if isinstance(p, (int, np.integer)):
        return True
    return isinstance(p, (float, np.floating)) and np.isfinite(p) \
        and float(p) == int(p)


def is_real(v):
    return isinstance(v, (int, float, np.integer, np.floating)) \
        and not isinstance(v, (bool, np.bool_))


def moderate(v):
    return 2.0 ** -10 <= abs(float(v)) <= 2.0 ** 10


def representable(s, lim=960):
    """All partial products of the plain chain stay normal doubles."""
    return max(abs(x) for x in s.eL) <= lim and s.pair <= lim \
        and s.tiny >= -lim and s.pairmin >= -lim


def canon(v, p2):
    """(frexp mantissa, exponent + p2) of v 2^p2 (p2 integer)."""
    m, e = np.frexp(float(v))
    return float(m), int(e) + int(p2)


# ---- mul_scalar / norm -----------------------------------------------------------

def check_mul_scalar(ctx, teneva, A, B, s, what):
    """mul_scalar(A, B, use_stab=True) against the reference s = <A, B>."""
    kf = kf_pair(s)
    ok, res = call(ctx, 'mul_scalar-form', kf, teneva.mul_scalar, A, B,
        use_stab=True)
    if not ok:
        return None
    if not ctx.check('mul_scalar-form', isinstance(res, tuple)
            and len(res) == 2 and is_real(res[0]) and is_integral(res[1])
            and np.isfinite(res[0]), f'{what}: mul_scalar(use_stab=True) must '
            f'return (finite float, integer), got {res!r}', kf=kf):
        return None
    v, p = float(res[0]), int(res[1])
    if s.m != 0 and not s.illc:
        ctx.check('mul_scalar-form', moderate(v), f'{what}: mantissa {v!r} is '
            f'not of moderate size (p = {p}); true value = '
            f'{float(s.m)!r} * 2^{s.e}', kf=kf)
    if s.illc:
        ctx.skip('mul_scalar-value', 'ill-conditioned-scalar-product')
        return v, p
    ctx.close('mul_scalar-value', sp_ld(v, p, s.e), s.m,
        C * EPS * s.b + 4 * EPS * abs(s.m), f'{what}: v * 2^p = {v!r} * 2^{p}'
        f' differs from the reference {float(s.m)!r} * 2^{s.e}', kf=kf)
    return v, p


def check_norm(ctx, teneva, A, s, what):
    """norm(A, use_stab=True): (v 2^p)^2 against s = <A, A>."""
    kf = kf_pair(s)
    ok, res = call(ctx, 'norm-form', kf, teneva.norm, A, use_stab=True)
    if not ok:
        return None
    if not ctx.check('norm-form', isinstance(res, tuple) and len(res) == 2
            and is_real(res[0]) and is_real(res[1]) and np.isfinite(res[0])
            and np.isfinite(res[1]) and is_integral(2 * res[1])
            and res[0] >= 0, f'{what}: norm(use_stab=True) must return '
            f'(finite float >= 0, integer or half-integer), got {res!r}',
            kf=kf):
        return None
    v, p = float(res[0]), float(res[1])
    if s.m != 0:
        ctx.check('norm-form', moderate(v), f'{what}: norm mantissa {v!r} is '
            f'not of moderate size (p = {p}); true log2 norm = '
            f'{s.log2 / 2:.3f}', kf=kf)
    ctx.close('norm-value', sp_ld(LD(v) * LD(v), int(round(2 * p)), s.e), s.m,
        C * EPS * s.b + 8 * EPS * abs(s.m), f'{what}: (v * 2^p)^2 with '
        f'(v, p) = ({v!r}, {p}) differs from <Y, Y> = {float(s.m)!r} * '
        f'2^{s.e}', kf=kf)
    return v, p


def check_agree_scalar(ctx, teneva, A, B, s, vp, is_norm):
    """Stabilised == plain when the plain chain is representable."""
    if vp is None or not representable(s) or s.illc or s.m == 0:
        return False
    v, p = vp
    if is_norm:
        plain = teneva.norm(A)
        stab = LD(v) * np.exp2(LD(p))
        tol = (C * EPS * s.rel + 8 * EPS) * abs(stab)
    else:
        plain = teneva.mul_scalar(A, B)
        stab = np.ldexp(LD(v), int(p))
        tol = 2 * C * EPS * s.rel * abs(stab) + 8 * EPS * abs(stab)
    if not (np.isfinite(plain) and abs(plain) >= 2.0 ** -1022):
        ctx.check('agree-plain', False, 'plain result is not a normal double '
            f'({plain!r}) although every partial product is inside 2^+-960')
        return True
    ctx.close('agree-plain', LD(plain), stab, tol, ('norm' if is_norm else
        'mul_scalar') + f': plain {plain!r} vs stabilised {v!r} * 2^{p}')
    return True


# ---- orthogonalize ---------------------------------------------------------------

def tau_orth(Y):
    """Norm-wise backward error model of the QR / RQ chain (see ASSUMPTIONS)."""
    return 100. * EPS * float(sum(G.shape[0] * G.shape[1] * G.shape[2]
        for G in Y))


def gram_defect(Z, k):
    """max |Gram - I| over left unfoldings of cores < k, right of cores > k,
    each divided by its tolerance 20 (rows) 2^-52; returns (worst ratio, j)."""
    worst, at = 0., -1
    for j, G in enumerate(Z):
        if j == k:
            continue
        r1, n, r2 = G.shape
        if j < k:
            M = G.reshape(r1 * n, r2)
            E = M.T @ M - np.eye(r2)
            rows = r1 * n
        else:
            M = G.reshape(r1, n * r2)
            E = M @ M.T - np.eye(r1)
            rows = n * r2
        x = float(np.max(np.abs(E))) / (20. * rows * EPS)
        if not x <= worst:      # NaN-safe
            worst, at = x, j
    return worst, at


def make_probes(rng, Y, exps, frac_ok, nwin, nrank1):
    """Tensors overlapping Y: Y with a window of 1..3 cores replaced by fresh
    random cores of the same scale; and rank-1 tensors of the same profile."""
    d = len(Y)
    out = []
    for _ in range(nwin):
        w = int(rng.integers(1, 4))
        a = int(rng.integers(0, max(1, d - w + 1)))
        P = list(Y)
        for j in range(a, min(d, a + w)):
            P[j] = np.ldexp(rng.normal(size=Y[j].shape), int(exps[j]))
        out.append(('window', a, P))
    for _ in range(nrank1):
        P = [np.ldexp(rng.normal(size=(1, G.shape[1], 1)), int(e))
            for G, e in zip(Y, exps)]
        out.append(('rank1', 0, P))
    return out


def judge_orth(ctx, Y, NY, sYY, k, res, stab, probes, mon, kf):
    """C04 contract of orthogonalize at pivot k, through the reference.

    probes: list of (NP, sPP, sYP) with sPP = <P, P>, sYP = <Y, P>."""
    n = ref.shape_of(Y)
    pre = '' if stab else 'plain '
    form = mon['form']
    if stab:
        if not ctx.check(form, isinstance(res, tuple) and len(res) == 2
                and isinstance(res[0], list) and is_integral(res[1]),
                'orthogonalize(use_stab=True) must return (list, integer), '
                f'got {type(res).__name__}', kf=kf):
            return None
        Z, p = res[0], int(res[1])
    else:
        Z, p = res, 0
    why = ref.wellformed(Z, n, finite=True)
    if not ctx.check(form, why is None, f'{pre}orthogonalize(k={k}) result '
            f'malformed: {why}', kf=kf):
        return None
    rin, rout = ref.ranks_of(Y), ref.ranks_of(Z)
    ctx.check(form, all(b <= a for a, b in zip(rin, rout)),
        f'{pre}orthogonalize increased a rank: {rin[:8]} -> {rout[:8]}')
    zero = sYY.m == 0
    pivmax = float(np.max(np.abs(Z[k])))
    if stab:
        mx = max(float(np.max(np.abs(G))) for G in Z)
        ctx.check(form, mx <= 2.0 ** 10 and (zero or pivmax >= 2.0 ** -10),
            f'orthogonalize(k={k}, use_stab=True): entries not of moderate '
            f'size: max |entry| = {mx:.3e}, pivot core max = {pivmax:.3e}, '
            f'p = {p}; true log2 norm = {sYY.log2 / 2:.2f}', kf=kf)
    worst, at = gram_defect(Z, k)
    ctx.check(mon['gram'], worst <= 1., f'{pre}orthogonalize(k={k}): core {at} '
        f'is not orthonormal: |Gram - I| = {worst:.3g} x tolerance', kf=kf)
    ctx.margins[mon['gram']] = max(ctx.margins.get(mon['gram'], 0.),
        worst if np.isfinite(worst) else 0.)
    tau = tau_orth(Y)
    if zero:
        ctx.check(mon['tensor'], pivmax == 0., f'{pre}orthogonalize of a zero '
            f'tensor: pivot core not zero (max {pivmax:.3e})')
        return Z, p
    # ||Z|| = ||pivot core|| (other cores orthonormal, judged above)
    G = np.asarray(Z[k], dtype=LD)
    fz = np.sum(G * G)
    ctx.close(mon['tensor'], sp_ld(fz, 2 * p, sYY.e), sYY.m,
        (2 * tau + 2 * C * EPS * sYY.rel) * abs(sYY.m),
        f'{pre}orthogonalize(k={k}): ||pivot core||^2 * 2^(2p) (p = {p}) '
        f'differs from ||Y||^2 = {float(sYY.m)!r} * 2^{sYY.e}', kf=kf)
    NZ = normcores(Z)
    sZY = sweep(NZ, NY, bound=False)
    ctx.close(mon['tensor'], sp_ld(sZY.m, sZY.e + p, sYY.e), sYY.m,
        (tau + 2 * C * EPS * sYY.rel) * abs(sYY.m),
        f'{pre}orthogonalize(k={k}): <Z, Y> * 2^p (p = {p}) differs from '
        f'||Y||^2, i.e. Z * 2^p is not Y', kf=kf)
    for NP, sPP, sYP in probes:
        if sPP.m == 0:
            continue
        md, ed = sp_sqrt(sYY.m * sPP.m, sYY.e + sPP.e)
        sZP = sweep(NZ, NP, bound=False)
        q1 = sp_ld(sZP.m, sZP.e + p, ed) / md
        q2 = sp_ld(sYP.m, sYP.e, ed) / md
        unc = 2 * C * 2.0 ** -63 * float(sp_ld(sYP.b, sYP.e, ed) / md)
        if not unc <= tau:
            ctx.skip(mon['probe'], 'ill-conditioned-probe-product')
            continue
        ctx.close(mon['probe'], q1, q2, tau + unc, f'{pre}orthogonalize(k={k})'
            f': <Z, P> * 2^p / (||Y|| ||P||) differs from <Y, P> / (||Y|| '
            f'||P||) = {float(q2):.6g}', kf=kf)
        if abs(q2) >= 1e-3:
            ctx.event('probe-overlap>=1e-3')
    return Z, p


def plain_norm_ok(s, lim=1900):
    """Every partial norm^2, from the left and from the right, in 2^+-lim."""
    tot = s.eL[-1]
    return all(abs(x) <= lim and abs(tot - x) <= lim for x in s.eL)


MON_STAB = {'form': 'orth-form', 'gram': 'orth-orthonormal',
    'tensor': 'orth-tensor', 'probe': 'orth-probe'}
MON_PLAIN = {'form': 'agree-plain', 'gram': 'agree-plain',
    'tensor': 'agree-plain', 'probe': 'agree-plain'}


def check_orth(ctx, teneva, rng, Y, NY, sYY, info, edge):
    d = len(Y)
    big = d >= 1000
    if d <= 3:
        pivots = list(range(d))
    else:
        pivots = sorted({0, d - 1, int(rng.integers(1, d - 1))})
        if big:
            pivots = [pivots[int(i)] for i in
                rng.choice(len(pivots), size=2, replace=False)]
    raw = make_probes(rng, Y, info['ey'], True, 1 if big else 3,
        0 if d > 10 else 2)
    probes = []
    for kind, a, P in raw:
        NP = normcores(P)
        probes.append((NP, sweep(NP, NP, bound=False), sweep(NY, NP)))
    kf = kf_orth(NY)
    out = {}
    for k in pivots:
        ok, res = call(ctx, 'orth-form', kf, teneva.orthogonalize, Y, k,
            use_stab=True)
        if not ok:
            continue
        r = judge_orth(ctx, Y, NY, sYY, k, res, True, probes, MON_STAB, kf)
        if r is not None:
            out[k] = r
    # plain orthogonalisation where every partial norm is a normal double
    if not edge and plain_norm_ok(sYY) and sYY.m != 0 \
            and max(abs(int(e)) for e in info['ey']) <= 400:
        k = pivots[int(rng.integers(len(pivots)))]
        Zp = teneva.orthogonalize(Y, k)
        judge_orth(ctx, Y, NY, sYY, k, Zp, False, probes[:1], MON_PLAIN, None)
        ctx.event('plain-orth-compared')
    return out


# ---- accuracy --------------------------------------------------------------------

def kf_accuracy(s11, s12, s22):
    """Mechanism key for accuracy(Y1, Y2) = norm(sub(Y1, Y2)) / norm(Y2).

    accuracy-block-underflow: the running product of the difference tensor
    holds the blocks <Y1,Y1>, <Y1,Y2>, <Y2,Y2> in ONE double matrix with one
    common scale; a block that is 2^-900 of the largest at some position
    underflows there although it matters (within 2^-120) in the end."""
    k = kf_pair(s11, s12, s22)
    if k:
        return k
    d = len(s11.eL) - 1
    # stab-thr-no-rescale through the block structure: the three blocks share
    # one scale, set by the largest; when that block becomes exactly zero at
    # some position (a zero core in one operand) the largest remaining block
    # may lie at or below 1e-100 = 2^-332 of the old scale and is then handed
    # on unscaled
    blocks = [s for s in (s11, s12, s22) if s.nz is not None]
    if len(blocks) == 3:
        prev = 0
        for j in range(1, d + 1):
            live = [s.eL[j] for s in blocks if s.nz[j]]
            if not live:
                break
            cur = max(live)
            if prev - cur >= 325:
                return 'stab-thr-no-rescale'
            prev = cur
    fin = [s.eL[d] if s.m != 0 else -10 ** 9 for s in (s11, s12, s22)]
    fmax = max(fin)
    for j in range(1, d):
        part = [s11.eL[j], s12.eL[j], s22.eL[j]]
        pm = max(part)
        for b in range(3):
            # (900: a spread of 2^931 was seen to lose the block - thorough
            # tier, seed 2 - once the next cores multiply it by 2^+240 while
            # the shared scale still follows the other block)
            if pm - part[b] >= 900 and fmax - fin[b] <= 120:
                return 'accuracy-block-underflow'
    return None


def check_accuracy(ctx, teneva, Y1, Y2, s11, s12, s22, what):
    """accuracy(Y1, Y2) against ||Y1 - Y2||^2 = s11 - 2 s12 + s22.

    The library evaluates the norm of the block difference tensor; its
    first-order error bound is the sum of the bounds of the four blocks
    (times <= 4 for the longer rows of the block matrices)."""
    kf = kf_accuracy(s11, s12, s22)
    if kf and not EDGE:
        ctx.event('edge-input-not-driven')
        return None
    ok, acc = call(ctx, 'accuracy-value', kf, teneva.accuracy, Y1, Y2)
    if not ok:
        return None
    if not ctx.check('accuracy-value', is_real(acc) and not np.isnan(acc),
            f'{what}: accuracy returned {acc!r}', kf=kf):
        return None
    acc = float(acc)
    E = max(s.e for s in (s11, s12, s22) if s.m != 0) if any(
        s.m != 0 for s in (s11, s12, s22)) else 0
    dd = sp_ld(s11.m, s11.e, E) - 2 * sp_ld(s12.m, s12.e, E) \
        + sp_ld(s22.m, s22.e, E)
    db = 4 * (sp_ld(s11.b, s11.e, E) + 2 * sp_ld(s12.b, s12.e, E)
        + sp_ld(s22.b, s22.e, E))
    m22, b22 = sp_ld(s22.m, s22.e, E), sp_ld(s22.b, s22.e, E)
    resolved = dd > 2 * C * EPS * db
    lrho = (float(np.log2(dd)) - float(np.log2(m22))) / 2 \
        if resolved and m22 > 0 else None
    if acc == -1:
        ctx.event('acc-minus-one')
        ctx.check('accuracy-saturation', s22.m == 0, f'{what}: accuracy = -1 '
            f'but ||Y2|| = 2^{s22.log2 / 2:.2f} is not zero', kf=kf)
        return acc
    if s22.m == 0:
        # A zero tensor is outside the quantifier (norm in 2^+-30000) and has
        # no relative distance.  -1 is the documented answer (judged above);
        # 1e299 is the other documented saturation value and a fair rendering
        # of "infinite".  Anything else is recorded, not judged.
        if acc == 1e299:
            ctx.event('acc-zero-denominator-gave-1e299')
        else:
            ctx.event('acc-zero-denominator-gave-other')
        ctx.skip('accuracy-saturation', 'zero-denominator-outside-quantifier')
        return acc
    if acc == 1e299:
        ctx.event('acc-saturated-high')
        ctx.check('accuracy-saturation', lrho is not None and lrho >= 478,
            f'{what}: saturated to 1e299 but log2 of the true relative '
            f'distance is {lrho}', kf=kf)
        return acc
    a2 = LD(acc) * LD(acc)
    tol = C * EPS * (db + a2 * 4 * b22) + 8 * EPS * a2 * m22 \
        + 2.0 ** -60 * db
    good = acc >= 0 and abs(a2 * m22 - dd) <= tol
    if acc == 0. and not good and lrho is not None and lrho <= -478:
        ctx.event('acc-saturated-low')
        ctx.held('accuracy-saturation')
        return acc
    if lrho is not None and abs(lrho) > 522 and not good:
        ctx.check('accuracy-saturation', False, f'{what}: log2 of the true '
            f'relative distance is {lrho:.1f}: expected the true value or '
            f'the documented saturation value, got {acc!r}', kf=kf)
        return acc
    if not resolved:
        ctx.event('acc-distance-below-resolution')
    ctx.check('accuracy-value', bool(good), f'{what}: accuracy = {acc!r} but '
        'the true relative distance is ' + ('2^%.3f' % lrho if lrho is not
        None else 'below the resolution') + f' (acc^2 ||Y2||^2 - ||Y1-Y2||^2'
        f' = {float(a2 * m22 - dd):.3e}, tolerance {float(tol):.3e}, in '
        f'units of 2^{E})', kf=kf)
    r = float(abs(a2 * m22 - dd) / tol) if tol > 0 else 0.
    if np.isfinite(r):
        ctx.margins['accuracy-value'] = max(
            ctx.margins.get('accuracy-value', 0.), r)
    return acc


# ---- truncate --------------------------------------------------------------------

def block_add(Y1, Y2):
    """Y1 + Y2 as a TT (own construction, block cores)."""
    d = len(Y1)
    out = []
    for k, (G1, G2) in enumerate(zip(Y1, Y2)):
        a1, n, b1 = G1.shape
        a2, _, b2 = G2.shape
        if k == 0:
            G = np.concatenate([G1, G2], axis=2)
        elif k == d - 1:
            G = np.concatenate([G1, G2], axis=0)
        else:
            G = np.zeros((a1 + a2, n, b1 + b2))
            G[:a1, :, :b1] = G1
            G[a1:, :, b1:] = G2
        out.append(G)
    return out


def judge_truncate(ctx, T, NT, sTT, Z, e, is_eigh, mons, what, kf):
    n = ref.shape_of(T)
    d = len(T)
    why = ref.wellformed(Z, n, finite=True)
    if not ctx.check(mons[0], why is None, f'{what}: result malformed or '
            f'not finite: {why}', kf=kf):
        return False
    rin, rout = ref.ranks_of(T), ref.ranks_of(Z)
    ctx.check(mons[0], all(b <= a for a, b in zip(rin, rout)),
        f'{what}: a rank increased: {rin[:8]} -> {rout[:8]}')
    if any(b < a for a, b in zip(rin, rout)):
        ctx.event('truncate-rank-lowered')
    NZ = normcores(Z)
    sZZ, sZT = sweep(NZ, NZ), sweep(NZ, NT)
    E = max(s.e for s in (sZZ, sZT, sTT))
    dd = sp_ld(sZZ.m, sZZ.e, E) - 2 * sp_ld(sZT.m, sZT.e, E) \
        + sp_ld(sTT.m, sTT.e, E)
    db = sp_ld(sZZ.b, sZZ.e, E) + 2 * sp_ld(sZT.b, sZT.e, E) \
        + sp_ld(sTT.b, sTT.e, E)
    mTT = sp_ld(sTT.m, sTT.e, E)
    unc = C * 2.0 ** -63 * db          # resolution of the reference distance
    floor = np.sqrt(50. * (d - 1) * EPS) if is_eigh else 50. * (d - 1) * EPS
    lim = (e * (1 + 1e-6) + floor) ** 2 * mTT + unc
    ctx.check(mons[1], bool(dd <= lim), f'{what}: ||Z - Y|| / ||Y|| = '
        f'{float(np.sqrt(max(dd, 0) / mTT)):.3e} > e + floor = '
        f'{e:.1e} + {floor:.2e} (reference resolution '
        f'{float(np.sqrt(unc / mTT)):.1e}); log2 ||Y|| = {sTT.log2 / 2:.1f}',
        kf=kf, ranks_in=rin[:12], ranks_out=rout[:12])
    if unc <= (e * e) * mTT:
        ctx.event('truncate-error-resolved')
    r = float(max(dd, 0) / lim) if lim > 0 else 0.
    if np.isfinite(r):
        ctx.margins[mons[1]] = max(ctx.margins.get(mons[1], 0.), r)
    return True


def check_truncate(ctx, teneva, rng, Y, NY, sYY, info, edge):
    d = len(Y)
    # input with over-large ranks: Y + eta * (Y with a window replaced)
    eta = float(10.0 ** rng.integers(-6, 0))
    if rng.random() < 0.3 or sYY.m == 0:
        W, eta = [G.copy() for G in Y], 1.
    else:
        W = make_probes(rng, Y, info['ey'], True, 1, 0)[0][2]
        W = [G.copy() for G in W]
    W[int(rng.integers(d))] *= eta
    if d >= 1000 and max(info['r1']) > 2:
        return          # rank-8 references in d >= 1000 are too slow
    T = block_add(Y, W)
    if sYY.m == 0:
        return          # zero tensors belong to C11
    e = float([1e-1, 1e-3, 1e-6, 1e-10][int(rng.integers(4))])
    is_eigh = bool(rng.random() < 0.75)
    NT = normcores(T)
    sTT = sweep(NT, NT)
    kf = kf_orth(NT)
    what = f'truncate(e={e:g}, use_stab=True, is_eigh={is_eigh})'
    ok, Z = call(ctx, 'truncate-finite', kf, teneva.truncate, T, e,
        use_stab=True, is_eigh=is_eigh)
    if ok:
        judge_truncate(ctx, T, NT, sTT, Z, e, is_eigh,
            ('truncate-finite', 'truncate-error'), what, kf)
        if d >= 1000:
            ctx.event('truncate-d>=1000')
        if abs(sTT.log2) > 2000:
            ctx.event('truncate-norm-beyond-double-range')
    # plain rounding squares the norm (Gram matrices in eigen mode, e * norm
    # against squared tails): representable means ||.||^2 inside 2^+-900
    if not edge and plain_norm_ok(sTT, 900) and d <= 300:
        try:
            Zp = teneva.truncate(T, e, is_eigh=is_eigh)
        except ARITH:
            ctx.event('plain-truncate-raised')
            ctx.skip('agree-plain', 'plain-function-raised')
            return
        judge_truncate(ctx, T, NT, sTT, Zp, e, is_eigh,
            ('agree-plain', 'agree-plain'), 'plain ' + what, None)
        ctx.event('plain-truncate-compared')


# ---- power-of-two metamorphic tests ----------------------------------------------

def check_pow2(ctx, teneva, rng, Y, X, info, base, orth_out):
    """Scaling one core of Y by 2^s shifts the exponent by s, nothing else."""
    d = len(Y)
    j = int(rng.integers(d))
    ej = int(info['ey'][j])
    lo, hi = max(-200, -120 - ej), min(200, 120 - ej)
    if lo >= hi:
        return
    s = int(rng.integers(lo, hi + 1))
    if s == 0:
        s = hi if hi != 0 else lo
    Y2 = list(Y)
    Y2[j] = np.ldexp(Y[j], s)
    vp = base.get('ms')
    if vp is not None:
        v, p = vp
        v2, p2 = teneva.mul_scalar(Y2, X, use_stab=True)
        ctx.check('pow2-mul_scalar', canon(v2, p2) == canon(v, p + s)
            if v != 0 else v2 == 0, f'core {j} * 2^{s}: mul_scalar went from '
            f'({v!r}, {p}) to ({v2!r}, {p2}); expected the same mantissa '
            f'bits and the exponent shifted by {s}')
    vp = base.get('norm')
    if vp is not None:
        v, p = vp
        v2, p2 = teneva.norm(Y2, use_stab=True)
        sh = 2 * (p2 - p - s)
        if v == 0 or v2 == 0:
            ctx.check('pow2-norm', v == v2, f'core {j} * 2^{s}: norm mantissa '
                f'{v!r} -> {v2!r}')
        elif float(sh).is_integer() and int(sh) % 2 == 0 and \
                canon(v2, int(sh) // 2) == canon(v, 0):
            ctx.held('pow2-norm')
        else:
            # floor(log2(.)) split the squared norm at another binade: the
            # square roots of v and 2v differ by one rounding
            ctx.event('pow2-norm-split-differs')
            ctx.close('pow2-norm', LD(v2) * np.exp2(LD(p2 - p - s)), LD(v),
                8 * EPS * abs(v), f'core {j} * 2^{s}: norm went from '
                f'({v!r}, {p}) to ({v2!r}, {p2}): value not multiplied by '
                f'2^{s}')
    if orth_out:
        k = sorted(orth_out)[int(rng.integers(len(orth_out)))]
        Z, p = orth_out[k]
        Z2, p2 = teneva.orthogonalize(Y2, k, use_stab=True)
        f1 = np.sqrt(np.sum(np.asarray(Z[k], dtype=LD) ** 2))
        f2 = np.sqrt(np.sum(np.asarray(Z2[k], dtype=LD) ** 2))
        if f1 == 0:
            ctx.check('pow2-orth', f2 == 0, 'zero tensor became non-zero')
        else:
            ctx.close('pow2-orth', f2 * np.exp2(LD(p2 - p - s)), f1,
                2 * tau_orth(Y) * f1, f'core {j} * 2^{s}: orthogonalize(k={k}) '
                f'went from p = {p} to p = {p2} with pivot norms {float(f1)!r}'
                f' -> {float(f2)!r}: represented norm not multiplied by 2^{s}')
            ctx.check('pow2-orth', abs(p2 - p - s) <= 1, f'core {j} * 2^{s}: '
                f'orthogonalize exponent went from {p} to {p2}')


# ---- the case --------------------------------------------------------------------

def rank_summary(r):
    r = [int(x) for x in r]
    return r if len(r) <= 12 else {'first': r[:6], 'max': max(r),
        'sum': sum(r)}


def run_case(case, ctx):
    import teneva
    rng = np.random.default_rng(case['seed'])
    d = case['d']
    mode = case['mode']
    edge = mode.startswith('edge')
    Y, X, info = make_pair(rng, case)
    NY, NX = normcores(Y), normcores(X)
    sYY, sXX, sYX = sweep(NY, NY), sweep(NX, NX), sweep(NY, NX)
    base = {}

    # scalar product, norm, agreement with the plain functions
    base['ms'] = check_mul_scalar(ctx, teneva, Y, X, sYX, '<Y, X>')
    base['norm'] = check_norm(ctx, teneva, Y, sYY, 'norm(Y)')
    nx = check_norm(ctx, teneva, X, sXX, 'norm(X)')
    if d <= 300:
        check_mul_scalar(ctx, teneva, X, Y, sYX, '<X, Y>')
    cmp1 = check_agree_scalar(ctx, teneva, Y, X, sYX, base['ms'], False)
    cmp2 = check_agree_scalar(ctx, teneva, Y, None, sYY, base['norm'], True)
    cmp3 = check_agree_scalar(ctx, teneva, X, None, sXX, nx, True)

    # orthogonalize
    orth_out = check_orth(ctx, teneva, rng, Y, NY, sYY, info, edge)

    # accuracy
    check_accuracy(ctx, teneva, Y, X, sYY, sYX, sXX, 'accuracy(Y, X)')
    if d <= 300:
        check_accuracy(ctx, teneva, X, Y, sXX, sYX, sYY, 'accuracy(X, Y)')
    accuracy_family(ctx, teneva, rng, Y, NY, sYY, info, edge)

    # truncate
    check_truncate(ctx, teneva, rng, Y, NY, sYY, info, edge)

    # periodic tensors as they are usually written down: ONE array object at
    # many positions of the list ([G]*d, [A, B]*m) - the values decide, not
    # the identity of the cores
    if not edge and d <= 300 and d % 2 == 0:
        shared_objects(ctx, teneva, rng, d)
    # outer products: an interior bond of rank 1 next to a compressible part
    if not edge and d <= 50:
        outer_truncate(ctx, teneva, rng)
    # operands of different dtypes (a float32 or integer-typed copy against
    # float64 cores): the values decide
    if not edge and 3 <= d <= 1000:
        mixed_dtypes(ctx, teneva, rng, d)

    if not edge and d <= 50 and rng.random() < 0.5:
        narrow_int_long_modes(ctx, teneva, rng)
    if not edge and d <= 300:
        unorth_truncate(ctx, teneva, rng)

    # power-of-two metamorphic tests (core families only: an edge family is
    # outside the range where every local product is exact under scaling)
    if not edge:
        check_pow2(ctx, teneva, rng, Y, X, info, base, orth_out)

    lY, lX = sYY.log2 / 2, sXX.log2 / 2
    far = max(abs(x) for x in sYY.eL + sXX.eL) > 2000
    if far:
        ctx.event('beyond-double-range')
    if d >= 1000:
        ctx.event('d>=1000')
    if far or cmp1 or cmp2 or cmp3:
        ctx.nontrivial([d, rank_summary(info['r1']), mode, case['kind'],
            case['mode2'], int(np.sign(case['L'])), bool(far)])
    ctx.sample({'d': d, 'mode': mode, 'kind': case['kind'],
        'shape_head': info['n'][:10], 'ranks_Y': rank_summary(info['r1']),
        'ranks_X': rank_summary(info['r2']),
        'core_exponents_Y_head': [int(x) for x in info['ey'][:10]],
        'log2_norm_Y_reference': lY, 'log2_norm_X_reference': lX,
        'norm_Y_returned_(v,p)': base['norm'],
        'mul_scalar_returned_(v,p)': base['ms'],
        'mul_scalar_reference_(m,e)': [float(sYX.m), sYX.e],
        'mul_scalar_rel_tolerance': C * EPS * sYX.rel,
        'orthogonalize_p': {int(k): int(v[1]) for k, v in orth_out.items()}})


def shared_objects(ctx, teneva, rng, d):
    nm = int(rng.integers(1, 4))
    ex = int(rng.integers(-60, 61))
    if rng.random() < 0.5:
        G = np.ldexp(rng.normal(size=(1, nm, 1)), ex)
        Ysh = [G] * d
        ey = [ex] * d
    else:
        q = int(rng.integers(1, 4))
        A = np.ldexp(rng.normal(size=(1, nm, q)), ex)
        Bc = rng.normal(size=(q, nm, 1))
        Ysh = [A, Bc] * (d // 2)
        ey = [ex, 0] * (d // 2)
    n = [nm] * d
    delta = float(10.0 ** rng.integers(-3, 0))
    Xd = [H + delta * np.ldexp(rng.normal(size=H.shape), int(e))
        for H, e in zip(Ysh, ey)]            # distinct arrays, close to Ysh
    snap = [H.copy() for H in Ysh[:2]]
    NYs, NXd = normcores(Ysh), normcores(Xd)
    s11, s22, s12 = sweep(NYs, NYs), sweep(NXd, NXd), sweep(NYs, NXd)
    info = {'n': n, 'r1': ref.ranks_of(Ysh), 'r2': ref.ranks_of(Xd),
        'ey': ey, 'ex': ey}
    check_mul_scalar(ctx, teneva, Ysh, Xd, s12, '<Y, X>, Y of shared cores')
    check_norm(ctx, teneva, Ysh, s11, 'norm(Y), Y of shared cores')
    check_accuracy(ctx, teneva, Ysh, Xd, s11, s12, s22,
        'accuracy(Y, X), Y of shared cores')
    check_accuracy(ctx, teneva, Xd, Ysh, s22, s12, s11,
        'accuracy(X, Y), Y of shared cores')
    check_orth(ctx, teneva, rng, Ysh, NYs, s11, info, False)
    check_truncate(ctx, teneva, rng, Ysh, NYs, s11, info, False)
    ctx.check('shared-objects-untouched', all(np.array_equal(a_, b_)
        for a_, b_ in zip(Ysh[:2], snap)), 'a routine modified the shared '
        'core objects of its argument')
    ctx.event('shared-core-objects')


def outer_truncate(ctx, teneva, rng):
    """Y = A x B with A = T1 + eta T2 (orthogonal rank-1 parts, relative
    weight eta = 1.4 e: above every per-unfolding threshold, so it must be
    kept, and dropping it breaks the bound) and B of rank 1 with a long last
    mode and a norm far from 1 (possibly outside the double range)."""
    da, db = int(rng.integers(2, 5)), int(rng.integers(1, 40))
    e = float([1e-1, 1e-3, 1e-6][int(rng.integers(3))])
    eta = 1.4 * e
    na = [int(rng.integers(2, 4)) for _ in range(da)]
    A = []
    for k in range(da):
        u1, u2 = rng.normal(size=na[k]), rng.normal(size=na[k])
        if k == 0:                       # disjoint supports: T1 orthogonal T2
            u1[1:] = 0.
            u2[0] = 0.
        u1, u2 = u1 / np.linalg.norm(u1), u2 / np.linalg.norm(u2)
        G = np.zeros((1 if k == 0 else 2, na[k], 2))
        G[0, :, 0] = u1
        G[-1, :, 1] = u2 * (eta if k == 0 else 1.)
        A.append(G)
    A[-1] = A[-1].sum(axis=2, keepdims=True)      # close the bond: rank 1
    nb = [int(rng.integers(1, 4)) for _ in range(db)]
    nb[-1] = int(rng.choice([256, 512, 1024]))
    sh = int(rng.integers(-40, 41))
    B = [np.ldexp(rng.uniform(0.5, 1., size=(1, k, 1)) * rng.choice([-1., 1.],
        size=(1, k, 1)), sh) for k in nb]
    T = A + B
    NT = normcores(T)
    sTT = sweep(NT, NT)
    for is_eigh in (True, False):
        what = (f'truncate(e={e:g}, use_stab=True, is_eigh={is_eigh}) of an '
            f'outer product, rank-1 bond after mode {da}, eta = 1.4 e')
        ok, Z = call(ctx, 'truncate-finite', None, teneva.truncate, T, e,
            use_stab=True, is_eigh=is_eigh)
        if ok:
            judge_truncate(ctx, T, NT, sTT, Z, e, is_eigh,
                ('truncate-finite', 'truncate-error'), what, None)
    ctx.event('outer-product-truncate')


def unorth_truncate(ctx, teneva, rng):
    """truncate(orth=False): the accuracy e is ABSOLUTE (no orthogonalisation,
    no norm is taken).  The input is built left-orthogonal here (own QR), so
    the right-to-left sweep drops at most e per bond: ||Z - Y|| <=
    e sqrt(d-1), whatever the scale of the tensor, with and without
    stabilisation, and the two results denote the same tensor up to that."""
    d = int(rng.integers(2, 6))
    n = [int(rng.integers(2, 5)) for _ in range(d)]
    rr = int(rng.integers(2, 4))
    r = [1]
    for k in range(d - 1):
        r.append(min(rr, r[-1] * n[k], int(np.prod(n[k + 1:]))))
    r.append(1)
    T = []
    for k in range(d - 1):
        Q, _ = np.linalg.qr(rng.normal(size=(r[k] * n[k], r[k + 1])))
        T.append(np.ascontiguousarray(Q.reshape(r[k], n[k], r[k + 1])))
    sh = int(rng.choice([-1, 1])) * int(rng.integers(8, 45))
    q = r[d - 1]
    sig = np.ldexp(10.0 ** (-3. * np.arange(q)), sh)      # 1, 1e-3, 1e-6
    U, _ = np.linalg.qr(rng.normal(size=(q, q)))
    V, _ = np.linalg.qr(rng.normal(size=(n[-1], min(q, n[-1]))))
    m = V.shape[1]
    T.append(((U[:, :m] * sig[:m]) @ V.T).reshape(q, n[-1], 1))
    sig = sig[:m]
    # e in a gap of the spectrum of the last unfolding (never at a tie)
    j = int(rng.integers(0, m))
    e = float(sig[j] * (10 ** -1.5))
    A = ref.dense_ld(T)
    nT = float(np.sqrt(np.sum(A * A)))
    res = {}
    for is_eigh in (True, False):
        floor = np.sqrt(50. * d * EPS) if is_eigh else 50. * d * EPS
        bound = e * np.sqrt(d - 1) * (1 + 1e-6) + floor * nT
        for stab in (False, True):
            what = (f'truncate(e={e:.3g}, orth=False, use_stab={stab}, '
                f'is_eigh={is_eigh}) of a left-orthogonal tensor of norm '
                f'2^{np.log2(nT):.1f}')
            ok, Z = call(ctx, 'truncate-absolute', None, teneva.truncate,
                [G.copy() for G in T], e, orth=False, use_stab=stab,
                is_eigh=is_eigh)
            if not ok:
                continue
            why = ref.wellformed(Z, n, finite=True)
            if not ctx.check('truncate-absolute', why is None, f'{what}: '
                    f'result malformed or not finite: {why}'):
                continue
            D = ref.dense_ld(Z)
            err = float(np.sqrt(np.sum((D - A) ** 2)))
            ctx.check('truncate-absolute', err <= bound, f'{what}: ||Z - Y|| '
                f'= {err:.3e} > e sqrt(d-1) + floor = {bound:.3e}',
                ranks_in=r, ranks_out=ref.ranks_of(Z), spectrum=sig)
            res[stab] = D
        if len(res) == 2:
            dif = float(np.sqrt(np.sum((res[True] - res[False]) ** 2)))
            ctx.check('agree-plain', dif <= 2 * bound, 'truncate(orth=False, '
                f'is_eigh={is_eigh}): stabilised and plain results differ by '
                f'{dif:.3e} > {2 * bound:.3e}')
    ctx.event('truncate-without-orthogonalisation')


def mixed_dtypes(ctx, teneva, rng, d):
    n = [int(rng.integers(1, 4)) for _ in range(d)]
    r = [1] + [int(rng.integers(1, 4)) for _ in range(d - 1)] + [1]
    ex = int(rng.integers(-20, 21))
    # (integer-typed cores as the FIRST operand only: as the second one the
    # library negates a copy in place, which numpy refuses for integer arrays;
    # float32 cores are contracted in float32 by the stabilised routines, so
    # their results carry float32 rounding - both outside this check)
    kind = ['int64', 'int32', 'int16'][int(rng.integers(3))]
    # (positive integers: a long chain of small signed integer matrices is
    # often exactly the zero tensor, for which the first-order error bound of
    # the reference sweep degenerates)
    base = [rng.integers(1, 5, size=(r[k], n[k], r[k + 1])).astype(kind)
        for k in range(d)]
    ex = 1
    Y1v = [np.asarray(G, dtype=float) for G in base]       # the values
    delta = float(10.0 ** rng.integers(-3, 0))
    Y2 = [H + delta * np.ldexp(rng.normal(size=H.shape), ex) for H in Y1v]
    N1, N2 = normcores(Y1v), normcores(Y2)
    s11, s22, s12 = sweep(N1, N1), sweep(N2, N2), sweep(N1, N2)
    check_accuracy(ctx, teneva, base, Y2, s11, s12, s22,
        f'accuracy(Y1, Y2), Y1 of dtype {kind}, Y2 float64')
    check_mul_scalar(ctx, teneva, base, Y2, s12, f'<Y1, Y2>, Y1 of dtype '
        f'{kind}')
    ctx.event('mixed-dtype-operands:' + kind)


def narrow_int_long_modes(ctx, teneva, rng):
    """Both operands in a narrow integer dtype, long modes: every entry and
    every product of two entries fits the dtype, the sum over one mode does
    not (the values decide, not the width the cores are stored in)."""
    kind, lo, hi, dmax = [('int8', -3, 3, 3), ('uint8', 0, 5, 3),
        ('int16', -60, 60, 2), ('int8', -11, 11, 2)][int(rng.integers(4))]
    d = int(rng.integers(2, dmax + 1))
    n = [int(rng.integers(64, 129)) for _ in range(d)]
    r = [1] + [int(rng.integers(1, 3)) for _ in range(d - 1)] + [1]
    A = [rng.integers(lo, hi + 1, size=(r[k], n[k], r[k + 1])).astype(kind)
        for k in range(d)]
    B = [rng.integers(lo, hi + 1, size=(r[k], n[k], r[k + 1])).astype(kind)
        for k in range(d)]
    Av = [np.asarray(G, dtype=float) for G in A]
    Bv = [np.asarray(G, dtype=float) for G in B]
    NA, NB = normcores(Av), normcores(Bv)
    sAB, sAA = sweep(NA, NB), sweep(NA, NA)
    # exact values in Python integers (independent of any dtype)
    def exact(P, Q):
        v = [[1]]
        for G, H in zip(P, Q):
            G, H = G.astype(object), H.astype(object)
            M = np.einsum('aib,cid->acbd', G, H).reshape(
                G.shape[0] * H.shape[0], -1)
            v = np.dot(np.array(v, dtype=object), M)
        return int(v[0][0])
    eAB, eAA = exact(A, B), exact(A, A)
    what = f'{kind} cores, modes {n}'
    check_mul_scalar(ctx, teneva, A, B, sAB, f'<A, B>, {what}')
    check_norm(ctx, teneva, A, sAA, f'norm(A), {what}')
    ok, got = call(ctx, 'narrow-int-exact', None, teneva.mul_scalar, A, B)
    if ok:
        ctx.check('narrow-int-exact', is_real(got) and float(got) == float(eAB),
            f'mul_scalar(A, B), {what}: {got!r} but the exact integer value '
            f'is {eAB}')
    ok, got = call(ctx, 'narrow-int-exact', None, teneva.norm, A)
    if ok:
        ctx.check('narrow-int-exact', is_real(got) and abs(float(got) -
            float(np.sqrt(float(eAA)))) <= 4 * EPS * float(np.sqrt(float(eAA))),
            f'norm(A), {what}: {got!r} but the exact value is sqrt({eAA})')
    ctx.event('narrow-int-long-modes:' + kind)


def accuracy_family(ctx, teneva, rng, Y, NY, sYY, info, edge):
    """Pairs with a known relation to Y: perturbed, rescaled, equal, zero."""
    d = len(Y)
    big = d >= 1000
    todo = ['perturbed', 'factor', 'equal', 'sat-high', 'zero-den', 'tiny']
    if big:
        todo = [todo[int(i)] for i in rng.choice(len(todo), size=2,
            replace=False)]
    for what in todo:
        Y1, Y2, N2, s22 = None, Y, NY, sYY
        if what == 'perturbed':
            delta = float(10.0 ** rng.integers(-4, 0))
            P = make_probes(rng, Y, info['ey'], True, 1, 0)[0][2]
            Y1 = [G if G is H else G + delta * H for G, H in zip(Y, P)]
        elif what == 'factor':
            c = 1. + float(rng.choice([-1., 1.])) * float(
                10.0 ** rng.integers(-4, 1))
            Y1 = list(Y)
            j = int(rng.integers(d))
            Y1[j] = Y[j] * c
        elif what == 'equal':
            Y1 = [G.copy() for G in Y]
        elif what == 'sat-high':
            # Y1 = Y * 2^t, t spread over the cores, t beyond the documented 500
            t = int(rng.integers(520, 2000))
            t = min(t, 100 * d)
            ex = split_sum(rng, t, d, 10 ** 6)
            Y1 = [np.ldexp(G, int(x)) for G, x in zip(Y, ex)]
        elif what == 'zero-den':
            Y1 = Y
            Y2 = [G.copy() for G in Y]
            Y2[int(rng.integers(d))][...] = 0.
        elif what == 'tiny':
            # distance far below the resolution of the formula
            Y1 = list(Y)
            j = int(rng.integers(d))
            Y1[j] = Y[j] * (1. + 2.0 ** -40)
        N1 = normcores(Y1)
        if Y2 is not Y:
            N2 = normcores(Y2)
            s22 = sweep(N2, N2)
        s11, s12 = sweep(N1, N1), sweep(N1, N2)
        check_accuracy(ctx, teneva, Y1, Y2, s11, s12, s22,
            f'accuracy({what} Y, Y)')
