"""C17 — QTT conversion and index maps are mutually inverse and value-preserving.

Two groups of cases.

(1) Index maps `ind_tt_to_qtt` / `ind_qtt_to_tt` — EXHAUSTIVE over all
    multi-indices for every (d, q) with q*d <= 10 (quick) / 14 (thorough):
    image == little-endian bit string computed with Python integers, both
    directions; both round trips; bijectivity by counting; batch == per-row;
    1-D in -> 1-D out; list and ndarray inputs; ValueError for mode sizes that
    are not powers of two.  Plus a sampled extension to q <= 40.

(2) Tensor conversion `tt_to_qtt` / `qtt_to_tt` / `core_tt_to_qtt` /
    `core_qtt_to_tt` on generated TT-tensors of shape [2^q]*d (d = 1..4,
    q = 1..5, bond ranks 1..5 (thorough: also 1..8) incl. over-large ones,
    e in {0, 1e-12, 1e-3, 1e-1},
    cap r in {1, 2, 3, large}): structure of the result, the rank statement, the
    meaning of a QTT-tensor (qtt_to_tt against an own longdouble contraction at
    bit-expanded indices: rounding-level, judged for every e and r), and — when
    the cap does not bind — the accuracy statements (per core, dense round
    trip, entry identity).

Accuracy oracle (derivation; nothing here is tuned)
---------------------------------------------------
`core_tt_to_qtt` performs q truncated factorisations A_k ~ B_k V_k
(k = 0..q-1) with `matrix_svd`, which works through the Gram matrix
C = A A^T (or A^T A): eigenpairs (lambda_j, u_j) of fl(C) = C + E, directions
dropped from the small end while the running sum of lambda_j stays <= e^2
(negative lambda_j are set to 0 first, so they are always dropped).

 * In exact arithmetic the q truncations are mutually orthogonal (the V_k have
   orthonormal rows and the residual of step k is orthogonal to the row space
   of V_k), so  ||G - back(G)||_F^2 <= q e^2.
 * Rounding: a dropped direction has true energy u^T C u = lambda_j - u^T E u
   <= lambda_j + ||E||_2, where ||E||_2 <= s_k := (inner_k + 4 dim_k) eps
   ||G||_F^2  (inner_k*eps*||A||_F^2 for the Gram product, 4*dim_k*eps*||C||_2
   for the symmetric eigensolver's backward error; ||A_k||_F <= ||G||_F because
   every step is a projection).  A direction dropped only by the cap r while
   its singular value is below `lo` costs at most lo^2 + 2 s_k; one that an
   earlier m <= n step inflated from rounding level to sqrt(s) (B = U w with
   w = sqrt(computed lambda)) costs at most 3 s_k before it is damped by the
   matching sqrt(eps)-sized row of the earlier V.  Summing over at most dim_k
   directions per step gives
       floor^2 = sum_k dim_k (4 s_k + lo^2),
   i.e. floor ~ sqrt(eps) * ||G||_F * O(sqrt(dim*inner)): the sqrt(eps)-like
   floor of a Gram-matrix SVD relative to the largest singular value.  This is
   a worst-case norm bound (observed errors are <= 1/50 of it), used without
   a further factor.  For e = 0 the bound is the floor alone.
 * The rows of V_k are orthonormal only up to sqrt(1 + ||E||/lambda_j) for the
   kept directions.  With all kept singular values >= hi_k := 100 sqrt(s_k)
   the factor is <= 1 + 1e-4 per step; this is the (1 + 1e-3) in front of
   e sqrt(q).  Kept directions whose true singular value is < lo := 1e-11
   ||G||_F (exact rank deficiency, noise eigenvalues of either sign) are
   harmless: the matching rows of V (m <= n) / columns of B (m > n) are of
   size sqrt(eps), so errors in them are damped, not amplified.
 * Singular values of an unfolding of G inside the band [lo, hi_k) that are
   not certainly removed by the e-threshold make lambda_j comparable to the
   rounding of the Gram matrix; then ||row of V|| = sqrt(lambda_true /
   lambda_computed) is an O(1) random factor with a 1/t^2 tail and no bound of
   the form e sqrt(q) + floor holds for ANY Gram-based implementation: such
   cores are NOT JUDGED for accuracy (reason `gram-rounding-band`).  The
   classification uses numpy.linalg.svd of the unfoldings of the INPUT core
   only (independent of the code under test).
 * "r does not bind": for every split the number of singular values that are
   >= lo and that an e-threshold could keep (tail norm, widened by the floor,
   > e) is <= r.  Otherwise no accuracy is claimed (reason `cap-binds`).

Exactly zero cores (NaN from 1/w with w == 0 in the pinned tree) belong to
C11 and are not generated here.
"""
import itertools

import numpy as np

from tvmon import ref
from tvmon.ref import LD, EPS

PID = 'C17'
LEVEL = 'exploration'
# The property as a whole is explored, not exhausted (tensors are sampled).
# What IS exhaustive — every multi-index for every (d, q) with q*d <= bound —
# is reported in the evidence as events `imap-exhaustive-pairs`,
# `imap-indices-enumerated` and in RULE; the flag therefore stays False.
EXHAUSTIVE = False
RULE = ('index maps: EXHAUSTIVE over all 2^(q*d) multi-indices and all bit '
    'strings for every (d, q) with q*d <= 10 (quick) / 14 (thorough), '
    'reference = Python integer arithmetic, plus sampled q <= 40; tensor '
    'conversion: sampled TT-tensors of shape [2^q]*d, d=1..4, q=1..5, bond '
    'ranks 1..5 (thorough: a quarter with 1..8; over-large included), '
    'families generic / exactly low QTT-rank / decaying singular values / '
    'sampled functions / scaled / '
    'singular values in the Gram rounding band, e in {0,1e-12,1e-3,1e-1}, '
    'cap in {1,2,3,large,default}; entry identity over ALL entries when '
    '2^(q*d) <= 4096 else 500 random entries; non-trivial = distinct '
    '(d, q, family, e, cap, TT ranks, resulting QTT ranks) with q >= 2, some '
    'TT rank >= 2 and some inner QTT bond >= 2, or an index-map pair (d, q) '
    'with d >= 2 and q >= 2')
REQUIRED = {
    'imap-narrow-dtype': 50,
    'imap-bits': 10, 'imap-inverse': 10, 'imap-roundtrip': 20,
    'imap-bijective': 20, 'imap-batch-vs-row': 20, 'imap-1d': 20,
    'imap-reject': 10,
    'qtt-wellformed': 200, 'bond-ranks': 200, 'inner-cap': 200,
    'back-wellformed': 200, 'qtt-semantics': 200, 'core-error': 200,
    'core-direct': 100, 'roundtrip-dense': 100, 'entry-identity': 100,
    'reject-tensor': 10,
}
REQUIRED_EVENTS = {'imap-exhaustive-pairs': 20, 'truncation-by-e': 20,
    'cap-active': 20, 'rank-deficient-core': 20, 'entries-all': 50,
    'entries-sampled': 20, 'overlarge-rank': 20}
ASSUMPTIONS = [
    'little-endian bit strings: reference computed with Python integers '
    '((i >> j) & 1), first bit of a mode = least significant',
    'numpy longdouble (64-bit mantissa) chain contraction evaluated at index '
    'arrays is the entry reference; rounding tolerance '
    '10*(sum ranks + d)*2^-52*absbound',
    'matrix_svd works through the Gram matrix: accuracy bound '
    '(1+1e-3)*e*sqrt(q) + floor with floor^2 = sum_k dim_k*(4*(inner_k + '
    '4*dim_k)*2^-52 + 1e-22)*||G||_F^2 (worst-case norm bound, see module '
    'docstring); cores with unfolding singular values in the Gram rounding '
    'band [1e-11*||G||, 100*sqrt(s_k)) that e does not remove are not judged',
    'no accuracy is claimed when the rank cap binds; exactly zero cores '
    'belong to C11']
SHARDS = {'quick': 12, 'thorough': 16}
# per-shard budgets are generous on purpose: nominal cost is ~80 CPU-s (quick)
# / ~4500 CPU-s (thorough), i.e. ~10 s / ~5 min wall on 16 idle cores, but the
# machine may be shared (measured 4-5x slower under load 70); a shard that is
# cut short makes the run inconclusive, never a verdict.
BUDGET_S = {'quick': 400, 'thorough': 3600}

C = 10.
E_LIST = [0.0, 1e-12, 1e-3, 1e-1]
CAPS = [1, 2, 3, 'big']
FAMS = ['generic', 'lowqtt', 'decay', 'func', 'scaled']
NONPOW = [3, 5, 6, 7, 9, 10, 12, 15, 17, 24, 31, 33, 48, 63, 65, 96, 100, 127,
    129, 1000, 1023, 1025, 3 * 2**10, 2**20 + 1, 2**30 - 1] + \
    [2**k + 1 for k in (40, 49, 50, 52, 53, 55, 60, 62)] + \
    [2**k - 1 for k in (40, 49, 50, 52, 53, 55, 60, 62)] + \
    [2**k + 2 for k in (50, 53, 58, 61)] + [3 * 2**k for k in (30, 50, 60)] + \
    [2**53 + 2**10, 2**62 - 2**8, 2**62 + 2**9]
ALL_ENTRIES_MAX = 4096
N_SAMPLED = 500


# ---- case lists ---------------------------------------------------------------

def gen_cases(seed, tier):
    rng = np.random.default_rng([seed, 1717])
    quick = tier == 'quick'
    L = 10 if quick else 14

    def sd():
        return int(rng.integers(1 << 62))

    imap = []
    for d in range(1, L + 1):
        for q in range(1, L // d + 1):
            imap.append({'kind': 'imap', 'd': d, 'q': q, 'tier': tier,
                'seed': sd()})
    imap.sort(key=lambda c: -(c['d'] * c['q'] * 2 ** (c['d'] * c['q'])))
    for _ in range(20 if quick else 200):
        imap.append({'kind': 'imap-large', 'd': int(rng.integers(1, 4)),
            'q': int(rng.integers(11, 41)) if rng.random() < 0.5
            else int(rng.integers(41, 63)), 'seed': sd()})
    for n in NONPOW:
        imap.append({'kind': 'imap-reject', 'n': n, 'seed': sd()})

    conv = []
    reps = 6 if quick else 320
    for rep in range(reps):
        for d in range(1, 5):
            for q in range(1, 6):
                for ei in range(4):
                    for cap in CAPS:
                        for fam in FAMS:
                            conv.append({'kind': 'conv', 'd': d, 'q': q,
                                'fam': fam, 'e': ei, 'cap': cap,
                                'rmax': 5 if quick or rep % 4 else 8,
                                'seed': sd()})
    for _ in range(400 if quick else 15000):
        conv.append({'kind': 'conv', 'd': int(rng.integers(1, 5)),
            'q': int(rng.integers(1, 6)), 'fam': 'band',
            'e': int(rng.integers(4)), 'cap': CAPS[int(rng.integers(4))],
            'seed': sd()})
    for _ in range(120 if quick else 3000):
        conv.append({'kind': 'conv', 'd': int(rng.integers(2, 6)),
            'q': int(rng.integers(1, 4)), 'fam': 'generic',
            'e': int(rng.integers(4)), 'cap': 'big', 'constcores': True,
            'seed': sd()})
    for _ in range(60 if quick else 1500):
        conv.append({'kind': 'reject', 'd': int(rng.integers(1, 5)),
            'n': NONPOW[int(rng.integers(12))], 'seed': sd()})
    order = rng.permutation(len(conv))
    conv = [conv[int(j)] for j in order]
    # 48 typical accuracy-judged cases first (the written-out samples of the
    # evidence are taken from the first cases of a shard)
    nice = [c for c in conv if c['kind'] == 'conv' and c['cap'] == 'big'
        and c['e'] in (1, 2) and c['q'] >= 2 and c['d'] >= 2
        and c['fam'] in ('generic', 'lowqtt', 'decay')][:48]
    ids = {id(c) for c in nice}
    conv = nice + [c for c in conv if id(c) not in ids]
    # every shard starts with a few conversion cases (samples), then the
    # expensive exhaustive index-map cases (largest first: load balance)
    return conv[:48] + imap + conv[48:]


# ---- references -----------------------------------------------------------------

def bits_py(I, q):
    """Little-endian bit image of multi-indices, Python integers only."""
    return [[(int(i) >> j) & 1 for i in row for j in range(q)] for row in I]


def unbits_py(J, q):
    d = len(J[0]) // q if len(J) else 0
    return [[sum(int(row[k * q + j]) << j for j in range(q)) for k in range(d)]
        for row in J]


def bits_np(I, q):
    """Same map with integer shifts on arrays (used for entry references)."""
    I = np.asarray(I, dtype=np.int64)
    B = (I[:, :, None] >> np.arange(q, dtype=np.int64)[None, None, :]) & 1
    return B.reshape(I.shape[0], -1)


def entries_ld(Y, I, absval=False):
    """Entries of TT `Y` at the rows of I by longdouble chain contraction."""
    Q = None
    for k, G in enumerate(Y):
        G = np.asarray(G, dtype=LD)
        if absval:
            G = np.abs(G)
        Gk = G[:, I[:, k], :]
        if Q is None:
            Q = Gk[0]
        else:
            Q = np.einsum('mr,rms->ms', Q, Gk)
    return Q[:, 0]


def qtt_chain(Q):
    """TT-core denoted by a list of QTT-cores: new index = old + m * bit
    (little-endian), written with a C-order reshape of (bit, old)."""
    G = Q[0]
    for X in Q[1:]:
        r1, m, _ = G.shape
        G = np.einsum('aib,bjc->ajic', G, X).reshape(r1, 2 * m, X.shape[2])
    return G


def core_model(G, e, cap, q):
    """Accuracy model of one core from the INPUT only (see module docstring)."""
    G = np.asarray(G, dtype=float)
    r1, n, r2 = G.shape
    nrm = float(np.linalg.norm(G))
    lo = 1e-11 * nrm
    steps = []
    floor2 = 0.
    for k in range(q):
        mk, nk = r1 * 2 ** (q - k), 2 ** k * r2
        sv = np.linalg.svd(G.reshape(mk, nk, order='F'), compute_uv=False)
        dim, inner = min(mk, nk), max(mk, nk)
        s = (inner + 4 * dim) * EPS * nrm ** 2
        floor2 += dim * (4 * s + lo * lo)
        steps.append((sv, s, dim))
    floor = float(np.sqrt(floor2))
    clean, capfree, deficient = True, True, False
    numranks, keepmax = [], []
    for sv, s, dim in steps:
        hi = 100. * np.sqrt(s)
        small = sv[sv < hi]
        if np.any(small >= lo):
            # band values present: harmless only if e certainly removes every
            # direction below hi: computed lambda <= (sigma + floor)^2 + s
            if float(np.sum(2 * small ** 2 + 2 * floor2 + s)) > e * e:
                clean = False
        if np.any(sv < lo):
            deficient = True
        nr = int(np.sum(sv >= lo))
        # directions an e-threshold could keep: tail norm (widened) > e
        w = (sv + floor) ** 2
        tail = np.sqrt(np.cumsum(w[::-1])[::-1])
        km = int(np.sum((tail > e) & (sv >= lo)))
        numranks.append(nr)
        keepmax.append(km)
        if cap < km:
            capfree = False
    bound = (1 + 1e-3) * e * np.sqrt(q) + floor
    return {'nrm': nrm, 'floor': floor, 'bound': float(bound), 'clean': clean,
        'capfree': capfree, 'numranks': numranks, 'keepmax': keepmax,
        'deficient': deficient}


# ---- generators -------------------------------------------------------------------

def make_core(rng, fam, r1, q, r2):
    n = 2 ** q
    if fam == 'scaled':
        sub = ['generic', 'lowqtt', 'decay'][int(rng.integers(3))]
        G = make_core(rng, sub, r1, q, r2)
        return G * 10.0 ** int(rng.choice([-4, -3, -2, -1, 1, 2, 3, 4, -8,
            -10, -12, -20, -30, 8, 12, 20]))
    if fam == 'generic':
        G = rng.normal(size=(r1, n, r2))
    elif fam in ('lowqtt', 'decay', 'band'):
        rho = int(rng.integers(1, 4)) if fam == 'lowqtt' else \
            int(rng.integers(2, 5))
        rr = [r1] + [int(rng.integers(1, rho + 1)) if fam == 'lowqtt' else rho
            for _ in range(q - 1)] + [r2]
        Q = [rng.normal(size=(rr[k], 2, rr[k + 1])) for k in range(q)]
        if fam != 'lowqtt':
            dec = float(rng.uniform(0.05, 0.6)) if fam == 'decay' else \
                10.0 ** -float(rng.uniform(1.5, 4))
            for k in range(q):
                if k < q - 1 or rng.random() < 0.5:
                    Q[k] = Q[k] * (dec ** np.arange(rr[k + 1]))[None, None, :]
        G = qtt_chain(Q)
    elif fam == 'func':
        x = np.linspace(-1., 1., n)
        G = np.zeros((r1, n, r2))
        for a in range(r1):
            for b in range(r2):
                t = int(rng.integers(5))
                c = float(rng.uniform(-2, 2))
                if t == 0:
                    f = np.exp(c * x)
                elif t == 1:
                    f = np.sin(3 * c * x + rng.uniform(0, 3))
                elif t == 2:
                    f = 1 + c * x + rng.uniform(-1, 1) * x * x
                elif t == 3:
                    f = np.full(n, c)
                else:
                    f = np.cos(c * x) * np.exp(-x)
                G[a, :, b] = f
    else:
        raise ValueError(fam)
    nrm = np.linalg.norm(G)
    return G * (float(rng.uniform(0.5, 3.)) / nrm)


def layout(rng, G):
    u = rng.random()
    if u < 0.6:
        return np.ascontiguousarray(G)
    if u < 0.8:
        return np.asfortranarray(G)
    big = np.zeros(tuple(2 * s for s in G.shape))
    v = big[::2, ::2, ::2]
    v[...] = G
    return v


def index_rows(rng, n, d):
    N = n ** d
    if N <= ALL_ENTRIES_MAX:
        I = np.array(list(itertools.product(range(n), repeat=d)),
            dtype=np.int64).reshape(N, d)
        return I, True
    return rng.integers(0, n, size=(N_SAMPLED, d)).astype(np.int64), False


def _want_sample(ctx, kind, quota):
    if len(ctx.samples) >= 3:
        return False
    cnt = ctx.__dict__.setdefault('_c17_samples', {})
    if cnt.get(kind, 0) >= quota:
        return False
    cnt[kind] = cnt.get(kind, 0) + 1
    return True


# ---- index maps -----------------------------------------------------------------

def _is_int_array(A, shape):
    return isinstance(A, np.ndarray) and A.dtype.kind in 'iu' and \
        A.shape == tuple(shape)


def run_imap(case, ctx, teneva):
    d, q = case['d'], case['q']
    rng = np.random.default_rng(case['seed'])
    n = 2 ** q
    N = n ** d
    Il = [list(t) for t in itertools.product(range(n), repeat=d)]
    Jl = [list(t) for t in itertools.product((0, 1), repeat=d * q)]
    I = np.array(Il, dtype=int).reshape(N, d)
    J = np.array(Jl, dtype=int).reshape(N, d * q)
    Bref = np.array(bits_py(Il, q), dtype=int).reshape(N, d * q)
    Tref = np.array(unbits_py(Jl, q), dtype=int).reshape(N, d)

    F = teneva.ind_tt_to_qtt(I, n)
    okF = _is_int_array(F, (N, d * q))
    ctx.check('imap-bits', okF and np.array_equal(F, Bref),
        lambda: f'ind_tt_to_qtt(all indices, n={n}) differs from the '
        f'little-endian bit strings (d={d}, q={q}); first bad row: '
        + _first_bad(I, F, Bref))
    T = teneva.ind_qtt_to_tt(J, q)
    okT = _is_int_array(T, (N, d))
    ctx.check('imap-inverse', okT and np.array_equal(T, Tref),
        lambda: f'ind_qtt_to_tt(all bit strings, q={q}) differs from '
        f'sum_j b_j 2^j (d={d}); first bad row: ' + _first_bad(J, T, Tref))
    if not (okF and okT):
        return

    # bijectivity by counting: N distinct images inside a target set of size N
    codesF = {sum(int(b) << m for m, b in enumerate(row)) for row in F.tolist()}
    ctx.check('imap-bijective', len(codesF) == N and set(np.unique(F).tolist())
        <= {0, 1}, f'ind_tt_to_qtt is not a bijection onto bit strings: '
        f'{len(codesF)} distinct images of {N} indices (d={d}, q={q})')
    codesT = {sum(int(v) * n ** k for k, v in enumerate(row))
        for row in T.tolist()}
    ctx.check('imap-bijective', len(codesT) == N and int(T.min()) >= 0
        and int(T.max()) < n, f'ind_qtt_to_tt is not a bijection onto '
        f'multi-indices: {len(codesT)} distinct images of {N} bit strings')

    # round trips (on the function's own outputs)
    ctx.check('imap-roundtrip', np.array_equal(teneva.ind_qtt_to_tt(F, q), I),
        f'ind_qtt_to_tt(ind_tt_to_qtt(I)) != I (d={d}, q={q})')
    ctx.check('imap-roundtrip', np.array_equal(teneva.ind_tt_to_qtt(T, n), J),
        f'ind_tt_to_qtt(ind_qtt_to_tt(J)) != J (d={d}, q={q})')

    # list-of-lists and single-row batches
    F2 = teneva.ind_tt_to_qtt(Il, n)
    T2 = teneva.ind_qtt_to_tt(Jl, q)
    ctx.check('imap-batch-vs-row', _is_int_array(F2, F.shape)
        and np.array_equal(F2, F) and _is_int_array(T2, T.shape)
        and np.array_equal(T2, T), 'list-of-lists batch differs from ndarray '
        f'batch (d={d}, q={q})')
    j = int(rng.integers(N))
    F1 = teneva.ind_tt_to_qtt(I[j:j + 1], n)
    T1 = teneva.ind_qtt_to_tt(J[j:j + 1], q)
    ctx.check('imap-batch-vs-row', _is_int_array(F1, (1, d * q))
        and np.array_equal(F1, F[j:j + 1]) and _is_int_array(T1, (1, d))
        and np.array_equal(T1, T[j:j + 1]),
        f'one-row batch differs from the batch row {j} (d={d}, q={q})')

    # batch == per-row, 1-D in -> 1-D out
    if case.get('tier') == 'thorough' or N <= 1024:
        rows = range(N)
        ctx.event('imap-rowwise-exhaustive')
    else:
        rows = sorted(set(rng.integers(0, N, size=1024).tolist()) | {0, N - 1})
    bad_row = bad_1d = None
    for a in rows:
        arg = Il[a] if a % 2 else I[a]
        f = teneva.ind_tt_to_qtt(arg, n)
        if not _is_int_array(f, (d * q,)):
            bad_1d = bad_1d or ('ind_tt_to_qtt', Il[a], np.shape(f))
        elif not np.array_equal(f, F[a]):
            bad_row = bad_row or ('ind_tt_to_qtt', Il[a], f.tolist(),
                F[a].tolist())
        arg = Jl[a] if a % 2 else J[a]
        t = teneva.ind_qtt_to_tt(arg, q)
        if not _is_int_array(t, (d,)):
            bad_1d = bad_1d or ('ind_qtt_to_tt', Jl[a], np.shape(t))
        elif not np.array_equal(t, T[a]):
            bad_row = bad_row or ('ind_qtt_to_tt', Jl[a], t.tolist(),
                T[a].tolist())
    ctx.check('imap-1d', bad_1d is None,
        f'1-D input did not give a 1-D integer output: {bad_1d}')
    ctx.check('imap-batch-vs-row', bad_row is None,
        f'single-index call differs from the batch row: {bad_row}')

    ctx.event('imap-exhaustive-pairs')
    ctx.event('imap-indices-enumerated', 2 * N)
    ctx.event(f'imap-exhaustive-qd={q * d:02d}')
    if d >= 2 and q >= 2:
        ctx.nontrivial(['imap', d, q])
    if _want_sample(ctx, 'imap', 1):
        a = int(rng.integers(N))
        ctx.sample({'case': case, 'what': 'exhaustive index maps',
            'mode_size': n, 'indices_enumerated': N,
            'example_multi_index': Il[a],
            'ind_tt_to_qtt': F[a].tolist(), 'reference_bits': Bref[a].tolist(),
            'example_bit_string': Jl[a], 'ind_qtt_to_tt': T[a].tolist(),
            'reference_index': Tref[a].tolist(),
            'distinct_images': [len(codesF), len(codesT)]})


def _first_bad(X, got, ref_):
    if not isinstance(got, np.ndarray) or got.shape != ref_.shape:
        return f'shape/dtype {getattr(got, "shape", None)}, ' \
            f'{getattr(got, "dtype", None)} expected {ref_.shape} int'
    bad = np.where(np.any(got != ref_, axis=1))[0]
    if not len(bad):
        return f'dtype {got.dtype}'
    a = int(bad[0])
    return f'{X[a].tolist()} -> {got[a].tolist()} expected {ref_[a].tolist()}'


def run_imap_large(case, ctx, teneva):
    """Sampled extension of the index-map statements to 11 <= q <= 40."""
    d, q = case['d'], case['q']
    rng = np.random.default_rng(case['seed'])
    n = 2 ** q
    m = 200
    Il = [[int(rng.integers(0, n)) for _ in range(d)] for _ in range(m - 2)]
    Il += [[0] * d, [n - 1] * d]
    Bl = bits_py(Il, q)
    F = teneva.ind_tt_to_qtt(np.array(Il, dtype=np.int64), n)
    ctx.check('imap-bits', _is_int_array(F, (m, d * q))
        and F.tolist() == Bl, lambda: f'ind_tt_to_qtt wrong for n=2^{q}: '
        + _first_bad(np.array(Il), F, np.array(Bl)))
    T = teneva.ind_qtt_to_tt(np.array(Bl, dtype=np.int64), q)
    ctx.check('imap-inverse', _is_int_array(T, (m, d)) and T.tolist() == Il,
        lambda: f'ind_qtt_to_tt wrong for q={q}: '
        + _first_bad(np.array(Bl), T, np.array(Il)))
    f = teneva.ind_tt_to_qtt(Il[0], n)
    t = teneva.ind_qtt_to_tt(Bl[0], q)
    ctx.check('imap-1d', _is_int_array(f, (d * q,)) and f.tolist() == Bl[0]
        and _is_int_array(t, (d,)) and t.tolist() == Il[0],
        f'single index, n=2^{q}: {Il[0]} -> {np.asarray(f).tolist()}, '
        f'back {np.asarray(t).tolist()}')
    # bit strings stored in a narrow dtype (bits need one bit, callers do
    # store them as int8 / uint8 / bool): the index arithmetic must not be
    # done in the dtype of the argument
    for dt in (np.int8, np.uint8, np.int16, np.int32, np.bool_, np.uint16):
        Bn = np.array(Bl, dtype=dt)
        try:
            Tn = teneva.ind_qtt_to_tt(Bn, q)
        except (TypeError, ValueError):
            ctx.event('imap-narrow-dtype-rejected:' + np.dtype(dt).name)
            continue
        ctx.check('imap-narrow-dtype', _is_int_array(Tn, (m, d))
            and Tn.tolist() == Il, lambda: f'ind_qtt_to_tt wrong for bits of '
            f'dtype {np.dtype(dt).name}, q={q}: '
            + _first_bad(np.array(Bl), Tn, np.array(Il)))
    # and the indices themselves in the narrowest dtype that holds them
    for dt in (np.int16, np.uint16, np.int32, np.uint32):
        if n - 1 > np.iinfo(dt).max:
            continue
        Fn = teneva.ind_tt_to_qtt(np.array(Il, dtype=dt), n)
        ctx.check('imap-narrow-dtype', _is_int_array(Fn, (m, d * q))
            and Fn.tolist() == Bl, lambda: f'ind_tt_to_qtt wrong for indices '
            f'of dtype {np.dtype(dt).name}, n=2^{q}')
    # two batches of the same shape converted one after the other: the first
    # result is still the image of the first batch (no shared output buffer)
    Il2 = [[int(rng.integers(0, n)) for _ in range(d)] for _ in range(m)]
    F_a = teneva.ind_tt_to_qtt(np.array(Il, dtype=np.int64), n)
    keep = np.array(F_a, copy=True)
    F_b = teneva.ind_tt_to_qtt(np.array(Il2, dtype=np.int64), n)
    T_a = teneva.ind_qtt_to_tt(np.array(Bl, dtype=np.int64), q)
    keep_t = np.array(T_a, copy=True)
    teneva.ind_qtt_to_tt(np.array(bits_py(Il2, q), dtype=np.int64), q)
    ctx.check('imap-batch-vs-row', np.array_equal(F_a, keep) and
        np.array_equal(T_a, keep_t) and F_b.tolist() == bits_py(Il2, q),
        f'a second conversion of a batch of the same shape (q={q}, d={d}) '
        'changed the array returned by the first one')
    ctx.event('imap-sampled-large-q')


def run_imap_reject(case, ctx, teneva):
    n = case['n']
    # indices 0 / 1 are valid for every n >= 2, so only the documented
    # power-of-two test can reject them
    for arg in ([0, 1, 0], [[0, 0], [1, 0], [1, 1]], np.zeros((4, 3), dtype=int),
            [1]):
        try:
            out = teneva.ind_tt_to_qtt(arg, n)
        except ValueError:
            ctx.held('imap-reject')
        else:
            ctx.viol('imap-reject', f'ind_tt_to_qtt({arg!r}, n={n}) did not '
                f'raise ValueError (n is not a power of two); returned '
                f'{np.asarray(out).tolist()}')
    # positive control: the neighbouring power of two is accepted
    q = int(n).bit_length()
    if q > 61:
        return          # 2^q is beyond what an index array can address
    out = teneva.ind_tt_to_qtt([1], 2 ** q)
    ctx.check('imap-bits', _is_int_array(out, (q,))
        and out.tolist() == [1] + [0] * (q - 1),
        f'ind_tt_to_qtt([1], 2^{q}) = {np.asarray(out).tolist()}')


# ---- tensor conversion --------------------------------------------------------------

def run_reject(case, ctx, teneva):
    rng = np.random.default_rng(case['seed'])
    d, nbad = case['d'], case['n']
    k = int(rng.integers(d))
    n = [int(2 ** rng.integers(1, 4)) for _ in range(d)]
    n[k] = nbad
    r = [1] + [int(rng.integers(1, 4)) for _ in range(d - 1)] + [1]
    Y = [rng.normal(size=(r[j], n[j], r[j + 1])) for j in range(d)]
    for kw in ({}, {'e': 1e-3, 'r': 2}, {'e': 0.}):
        try:
            Z = teneva.tt_to_qtt(Y, **kw)
        except ValueError:
            ctx.held('reject-tensor')
        else:
            ctx.viol('reject-tensor', f'tt_to_qtt accepted mode sizes {n} '
                f'(mode {k} is not a power of two), returned '
                f'{len(Z)} cores', kwargs=kw)
    try:
        Q = teneva.core_tt_to_qtt(Y[k])
    except ValueError:
        ctx.held('reject-tensor')
    else:
        ctx.viol('reject-tensor', f'core_tt_to_qtt accepted a core of shape '
            f'{Y[k].shape}, returned {[x.shape for x in Q]}')


def _core_list_ok(Q, r1, q, r2):
    if not isinstance(Q, list) or len(Q) != q:
        return f'not a list of {q} cores'
    r = r1
    for j, X in enumerate(Q):
        if not isinstance(X, np.ndarray) or X.ndim != 3 or X.shape[1] != 2 \
                or X.shape[0] != r or X.shape[2] < 1:
            return f'core {j} has shape {getattr(X, "shape", None)}, ' \
                f'left rank expected {r}'
        if not np.all(np.isfinite(X)):
            return f'core {j} has non-finite entries'
        r = X.shape[2]
    if r != r2:
        return f'last rank {r} != {r2}'
    return None


def run_conv(case, ctx, teneva):
    rng = np.random.default_rng(case['seed'])
    d, q, fam = case['d'], case['q'], case['fam']
    n = 2 ** q
    e = E_LIST[case['e']]
    cap = case['cap']
    big = cap == 'big'
    capv = [100, 64, 1000, 1.E+12][int(rng.integers(4))] if big else cap
    rmax = int(case.get('rmax', 5))
    r = [1] + [int(rng.integers(1, rmax + 1)) for _ in range(d - 1)] + [1]
    Y = [layout(rng, make_core(rng, fam, r[k], q, r[k + 1])) for k in range(d)]
    if case.get('constcores'):
        # cores that hold the same numbers in another shape: every core filled
        # with one constant, rank profile a palindrome ((1, n, r) and (r, n, 1)
        # have the same entries), or one block of numbers reshaped
        c_ = float(rng.choice([1., 0.5, -2., 3.]))
        if d >= 2:
            half = [int(rng.integers(1, rmax + 1)) for _ in range(d // 2)]
            r = [1] + half + (half[::-1] if d % 2 else half[:-1][::-1]) + [1]
            r = (r + [1] * (d + 1))[:d] + [1]
        if rng.random() < 0.6 or d < 2:
            Y = [layout(rng, np.full((r[k], n, r[k + 1]), c_))
                for k in range(d)]
        else:
            blk = {}
            Y = []
            for k in range(d):
                sz = r[k] * n * r[k + 1]
                if sz not in blk:
                    blk[sz] = rng.normal(size=sz)
                Y.append(blk[sz].reshape(r[k], n, r[k + 1]).copy())
        ctx.event('cores-with-equal-numbers-in-other-shapes')
    if rng.random() < 0.04:
        # an identically zero TT-core (the zero tensor in TT form) is a valid
        # input: its QTT image must be the zero QTT-tensor, finite everywhere
        Y[int(rng.integers(d))][...] = 0.
        ctx.event('zero-core-input')
    if any(r[k + 1] > r[k] * n or r[k] > n * r[k + 1] for k in range(d)):
        ctx.event('overlarge-rank')

    style = int(rng.integers(3))
    if big and e == 1e-12 and style == 0:
        Z = teneva.tt_to_qtt(Y)              # documented defaults e=1e-12, r=100
        capv = 100
        ctx.event('defaults-used')
    elif style == 1:
        Z = teneva.tt_to_qtt(Y, e=e, r=capv)
    else:
        Z = teneva.tt_to_qtt(Y, e, capv)

    # ---- structure and ranks (every e, every cap)
    why = ref.wellformed(Z, [2] * (q * d), finite=True)
    if not ctx.check('qtt-wellformed', why is None,
            f'tt_to_qtt result is not a well-formed TT of shape [2]*{q * d}: '
            f'{why}', ranks_in=r, e=e, cap=capv):
        return
    rz = ref.ranks_of(Z)
    ctx.check('bond-ranks', [rz[k * q] for k in range(d + 1)] == r,
        f'QTT ranks at the mode boundaries {[rz[k * q] for k in range(d + 1)]}'
        f' != TT ranks {r}', qtt_ranks=rz)
    inner = [rz[j] for j in range(len(rz)) if j % q]
    ctx.check('inner-cap', all(x <= max(1, capv) for x in inner),
        f'inner QTT bond exceeds the cap r={capv}: ranks {rz} (q={q})')
    B = teneva.qtt_to_tt(Z, q)
    whyB = ref.wellformed(B, [n] * d, finite=True)
    if not ctx.check('back-wellformed', whyB is None
            and ref.ranks_of(B) == r, f'qtt_to_tt(tt_to_qtt(Y)) malformed or '
            f'ranks changed: {whyB}, ranks {ref.ranks_of(B) if whyB is None else None} vs {r}'):
        return

    # ---- what a QTT-tensor means: entries of qtt_to_tt(Z) at i == entries of
    # Z at the little-endian bits of i (pure rounding; judged for all e, cap)
    I, allent = index_rows(rng, n, d)
    ctx.event('entries-all' if allent else 'entries-sampled')
    bits = bits_np(I, q)
    vZ = entries_ld(Z, bits)
    vB = entries_ld(B, I)
    aZ = entries_ld(Z, bits, absval=True)
    aB = entries_ld(B, I, absval=True)
    ntz = ref.nterms(Z) + ref.nterms(B)
    ctx.close('qtt-semantics', vB, vZ, C * ntz * EPS * (aZ + aB),
        f'qtt_to_tt(Z, {q}) at i differs from Z at bits(i) (d={d})')

    # an arbitrary QTT-tensor (not produced by tt_to_qtt) through qtt_to_tt
    rw = [1] + [int(rng.integers(1, 5)) for _ in range(q * d - 1)] + [1]
    W = [rng.normal(size=(rw[j], 2, rw[j + 1])) for j in range(q * d)]
    BW = teneva.qtt_to_tt(W, q)
    whyW = ref.wellformed(BW, [n] * d, finite=True)
    if ctx.check('back-wellformed', whyW is None and ref.ranks_of(BW)
            == [rw[k * q] for k in range(d + 1)],
            f'qtt_to_tt of a random QTT-tensor malformed: {whyW}'):
        ctx.close('qtt-semantics', entries_ld(BW, I), entries_ld(W, bits),
            C * (ref.nterms(W) + ref.nterms(BW)) * EPS
            * (entries_ld(W, bits, absval=True)
            + entries_ld(BW, I, absval=True)),
            f'qtt_to_tt(random QTT, {q}) at i differs from it at bits(i)')

    # ---- accuracy model per core (input only)
    models = [core_model(G, e, capv, q) for G in Y]
    if any(m['deficient'] for m in models):
        ctx.event('rank-deficient-core')
    judged_all = True
    errs = []
    for k, (G, m) in enumerate(zip(Y, models)):
        err = ref.fro(np.asarray(G, dtype=LD) - B[k])
        errs.append(err)
        if not m['capfree']:
            judged_all = False
            continue
        if not m['clean']:
            judged_all = False
            ctx.skip('core-error', 'gram-rounding-band')
            continue
        ctx.close('core-error', err, 0., m['bound'],
            f'core {k}: ||G - back(G)||_F exceeds (1+1e-3)*e*sqrt(q) + floor '
            f'(e={e}, q={q}, cap={capv}, floor={m["floor"]:.3g}, '
            f'||G||={m["nrm"]:.3g}, family {fam})')
    capbinds = any(not m['capfree'] for m in models)
    if capbinds:
        ctx.skip('core-error', 'cap-binds')
        ctx.event('cap-binds')
    if not big and any(x == capv for x in inner):
        ctx.event('cap-active')
    # did e really remove something (non-vacuity of the e-bound)?
    if e >= 1e-3 and not capbinds:
        for k, m in enumerate(models):
            got = rz[k * q + 1:(k + 1) * q]
            # split j of the model <-> bond q - j inside the mode
            want = [min(m['numranks'][q - j], capv) for j in range(1, q)]
            if any(g < w for g, w in zip(got, want)):
                ctx.event('truncation-by-e')
                break

    # ---- direct calls of the core functions on one core
    k = int(rng.integers(d))
    G, m = Y[k], models[k]
    Qd = teneva.core_tt_to_qtt(G, e, capv)
    whyQ = _core_list_ok(Qd, r[k], q, r[k + 1])
    if ctx.check('core-direct', whyQ is None and all(X.shape[2] <= max(1, capv)
            for X in Qd[:-1]), f'core_tt_to_qtt result malformed / over the '
            f'cap: {whyQ}, shapes {[getattr(X, "shape", None) for X in Qd] if isinstance(Qd, list) else None}'):
        Hd = teneva.core_qtt_to_tt(Qd)
        if ctx.check('core-direct', isinstance(Hd, np.ndarray)
                and Hd.shape == G.shape, f'core_qtt_to_tt shape '
                f'{getattr(Hd, "shape", None)} != {G.shape}'):
            # meaning of core_qtt_to_tt against the own contraction
            Hr = qtt_chain([np.asarray(X, dtype=LD) for X in Qd])
            Ha = qtt_chain([np.abs(np.asarray(X, dtype=LD)) for X in Qd])
            ctx.close('core-direct', Hd, Hr, C * (q + sum(X.shape[2]
                for X in Qd)) * EPS * Ha, 'core_qtt_to_tt differs from the '
                'little-endian contraction of its argument')
            if m['capfree'] and m['clean']:
                ctx.close('core-direct', ref.fro(np.asarray(G, dtype=LD) - Hd),
                    0., m['bound'], f'core_qtt_to_tt(core_tt_to_qtt(G, {e}, '
                    f'{capv})) misses the bound (q={q}, family {fam})')
    # defaults of core_tt_to_qtt: e = 0, r = 1e12
    m0 = core_model(G, 0., 1e12, q)
    Q0 = teneva.core_tt_to_qtt(G)
    why0 = _core_list_ok(Q0, r[k], q, r[k + 1])
    if ctx.check('core-direct', why0 is None,
            f'core_tt_to_qtt(G) malformed: {why0}'):
        if m0['clean']:
            ctx.close('core-direct', ref.fro(np.asarray(G, dtype=LD)
                - teneva.core_qtt_to_tt(Q0)), 0., m0['bound'],
                f'core round trip with defaults (e=0) misses the rounding '
                f'floor (q={q}, family {fam})')
        else:
            ctx.skip('core-direct', 'gram-rounding-band')

    # ---- dense round trip and entry identity
    vY = entries_ld(Y, I)
    aY = entries_ld(Y, I, absval=True)
    D = None
    if judged_all:
        nb = [mm['nrm'] + mm['bound'] for mm in models]
        D = 0.
        for k2, mm in enumerate(models):
            D += mm['bound'] * float(np.prod([nb[j] for j in range(d)
                if j != k2]))
        rnd = C * (ref.nterms(Y) + ref.nterms(B)) * EPS * (aY + aB)
        if allent:
            ctx.close('roundtrip-dense', ref.fro(vB - vY), 0.,
                D + ref.fro(rnd), f'||qtt_to_tt(tt_to_qtt(Y)) - Y||_F over '
                f'all {len(I)} entries exceeds the bound implied by the '
                f'per-core accuracy (e={e}, cap={capv}, d={d}, q={q})')
        else:
            ctx.close('roundtrip-dense', vB, vY, D + rnd,
                f'qtt_to_tt(tt_to_qtt(Y)) differs from Y at sampled entries '
                f'(e={e}, cap={capv}, d={d}, q={q})')
        g = teneva.get(Z, bits)
        rndz = C * (ref.nterms(Y) + ref.nterms(Z)) * EPS * (aY + aZ)
        if allent:
            ok = isinstance(g, np.ndarray) and g.shape == vY.shape
            if ctx.check('entry-identity', ok, 'get(Z, batch of bit strings) '
                    f'returned shape {np.shape(g)}'):
                ctx.close('entry-identity', ref.fro(np.asarray(g, dtype=LD)
                    - vY), 0., D + ref.fro(rndz), f'get(Z, bits(i)) != '
                    f'get(Y, i) over ALL {len(I)} multi-indices (Frobenius; '
                    f'e={e}, cap={capv}, d={d}, q={q}, family {fam})')
        ctx.close('entry-identity', g, vY, D + rndz,
            f'get(Z, bits(i)) != get(Y, i) (e={e}, cap={capv}, d={d}, q={q}, '
            f'family {fam})')
        # single indices, bit strings from the library's own index map
        rows = rng.integers(0, len(I), size=4)
        g1, r1_ = [], []
        for a in rows:
            i = [int(x) for x in I[a]]
            ib = teneva.ind_tt_to_qtt(i if a % 2 else np.array(i), n)
            g1.append(teneva.get(Z, ib))
            r1_.append(teneva.get(Y, i))
        ctx.close('entry-identity', np.array(g1, dtype=float), vY[rows],
            D + rndz[rows], 'get(Z, ind_tt_to_qtt(i, n)) != reference entry')
        ctx.close('entry-identity', np.array(g1, dtype=float),
            np.array(r1_, dtype=float), D + 2 * rndz[rows],
            'get(Z, ind_tt_to_qtt(i, n)) != get(Y, i)')
        if allent:
            ctx.event('entry-identity-all-indices')
            ctx.event('entry-identity-indices', len(I))
    elif not capbinds:
        ctx.skip('entry-identity', 'gram-rounding-band')

    if q >= 2 and max(r) >= 2 and max(inner) >= 2:
        ctx.nontrivial(['conv', d, q, fam, case['e'], str(cap), r, rz])
    if _want_sample(ctx, 'conv', 1):
        a = int(rng.integers(len(I)))
        ctx.sample({'case': case, 'what': 'tt_to_qtt / qtt_to_tt: ranks and '
            'per-core accuracy', 'mode_size': n, 'tt_ranks': r, 'e': e,
            'cap': capv, 'qtt_ranks': rz, 'core_errors': errs,
            'core_bounds': [mm['bound'] for mm in models],
            'core_floors': [mm['floor'] for mm in models],
            'unfolding_numerical_ranks': [mm['numranks'] for mm in models],
            'accuracy_judged': bool(judged_all), 'cap_binds': bool(capbinds)})
        ctx.sample({'case': case, 'what': 'entry identity (same tensor)',
            'entries_compared': len(I), 'all_entries': bool(allent),
            'example_index': I[a].tolist(), 'example_bits': bits[a].tolist(),
            'get_Y_i_reference': float(vY[a]),
            'get_Z_bits_i_reference': float(vZ[a]),
            'teneva_get_Z_bits_i': float(teneva.get(Z, bits[a])),
            'teneva_get_back_i': float(teneva.get(B, I[a])),
            'entry_tolerance': None if D is None else float(D)})


def run_case(case, ctx):
    import teneva
    kind = case['kind']
    if kind == 'imap':
        run_imap(case, ctx, teneva)
    elif kind == 'imap-large':
        run_imap_large(case, ctx, teneva)
    elif kind == 'imap-reject':
        run_imap_reject(case, ctx, teneva)
    elif kind == 'reject':
        run_reject(case, ctx, teneva)
    else:
        run_conv(case, ctx, teneva)
