"""C12 — Chebyshev interpolation is exact on polynomials of degree < grid size.

A *model function* is generated as a functional tensor train

    f(x) = P_1(x_1) P_2(x_2) ... P_d(x_d),   P_k(x) an r_{k-1} x r_k matrix of
    polynomials of degree < n_k   (CP form = diagonal P_k, "any TT-rank")

with coefficients either in the monomial basis of the physical variable
(n <= 8) or in the Chebyshev basis of the scaled variable (n <= 40).  Its
values on the Chebyshev grid of a box [a, b] (nodes in longdouble, values by
`numpy.polynomial` in longdouble, rounded once to double) are handed to the
real teneva routines, and everything they return is compared with the exact
polynomial arithmetic (`polyval/chebval`, `polyint/chebint`, `polyder/chebder`
in longdouble).

Rounding model (all tolerances; S = 10 is the safety factor on top)
--------------------------------------------------------------------
beta_k  = sum_j |â_j| per entry of P_k, â = exact Chebyshev coefficients of the
          entry in the scaled variable (the numbers the code under test really
          sums: |T_j| <= 1 on the box); U = chain product of the beta_k
          matrices  >= |f| on the box and >= every partial sum formed.
kappa_k = |a_k + b_k| / (b_k - a_k): amplification of the rounding of
          s = (x - (a+b)/2) * (2/(b-a)), |ds| <= (kappa + 3) eps.
per core, relative to beta_k (n = n_k, r = r_k):
  (a) coefficients: one output of the length-n cosine sum carries
      |da_j| <= (n + 8) eps * ybar, ybar = (2/(n-1)) sum_i |y_i|, whatever the
      summation order (direct: (n/2 + 2) eps; FFT: ~3 log2(2n) eps per output
      relative to the 1-norm; the eps/2 of the input values included);
      ybar <= (2n/(n-1)) max|y| <= (2n/(n-1)) beta, so
      sum_j |da_j| <= 2 n^2 (n + 8)/(n - 1) * beta eps;
  (b) basis: three-term recurrence error <= 2 j^2 eps, argument sensitivity
      |T_j'| <= j^2 (Markov): sum_j |â_j| |dT_j| <= n^2 (kappa + 5) beta eps;
  (c) contraction over j and over the rank index: (n + r) eps / 2.
  => g_k = 2 n^2 (n+8)/(n-1) + n^2 (kappa_k + 5) + n + r
     tol = S eps (sum_k g_k) U
     (+ the error of the longdouble reference itself, LDEPS * n^2 * absbound).
integral: Clenshaw-Curtis weights sum to <= 3 in modulus, the scale is
  U * prod (b_k - a_k):  g_k = 3 n (n+8)/(n-1) + n/4 + r + 3.
coefficient tensors (TT vs dense transform): (a) only, for both routines:
  g_k = 4 n (n+8)/(n-1) + 2 relative to U.
differentiation matrices: ||D^(m)||_inf <= Lambda_n (2/(b-a))^m (n-1)^(2m)
  (Markov, Lebesgue constant Lambda_n <= 4 for n <= 60); entries and the
  matrix-vector product carry (n + 8) eps relative to the row sums, the
  recursion over the order adds a factor m:
  tol = S * 4 (n + 8) m * eps * beta * (2/(b-a))^m (n-1)^(2m)
  (worst ratio observed on ~3000 correct executions per run: < 0.01 of this
  tolerance; the other monitors stay below 0.02 of theirs — the model is a
  worst-case bound, any structural error is O(1) relative to U).
least squares in a user basis: backward error of LAPACK gelsd taken as
  n^2 eps ||H||, hence |dq| <= 2 n^2 cond(H) eps |q|; design matrices with
  cond(H) > 1e3 are *not judged* (the routine cuts singular values below
  1e-6 sigma_max by design; conditioning-dependent).
"""
import numpy as np
from numpy.polynomial import polynomial as P
from numpy.polynomial import chebyshev as Ch
from numpy.polynomial import legendre as Lg

from tvmon import gen, ref, sanit
from tvmon.ref import LD, EPS

PID = 'C12'
LEVEL = 'exploration'
RULE = ('functional tensor trains f = P_1(x_1)...P_d(x_d) with polynomial '
    'entries of degree < n_k (monomial basis n<=8 / Chebyshev basis n<=40, CP '
    'and full TT structure, ranks 1..4), boxes unit / symmetric / asymmetric '
    '/ far from the origin / mixed per dimension, d=2..5 (TT) and d=1..3 '
    '(dense); plus arbitrary TT data for the transform pair (cheb and sin), '
    '1-D polynomials for the differentiation matrices and user bases '
    '(monomial, shifted Legendre, Chebyshev) for the least-squares fit. '
    'Non-trivial = distinct (family, basis, structure, shape, ranks, box '
    'kind) where some n_k >= 3, the top-degree coefficient of that mode is '
    'non-zero and (for the polynomial families) the box is not [-1,1]^d or '
    'the rank is >= 2')
REQUIRED = {
    'get-inside': 100, 'get-boundary': 60, 'get-outside': 60,
    'get-single': 60, 'get-defaults': 10, 'gets': 60, 'gets-same-grid': 60,
    'sum': 60, 'int-full': 30, 'get-full': 40, 'get-full-outside': 30,
    'gets-full': 30, 'sum-full': 20, 'sum-full-rejects': 20,
    'tt-dense-agree': 30, 'diff': 60, 'inverse': 30, 'linear': 30,
    'sin-inverse': 30, 'sin-linear': 30, 'general': 30, 'general-get': 30,
    'general-callable': 30, 'shape': 100, 'get-far-integer-box': 100,
    'sum-long': 40}
REQUIRED_EVENTS = {'default-box': 5, 'gets-full-long-mode': 5}      # a = b = None was exercised
ASSUMPTIONS = [
    'numpy.polynomial (polyval, chebval, polyint, chebint, polyder, chebder) '
    'evaluated in numpy longdouble (64-bit mantissa) is the reference',
    'grid nodes are cos(pi i/(n-1)) (b-a)/2 + (a+b)/2 with index 0 at b '
    '(teneva.ind_to_poi kind="cheb"; decided by C18), computed here in '
    'longdouble; the values handed to teneva are rounded once to double',
    'tolerances: first-order rounding model in the module docstring with '
    'safety factor 10; least-squares cases with cond(H) > 1e3 are not judged',
    'func_get with skip_out unset/False and a point outside the box is not '
    'judged (clamping is implementation behaviour, the statement fixes only '
    'the fill value when skipping is on)']
SHARDS = {'quick': 12, 'thorough': 16}
BUDGET_S = {'quick': 240, 'thorough': 2400}   # headroom for a loaded machine

S = 10.
LDEPS = float(np.finfo(LD).eps)
PI = LD(4) * np.arctan(LD(1))

FAMS = ['tt', 'tt', 'tt', 'dense', 'dense', 'diff', 'lin', 'general']


def gen_cases(seed, tier):
    n = 30000 if tier == 'quick' else 600000
    rng = np.random.default_rng([seed, 112])
    # the family is drawn (not cycled) so that every shard sees them all
    seeds = rng.integers(1 << 62, size=n).tolist()
    fams = rng.integers(len(FAMS), size=n).tolist()
    big = tier != 'quick'
    out = [{'seed': s, 'fam': FAMS[f], 'big': big}
        for s, f in zip(seeds, fams)]
    nf = 240 if tier == 'quick' else 6000
    step = max(1, len(out) // nf)
    for j, s in enumerate(rng.integers(1 << 62, size=nf).tolist()):
        out.insert(j * step, {'seed': s, 'fam': 'farbox', 'big': big})
    nl = 60 if tier == 'quick' else 1500
    step = max(1, len(out) // nl)
    for j, s in enumerate(rng.integers(1 << 62, size=nl).tolist()):
        out.insert(j * step + 1, {'seed': s, 'fam': 'longsum', 'big': big})
    return out


_SAMPLED = set()


def sample_once(ctx, fam, obj, more=None):
    """One written-out case per family and worker (the evidence keeps few).

    `more` (other oracles of the same case) is written as a second sample
    when this is the very first case of the worker.
    """
    if fam not in _SAMPLED:
        _SAMPLED.add(fam)
        first = not ctx.samples
        ctx.sample(obj)
        if first and more is not None:
            head = {k: obj[k] for k in ('family', 'model') if k in obj}
            ctx.sample({**head, **more})


# ---- grids, boxes, models -----------------------------------------------------

def nodes_s(n):
    """Chebyshev nodes on [-1, 1] in longdouble, index 0 -> +1."""
    s = np.cos(PI * np.arange(n, dtype=LD) / LD(n - 1))
    s[0], s[-1] = LD(1), LD(-1)
    return s


def box_geom(a, b):
    a, b = LD(a), LD(b)
    return (b - a) / 2, (b + a) / 2


def nodes_x(n, a, b):
    hw, mid = box_geom(a, b)
    return nodes_s(n) * hw + mid


def gen_box(rng, d, kind=None):
    kinds = ['unit', 'sym', 'asym', 'offset', 'mixed', 'symmixed']
    kind = kind or kinds[int(rng.integers(len(kinds)))]
    a, b = [], []
    for k in range(d):
        kk = kind
        if kind == 'mixed':
            kk = ['unit', 'sym', 'asym', 'offset'][int(rng.integers(4))]
        if kind == 'symmixed':
            kk = ['unit', 'sym'][int(rng.integers(2))]
        if kk == 'unit':
            ak, bk = -1., 1.
        elif kk == 'sym':
            h = float(np.round(10. ** rng.uniform(-1, 1.5), 3))
            ak, bk = -h, h
        elif kk == 'asym':
            ak = float(rng.uniform(-3, 1))
            bk = ak + float(rng.uniform(0.5, 4))
        else:
            mid = float(rng.uniform(2, 20)) * (1 if rng.random() < .5 else -1)
            h = float(rng.uniform(0.2, 2))
            ak, bk = mid - h, mid + h
        a.append(ak)
        b.append(bk)
    if kind in ('unit', 'sym', 'asym', 'offset') and rng.random() < 0.3:
        a, b = [a[0]] * d, [b[0]] * d     # same bounds in every dimension
    return a, b, kind


def kappa(a, b):
    return [abs(x + y) / (y - x) for x, y in zip(a, b)]


class Model:
    """f(x) = prod_k P_k(x_k); coefficient cores C[k] of shape (r, n, r')."""

    def __init__(self, basis, C, a, b):
        self.basis, self.C, self.a, self.b = basis, C, list(a), list(b)
        self.d = len(C)
        self.n = [int(G.shape[1]) for G in C]
        self.r = [1] + [int(G.shape[2]) for G in C]
        self._beta = None

    def _cj(self, k):
        return np.moveaxis(self.C[k], 1, 0)          # (n, r, r')

    def scaled(self, k, x):
        hw, mid = box_geom(self.a[k], self.b[k])
        return (np.asarray(x, dtype=LD) - mid) / hw

    def core_vals(self, k, x):
        """P_k at physical points x (longdouble) -> (r, len(x), r')."""
        x = np.asarray(x, dtype=LD)
        if self.basis == 'mono':
            V = P.polyval(x, self._cj(k))
        else:
            V = Ch.chebval(self.scaled(k, x), self._cj(k))
        return np.moveaxis(np.asarray(V, dtype=LD), 2, 1)

    def core_abs(self, k, x):
        """Bound of the terms of the reference evaluation (its absbound)."""
        x = np.asarray(x, dtype=LD)
        if self.basis == 'mono':
            V = P.polyval(np.abs(x), np.abs(self._cj(k)))
            return np.moveaxis(np.asarray(V, dtype=LD), 2, 1)
        B = np.sum(np.abs(self.C[k]), axis=1)
        return np.repeat(B[:, None, :], len(x), axis=1)

    def core_der(self, k, x, m):
        x = np.asarray(x, dtype=LD)
        if self.n[k] <= m:
            return np.zeros((self.r[k], len(x), self.r[k + 1]), dtype=LD)
        if self.basis == 'mono':
            V = P.polyval(x, P.polyder(self._cj(k), m))
        else:
            hw, _ = box_geom(self.a[k], self.b[k])
            V = Ch.chebval(self.scaled(k, x), Ch.chebder(self._cj(k), m)) \
                / hw ** m
        return np.moveaxis(np.asarray(V, dtype=LD), 2, 1)

    def core_int(self, k):
        """(integral over [a_k, b_k] of P_k, absbound of the reference)."""
        a, b = LD(self.a[k]), LD(self.b[k])
        cj = self._cj(k)
        if self.basis == 'mono':
            ci = P.polyint(cj)
            ends = np.array([a, b], dtype=LD)
            V = P.polyval(ends, ci)
            VA = P.polyval(np.abs(ends), np.abs(ci))
            return V[..., 1] - V[..., 0], VA[..., 1] + VA[..., 0]
        hw, _ = box_geom(a, b)
        ci = Ch.chebint(cj)
        ends = np.array([-1, 1], dtype=LD)
        V = Ch.chebval(ends, ci)
        return (V[..., 1] - V[..., 0]) * hw, \
            2 * np.sum(np.abs(ci), axis=0) * hw

    def cheb_abs(self):
        """beta_k matrices: sum_j |â_j| of the exact Chebyshev coefficients."""
        if self._beta is None:
            out = []
            for k in range(self.d):
                if self.basis == 'cheb':
                    A = self.C[k]
                else:
                    V = self.core_vals(k, nodes_x(self.n[k], self.a[k],
                        self.b[k]))
                    A = np.einsum('ji,rio->rjo', cheb_matrix(self.n[k]), V)
                out.append(np.sum(np.abs(A), axis=1))
            self._beta = out
        return self._beta

    def U(self):
        v = np.ones((1, 1), dtype=LD)
        for B in self.cheb_abs():
            v = v @ B
        return v[0, 0]

    def value_cores(self, n=None):
        """(double cores of the values on the n-grid, the same in longdouble)."""
        n = self.n if n is None else n
        VL = [self.core_vals(k, nodes_x(n[k], self.a[k], self.b[k]))
            for k in range(self.d)]
        return [np.ascontiguousarray(V, dtype=float) for V in VL], VL

    def f(self, X):
        """(f(X), absbound of the reference evaluation), X [samples, d]."""
        X = np.asarray(X, dtype=LD)
        return (chain([self.core_vals(k, X[:, k]) for k in range(self.d)]),
            chain([self.core_abs(k, X[:, k]) for k in range(self.d)]))

    def integral(self):
        v, va = np.ones((1, 1), dtype=LD), np.ones((1, 1), dtype=LD)
        for k in range(self.d):
            I, IA = self.core_int(k)
            v, va = v @ I, va @ IA
        return v[0, 0], va[0, 0]

    def g(self, kap=None):
        kap = kappa(self.a, self.b) if kap is None else kap
        return sum(g_core(self.n[k], kap[k], self.r[k + 1])
            for k in range(self.d))

    def g_sum(self):
        return sum(3 * m * (m + 8) / (m - 1) + m / 4 + self.r[k + 1] + 3
            for k, m in enumerate(self.n))

    def g_coef(self):
        return sum(4 * m * (m + 8) / (m - 1) + 2 for m in self.n)

    def referr(self, absb):
        return 4 * LDEPS * sum(m * m for m in self.n) * absb

    def tol_val(self, absb, kap=None, factor=1.):
        return factor * S * EPS * self.g(kap) * self.U() + self.referr(absb)

    def describe(self):
        return {'basis': self.basis, 'n': self.n, 'ranks': self.r,
            'a': self.a, 'b': self.b,
            'coefficients_core0': np.asarray(self.C[0], dtype=float)}


def g_core(n, kap, r):
    """Per-core error constant of the rounding model (module docstring)."""
    return 2. * n * n * (n + 8) / (n - 1) + n * n * (kap + 5.) + n + r


def chain(Vs):
    """Vs[k]: (r, samples, r') -> values (samples,) of the chain product."""
    Q = Vs[0][0]
    for V in Vs[1:]:
        Q = np.einsum('mr,rmq->mq', Q, V)
    return Q[:, 0]


def tt_at(Z, I):
    """Entries of the TT `Z` at multi-indices I in longdouble."""
    return chain([np.asarray(G, dtype=LD)[:, I[:, k], :]
        for k, G in enumerate(Z)])


_CM = {}


def cheb_matrix(n):
    """F with â = F y: exact DCT-I with halved ends (longdouble)."""
    if n not in _CM:
        i = np.arange(n, dtype=LD)
        F = np.cos(PI * np.outer(i, i) / LD(n - 1)) * (LD(2) / LD(n - 1))
        F[:, 0] /= 2
        F[:, -1] /= 2
        F[0, :] /= 2
        F[-1, :] /= 2
        _CM[n] = F
    return _CM[n]


_SM = {}


def sin_matrix(n):
    """F with â = F y for the sine kind (DST-I / (n+1)), longdouble."""
    if n not in _SM:
        i = np.arange(1, n + 1, dtype=LD)
        _SM[n] = np.sin(PI * np.outer(i, i) / LD(n + 1)) * (LD(2) / LD(n + 1))
    return _SM[n]


def gen_model(rng, d, basis, big=False, nmax=None, rmax=3, box=None,
        max_entries=None):
    if nmax is None:
        nmax = 8 if basis == 'mono' else (40 if big else 24)
    for _ in range(200):
        mode = rng.random()
        if mode < 0.2:
            n = [int(rng.integers(2, 4)) for _ in range(d)]
        elif mode < 0.35:
            n = [int(rng.integers(2, nmax + 1))] * d
        else:
            n = [int(rng.integers(2, nmax + 1)) for _ in range(d)]
        if max_entries is None or int(np.prod(n)) <= max_entries:
            break
    else:
        n = [2] * d
    struct = 'cp' if rng.random() < 0.4 else 'tt'
    if struct == 'cp':
        R = int(rng.integers(1, rmax + 2))
        r = [1] + [R] * (d - 1) + [1]
    else:
        r = gen.rand_ranks(rng, d, rmax)
    if rng.random() < 0.15:
        r = [1] * (d + 1)
    a, b, bkind = gen_box(rng, d, box)
    ckind = ['normal', 'normal', 'int', 'lowdeg', 'top'][int(rng.integers(5))]
    C = []
    for k in range(d):
        sh = (r[k], n[k], r[k + 1])
        if ckind == 'int':
            G = rng.integers(-3, 4, size=sh).astype(float)
        else:
            G = rng.normal(size=sh)
        if ckind == 'lowdeg' and n[k] > 2 and rng.random() < 0.6:
            G[:, int(rng.integers(1, n[k])):, :] = 0.   # degree < n_k - 1
        if ckind == 'top' and rng.random() < 0.5:
            G[:, :-1, :] *= 1e-3                          # top degree dominates
        if struct == 'cp' and r[k] == r[k + 1] and r[k] > 1:
            G = G * np.eye(r[k])[:, None, :]
        if basis == 'mono':
            # keep the terms c_j x^j comparable over the box
            M = max(abs(a[k]), abs(b[k]), 1e-3)
            G = G / (M ** np.arange(n[k]))[None, :, None]
        C.append(np.asarray(G, dtype=LD))
    mdl = Model(basis, C, a, b)
    mdl.struct, mdl.bkind, mdl.ckind = struct, bkind, ckind
    return mdl


def is_nontrivial(mdl):
    top = any(mdl.n[k] >= 3 and np.any(mdl.C[k][:, -1, :] != 0)
        for k in range(mdl.d))
    return top and (mdl.bkind != 'unit' or max(mdl.r) >= 2)


def as_arg(rng, v, kind=float):
    """A bound / size vector in one of the accepted forms."""
    same = all(x == v[0] for x in v)
    u = rng.random()
    if same and u < 0.5:
        return kind(v[0])
    if u < 0.75:
        return [kind(x) for x in v]
    return np.array(v, dtype=kind)


def inside_points(rng, a, b, m):
    d = len(a)
    X = np.empty((m, d))
    for k in range(d):
        X[:, k] = np.clip(a[k] + rng.random(m) * (b[k] - a[k]), a[k], b[k])
    return X


def boundary_points(rng, a, b, m):
    X = inside_points(rng, a, b, m)
    d = len(a)
    for i in range(m):
        ks = rng.choice(d, size=int(rng.integers(1, d + 1)), replace=False)
        if i == 0:
            ks = range(d)                     # a corner
        for k in ks:
            X[i, k] = a[k] if rng.random() < .5 else b[k]
    return X


def outside_points(rng, a, b, m):
    """Points with exactly one ... all coordinates outside; the rest inside."""
    X = inside_points(rng, a, b, m)
    d = len(a)
    for i in range(m):
        ks = [int(rng.integers(d))] if i % 3 else \
            rng.choice(d, size=int(rng.integers(1, d + 1)), replace=False)
        for k in ks:
            w = b[k] - a[k]
            how = int(rng.integers(3))
            if rng.random() < .5:
                X[i, k] = [np.nextafter(b[k], np.inf), b[k] + 1e-3 * w,
                    b[k] + 10 * w][how]
            else:
                X[i, k] = [np.nextafter(a[k], -np.inf), a[k] - 1e-3 * w,
                    a[k] - 10 * w][how]
    return X


def sample_idx(rng, m, k=300):
    if int(np.prod(m)) <= k:
        return ref.all_indices(m)
    I = np.stack([rng.integers(0, mk, size=k) for mk in m], axis=1)
    I[0] = 0
    I[1] = np.array(m) - 1
    return I


def grid_points(mdl, m, I):
    """Physical points (longdouble) of the multi-indices I of the m-grid."""
    X = np.empty(I.shape, dtype=LD)
    for k in range(mdl.d):
        X[:, k] = nodes_x(m[k], mdl.a[k], mdl.b[k])[I[:, k]]
    return X


# ---- the cases ---------------------------------------------------------------

def run_case(case, ctx):
    import teneva
    rng = np.random.default_rng(case['seed'])
    {'tt': case_tt, 'dense': case_dense, 'diff': case_diff, 'lin': case_lin,
        'general': case_general, 'farbox': case_farbox,
        'longsum': case_longsum}[case['fam']](
        case, ctx, teneva, rng)


def case_longsum(case, ctx, teneva, rng):
    """Many modes, boxes far from unit size, densities that compensate the
    volume (every one-dimensional factor integrates to about 1): the integral
    is an ordinary number although the volume alone under/overflows."""
    d = int(rng.integers(40, 121))
    lw = float(rng.choice([-1., 1.])) * float(rng.uniform(3, 6))
    w = 10.0 ** lw                                  # box width
    q = int(rng.integers(1, 3))                     # TT-rank
    n = [int(rng.integers(2, 5)) for _ in range(d)]
    a = [float(np.round(rng.uniform(-1, 1), 2)) * w for _ in range(d)]
    b = [x + w for x in a]
    A, ints = [], []
    for k in range(d):
        G = np.zeros((1 if k == 0 else q, n[k], 1 if k == d - 1 else q))
        I_ = np.zeros((G.shape[0], G.shape[2]), dtype=LD)
        for t in range(q):
            c = rng.normal(size=n[k]) * 0.2
            c[0] = 1. + 0.3 * rng.random()
            c = c / w                               # density ~ 1 / width
            G[0 if k == 0 else t, :, 0 if k == d - 1 else t] = c
            # int_{a}^{b} sum_j c_j T_j = (b - a) / 2 * sum_{j even} 2 c_j/(1-j^2)
            v = sum(LD(2) * LD(c[j]) / (1 - LD(j) ** 2) for j in
                range(0, n[k], 2)) * (LD(b[k]) - LD(a[k])) / 2
            I_[0 if k == 0 else t, 0 if k == d - 1 else t] = v
        A.append(G)
        ints.append(I_)
    want = ints[0]
    for M in ints[1:]:
        want = want @ M
    want = want[0, 0]
    same = rng.random() < 0.3
    if same:
        a, b = [a[0]] * d, [b[0]] * d
        # (the per-mode integrals depend on b - a only, which is unchanged)
    got = teneva.func_sum(A, a[0] if same else (a if rng.random() < 0.5 else
        np.array(a)), b[0] if same else (b if rng.random() < 0.5 else
        np.array(b)))
    tol = S * EPS * (4 * max(n) + q + 4) * d * abs(want)
    ctx.check('sum-long', bool(np.isfinite(got)) and abs(LD(got) - want) <= tol,
        lambda: f'func_sum over {d} modes, box width 1e{lw:.1f}, densities of '
        f'size 1/width: got {got!r}, the integral is {float(want)!r} '
        f'(volume alone = 1e{lw * d:.0f})', ranks=q)
    ctx.nontrivial(['longsum', d, int(lw), q])


def case_farbox(case, ctx, teneva, rng):
    """Boxes far from the origin whose bounds are integers (time stamps,
    plate coordinates): a, b, a + b and b - a are exact in double, so the
    map to [-1, 1] of an exactly given point carries only ~2 ulp of error and
    'up to rounding' does not involve kappa = |a + b| / (b - a).  Reference:
    exact rational arithmetic on the same doubles."""
    from fractions import Fraction as Fr
    d = int(rng.integers(1, 4))
    n = [int(rng.integers(2, 10)) for _ in range(d)]
    r = gen.rand_ranks(rng, d, 2)
    A = gen.cores(rng, n, r, 'int' if rng.random() < 0.3 else 'normal')
    m = int(rng.integers(1, 5))
    a, b = [], []
    for k in range(d):
        w = int(rng.integers(1, 1001))
        lo = int(rng.integers(1 << 20, 1 << 40)) * int(rng.choice([-1, 1]))
        a.append(float(lo))
        b.append(float(lo + w))
    same = rng.random() < 0.4
    if same:
        a, b = [a[0]] * d, [b[0]] * d
    X = np.empty((m, d))
    for k in range(d):
        X[:, k] = np.clip(a[k] + rng.random(m) * (b[k] - a[k]), a[k], b[k])
    if rng.random() < 0.3:
        X[0] = [a[k] if rng.random() < 0.5 else b[k] for k in range(d)]
    # exact reference
    want, absb = [], []
    for x in X:
        v = [[Fr(1)]]
        va = np.ones((1, 1), dtype=LD)
        for k in range(d):
            t = (Fr(float(x[k])) - (Fr(a[k]) + Fr(b[k])) / 2) * 2 / \
                (Fr(b[k]) - Fr(a[k]))
            T = [Fr(1), t]
            for j in range(2, n[k]):
                T.append(2 * t * T[-1] - T[-2])
            G = A[k]
            M = [[sum(Fr(float(G[p, j, q])) * T[j] for j in range(n[k]))
                for q in range(G.shape[2])] for p in range(G.shape[0])]
            v = [[sum(v[0][p] * M[p][q] for p in range(len(M)))
                for q in range(len(M[0]))]]
            va = va @ np.sum(np.abs(np.asarray(G, dtype=LD)), axis=1)
        want.append(v[0][0])
        absb.append(float(va[0, 0]))
    aa = a[0] if same and rng.random() < 0.5 else (list(a) if rng.random() < .5
        else np.array(a))
    bb = b[0] if not isinstance(aa, (list, np.ndarray)) else (list(b)
        if isinstance(aa, list) else np.array(b))
    snap = sanit.Snapshot([A, X])
    got = np.asarray(teneva.func_get(X.copy(), A, aa, bb), dtype=float)
    got1 = float(teneva.func_get(X[0].copy(), A, aa, bb))
    advisory_unchanged(ctx, snap.diff() is None)
    nn = max(n)
    for i in range(m):
        # 2 ulp on t, amplified by |T_j'| <= j^2, plus recurrence and
        # contraction: S (4 n^2 + n + r) d eps relative to prod_k sum_j |A_k|
        tol = S * (4 * nn * nn + nn + 2) * d * EPS * absb[i]
        err = abs(float(Fr(float(got[i])) - want[i]))
        if tol > 0:
            ctx.margins['get-far-integer-box'] = max(ctx.margins.get(
                'get-far-integer-box', 0.), err / tol)
        ctx.check('get-far-integer-box', err <= tol, lambda: 'func_get on an '
            f'integer box far from the origin a = {a}, b = {b}: value at the '
            f'exactly given point {X[i].tolist()} is off by {err:.3e} '
            f'(tolerance {tol:.3e}, sum|coeff| bound {absb[i]:.3e}): not '
            '"up to rounding" of exactly representable inputs')
    err = abs(float(Fr(got1) - want[0]))
    tol = S * (4 * nn * nn + nn + 2) * d * EPS * absb[0]
    ctx.check('get-far-integer-box', err <= tol, lambda: 'func_get (single '
        f'point) on a far integer box: off by {err:.3e} (tolerance {tol:.3e})')
    if max(n) >= 3:
        ctx.nontrivial(['farbox', d, tuple(n), same])


def advisory_unchanged(ctx, same):
    """Argument mutation is C09's subject: counted, never judged here."""
    ctx.event('advisory:arguments-unchanged' if same
        else 'advisory:ARGUMENT-MODIFIED')


def well(ctx, Z, n, what):
    why = ref.wellformed(Z, n, finite=True)
    return ctx.check('shape', why is None, f'{what}: malformed TT: {why}')


def case_tt(case, ctx, teneva, rng):
    big = case['big']
    d = int(rng.integers(2, 6))
    basis = 'mono' if rng.random() < 0.5 else 'cheb'
    mdl = gen_model(rng, d, basis, big)
    a, b, n = mdl.a, mdl.b, mdl.n
    Y, _ = mdl.value_cores()
    snap = sanit.Snapshot(Y)
    A = teneva.func_int(Y)
    if not well(ctx, A, n, 'func_int'):
        return
    Ause = [G.copy() for G in A]

    # --- func_get: inside / boundary / outside in one batch, fill value z
    mi, mb, mo = 12, 6, 8
    X = np.vstack([inside_points(rng, a, b, mi), boundary_points(rng, a, b, mb),
        outside_points(rng, a, b, mo)])
    # the nodes themselves are points of the box
    X[1] = [float(nodes_x(n[k], a[k], b[k])[int(rng.integers(n[k]))])
        for k in range(d)]
    X[1] = np.clip(X[1], a, b)
    z = float(rng.choice([0., -7.5, 1e6, 3.25, 2., -1.]))
    if z == int(z) and abs(z) < 100 and rng.random() < 0.6:
        z = int(z)       # integer-typed fill value (documented default is 0.)
    kw = {} if z == 0 and rng.random() < .5 else {'z': z}
    fa, fb = as_arg(rng, a), as_arg(rng, b)
    y = teneva.func_get(X, Ause, fa, fb, **kw)
    fX, fabs = mdl.f(X[:mi + mb])
    tol = mdl.tol_val(fabs)
    ok_shape = isinstance(y, np.ndarray) and y.shape == (len(X),)
    if ctx.check('shape', ok_shape, f'func_get returned {type(y).__name__} '
            f'of shape {getattr(y, "shape", None)} for {len(X)} points'):
        ctx.close('get-inside', y[:mi], fX[:mi], tol[:mi],
            'func_get at points inside the box', box=[a, b], n=n,
            basis=basis)
        ctx.close('get-boundary', y[mi:mi + mb], fX[mi:], tol[mi:],
            'func_get at points on the boundary of the box', box=[a, b], n=n)
        out = y[mi + mb:]
        ctx.check('get-outside', bool(np.all(out == z)),
            'points outside the box did not receive the fill value',
            z=z, got=out, points=X[mi + mb:], box=[a, b])
    # explicit skip_out=False on inside points / skip_out=True
    Xi = X[:mi + mb]
    y2 = teneva.func_get(Xi, Ause, fa, fb, z=z, skip_out=False)
    ctx.close('get-inside', y2, fX, tol, 'func_get(skip_out=False), inside')
    y3 = teneva.func_get(X[mi + mb - 2:], Ause, a, b, z=z, skip_out=True)
    ctx.check('get-outside', bool(np.all(y3[2:] == z)) and
        bool(np.all(np.abs(y3[:2] - fX[-2:]) <= tol[-2:])),
        'func_get(skip_out=True): outside != z or boundary point skipped',
        z=z, got=y3, ref_first_two=fX[-2:])
    # single point (1-D input -> scalar)
    for i in (0, mi, mi + mb):
        y1 = teneva.func_get(X[i], Ause, a, b, z=z)
        want = fX[i] if i < mi + mb else LD(z)
        t1 = tol[i] if i < mi + mb else 0.
        ctx.check('get-single', np.ndim(y1) == 0 and
            bool(abs(LD(y1) - want) <= t1),
            'func_get of a single 1-D point: not a scalar or wrong value',
            got=y1, ref=want, tol=t1, point=X[i])
    # a = b = None means the box [-1, 1]^d
    if all(x == -1. for x in a) and all(x == 1. for x in b):
        y4 = teneva.func_get(Xi, Ause)
        ctx.close('get-defaults', y4, fX, tol, 'func_get(X, A) on [-1,1]^d')
        y5 = teneva.func_get(X, Ause, z=z, skip_out=True)
        ctx.check('get-defaults', bool(np.all(y5[mi + mb:] == z)) and
            bool(np.all(np.abs(y5[:mi + mb] - fX) <= tol)),
            'func_get(X, A, skip_out=True) with default bounds',
            got=y5, z=z)
        ctx.event('default-box')

    # --- func_gets on a new grid
    mx = 60 if big else 30
    m = [int(rng.integers(2, mx + 1)) for _ in range(d)]
    u = rng.random()
    if u < 0.15:
        m = [m[0]] * d
        marg = m[0] if rng.random() < .7 else float(m[0])
    elif u < 0.3:
        m = [n[k] + int(rng.integers(-1, 2)) for k in range(d)]
        m = [max(2, x) for x in m]
        marg = list(m)
    else:
        marg = list(m) if rng.random() < .5 else np.array(m)
    gets_s = None
    Z = teneva.func_gets(Ause, marg)
    if well(ctx, Z, m, f'func_gets(m={m})'):
        I = sample_idx(rng, m)
        fG, fGabs = mdl.f(grid_points(mdl, m, I))
        ZI = tt_at(Z, I)
        ctx.close('gets', ZI, fG, mdl.tol_val(fGabs, [0.] * d),
            'func_gets on a new grid vs f on that grid', m=m, n=n, box=[a, b])
        gets_s = {'multi_index': I[-1], 'observed': float(ZI[-1]),
            'f_at_that_node': float(fG[-1])}
    Z0 = teneva.func_gets(Ause)
    if well(ctx, Z0, n, 'func_gets(m=None)'):
        I = sample_idx(rng, n)
        fG, fGabs = mdl.f(grid_points(mdl, n, I))
        ctx.close('gets-same-grid', tt_at(Z0, I), fG,
            mdl.tol_val(fGabs, [0.] * d),
            'func_gets(func_int(Y)) vs the values on the original grid', n=n)

    # --- func_sum: exact integral for any box
    ex, exabs = mdl.integral()
    vol = float(np.prod([y_ - x_ for x_, y_ in zip(a, b)]))
    tsum = S * EPS * mdl.g_sum() * mdl.U() * vol + mdl.referr(exabs)
    got = teneva.func_sum(Ause, as_arg(rng, a), as_arg(rng, b))
    ctx.close('sum', got, ex, tsum, 'func_sum vs the exact integral over '
        'the box', box=[a, b], n=n, basis=basis)
    ctx.check('shape', np.ndim(got) == 0, 'func_sum did not return a scalar')

    d_in = snap.diff()
    advisory_unchanged(ctx, not d_in and all(np.array_equal(g, h)
        for g, h in zip(A, Ause)))
    if is_nontrivial(mdl):
        ctx.nontrivial(['tt', basis, mdl.struct, n, mdl.r, mdl.bkind])
    sample_once(ctx, 'tt', {'family': 'tt', 'model': mdl.describe(),
        'structure': mdl.struct, 'box_kind': mdl.bkind,
        'point_inside': X[0], 'func_get_observed': float(y[0]),
        'f_reference': float(fX[0]), 'tolerance': float(tol[0]),
        'point_outside': X[-1], 'fill_value': z,
        'func_get_outside_observed': float(y[-1])},
        more={'oracle': 'func_sum / func_gets', 'func_sum_observed':
        float(got), 'integral_reference': float(ex),
        'integral_tolerance': float(tsum), 'new_grid_sizes': m,
        'func_gets_entry': gets_s})


def case_dense(case, ctx, teneva, rng):
    big = case['big']
    d = int(rng.integers(1, 4))
    basis = 'mono' if rng.random() < 0.5 else 'cheb'
    box = None
    if rng.random() < 0.45:
        box = ['unit', 'sym', 'symmixed'][int(rng.integers(3))]
    cap = 4000 if big else 1500
    mdl = gen_model(rng, d, basis, big, box=box, max_entries=cap,
        rmax=2 if d > 1 else 1)
    a, b, n = mdl.a, mdl.b, mdl.n
    Y, YL = mdl.value_cores()
    Yd = np.ascontiguousarray(ref.dense_ld(YL), dtype=float)
    Yd0 = Yd.copy()
    Ad = teneva.func_int_full(Yd)
    if not ctx.check('shape', isinstance(Ad, np.ndarray) and
            Ad.shape == tuple(n) and bool(np.all(np.isfinite(Ad))),
            f'func_int_full: result of shape {getattr(Ad, "shape", None)} '
            f'for n={n} or non-finite'):
        return
    U = mdl.U()
    tcoef = S * EPS * mdl.g_coef() * U
    Att = None
    if d >= 2:
        Att = teneva.func_int(Y)
        if well(ctx, Att, n, 'func_int'):
            ctx.close('int-full', Ad, ref.dense_ld(Att), tcoef,
                'func_int_full(full(Y)) vs full(func_int(Y))', n=n)
        else:
            Att = None

    # --- func_get_full (2-D X only)
    mi, mb, mo = 10, 5, 6
    X = np.vstack([inside_points(rng, a, b, mi), boundary_points(rng, a, b, mb),
        outside_points(rng, a, b, mo)])
    z = float(rng.choice([0., -7.5, 1e6, 3.]))
    if z == int(z) and abs(z) < 100 and rng.random() < 0.5:
        z = int(z)
    fa, fb = as_arg(rng, a), as_arg(rng, b)
    y = teneva.func_get_full(X, Ad, fa, fb, z)
    fX, fabs = mdl.f(X[:mi + mb])
    tol = mdl.tol_val(fabs)
    if ctx.check('shape', isinstance(y, np.ndarray) and y.shape == (len(X),),
            'func_get_full: wrong result shape'):
        ctx.close('get-full', y[:mi + mb], fX, tol, 'func_get_full at points '
            'inside / on the boundary of the box', box=[a, b], n=n)
        ctx.check('get-full-outside', bool(np.all(y[mi + mb:] == z)),
            'func_get_full: points outside the box did not receive z', z=z,
            got=y[mi + mb:], points=X[mi + mb:], box=[a, b])
        if Att is not None:
            yt = teneva.func_get(X, Att, fa, fb, z=z)
            ctx.close('tt-dense-agree', y, yt, np.concatenate([2 * tol,
                np.zeros(mo)]), 'func_get_full vs func_get on the same points')
    ys = teneva.func_get_full(X[:mi + mb], Ad, a, b, z, skip_out=False)
    ctx.close('get-full', ys, fX, tol, 'func_get_full(skip_out=False), inside')
    # fill values that are not finite (NaN marks "no value" in most pipelines)
    zn = [np.nan, np.inf, -np.inf][int(rng.integers(3))]
    yn = np.asarray(teneva.func_get_full(X, Ad, fa, fb, zn))
    if ctx.check('shape', yn.shape == (len(X),), 'func_get_full(z non-finite)'
            ': wrong result shape'):
        ctx.close('get-full', yn[:mi + mb], fX, tol, f'func_get_full with '
            f'fill value {zn}: points inside the box', box=[a, b], n=n)
        out = yn[mi + mb:]
        ctx.check('get-full-outside', bool(np.all(np.isnan(out)) if
            np.isnan(zn) else np.all(out == zn)), f'func_get_full: points '
            f'outside the box did not receive the fill value {zn}', got=out)
    if Att is not None:
        ytn = np.asarray(teneva.func_get(X, Att, fa, fb, z=zn))
        ctx.close('get-inside', ytn[:mi + mb], fX, tol, f'func_get with fill '
            f'value {zn}: points inside the box')
        ctx.check('get-outside', bool(np.all(np.isnan(ytn[mi + mb:])) if
            np.isnan(zn) else np.all(ytn[mi + mb:] == zn)), f'func_get: '
            f'points outside did not receive the fill value {zn}')

    # --- func_gets_full on a new grid (explicit loop over all points inside)
    for _ in range(50):
        m = [int(rng.integers(2, (20 if d == 1 else 9) + 1)) for _ in range(d)]
        if int(np.prod(m)) <= 400:
            break
    else:
        m = [2] * d
    u = rng.random()
    if u < 0.2:
        m, marg = list(n), None
    elif u < 0.35:
        m = [m[0]] * d
        marg = m[0]
    else:
        marg = list(m) if rng.random() < .5 else np.array(m)
    if int(np.prod(m)) <= 1500:
        Zd = teneva.func_gets_full(Ad, fa, fb, marg)
        if ctx.check('shape', isinstance(Zd, np.ndarray) and
                Zd.shape == tuple(m), f'func_gets_full: shape '
                f'{getattr(Zd, "shape", None)} for m={m}'):
            I = ref.all_indices(m)
            fG, fGabs = mdl.f(grid_points(mdl, m, I))
            tg = mdl.tol_val(fGabs, [0.] * d)
            ctx.close('gets-full', Zd[tuple(I.T)], fG, tg,
                'func_gets_full vs f on the new grid', m=m, n=n)
            if Att is not None:
                Zt = teneva.func_gets(Att, marg)
                if well(ctx, Zt, m, 'func_gets'):
                    ctx.close('tt-dense-agree', Zd[tuple(I.T)], tt_at(Zt, I),
                        2 * tg, 'func_gets_full vs full(func_gets)')

    # --- the same on a new grid with one long mode (130..600 nodes: index
    # arithmetic past the int8 / uint8 ranges, nodes much denser than the
    # coefficients), the other modes short
    if rng.random() < 0.35:
        ml = [2] * d
        ml[int(rng.integers(d))] = int(rng.integers(130, 256)) if \
            rng.random() < 0.6 else int(rng.integers(256, 601))
        Zl = teneva.func_gets_full(Ad, fa, fb, list(ml))
        if ctx.check('shape', isinstance(Zl, np.ndarray) and
                Zl.shape == tuple(ml), f'func_gets_full: shape '
                f'{getattr(Zl, "shape", None)} for m={ml}'):
            I = ref.all_indices(ml)
            fG, fGabs = mdl.f(grid_points(mdl, ml, I))
            ctx.close('gets-full', Zl[tuple(I.T)], fG, mdl.tol_val(fGabs,
                [0.] * d), 'func_gets_full vs f on a new grid with a long '
                'mode', m=ml, n=n)
            ctx.event('gets-full-long-mode')

    # --- func_sum_full: exact for a = -b, ValueError otherwise
    ex, exabs = mdl.integral()
    vol = float(np.prod([y_ - x_ for x_, y_ in zip(a, b)]))
    tsum = S * EPS * mdl.g_sum() * U * vol + mdl.referr(exabs)
    sym = all(x == -y_ for x, y_ in zip(a, b))
    asym = any(abs(x + y_) > 1e-3 * (y_ - x) for x, y_ in zip(a, b))
    got = None
    try:
        got = teneva.func_sum_full(Ad, fa, fb)
        raised = False
    except ValueError:
        raised = True
    if sym:
        if ctx.check('sum-full', not raised, 'func_sum_full raised '
                'ValueError for a symmetric box', box=[a, b]):
            ctx.close('sum-full', got, ex, tsum, 'func_sum_full vs the '
                'exact integral (symmetric box)', box=[a, b], n=n)
            if Att is not None:
                ctx.close('tt-dense-agree', got, teneva.func_sum(Att, fa, fb),
                    2 * tsum, 'func_sum_full vs func_sum')
    elif asym:
        ctx.check('sum-full-rejects', raised, 'func_sum_full accepted a '
            'box that is not symmetric instead of raising ValueError',
            box=[a, b], returned=got, exact_integral=float(ex))
    else:
        ctx.skip('sum-full-rejects', 'nearly-symmetric-box')
    # boxes that are asymmetric per dimension but whose centres cancel over
    # the dimensions (a = [-1, -3], b = [3, 1]) or whose bounds are permuted
    # copies of a symmetric box: still not of the form a = -b
    if d >= 2:
        sh = [float(np.round(rng.uniform(0.5, 3), 2)) for _ in range(d)]
        sh[-1] = -float(sum(sh[:-1]))
        hw = [abs(x) + float(np.round(rng.uniform(0.5, 2), 2)) for x in sh]
        a2 = [c_ - h_ for c_, h_ in zip(sh, hw)]
        b2 = [c_ + h_ for c_, h_ in zip(sh, hw)]
        if rng.random() < 0.5:
            a2, b2 = np.array(a2), np.array(b2)
        try:
            got2 = teneva.func_sum_full(Ad, a2, b2)
            ctx.viol('sum-full-rejects', 'func_sum_full accepted a box whose '
                'per-dimension centres are non-zero but sum to zero',
                box=[list(a2), list(b2)], returned=got2)
        except ValueError:
            ctx.held('sum-full-rejects')
        ctx.event('sum-full-cancelling-centres')
    if d >= 2 and Att is not None:
        ctx.close('sum', teneva.func_sum(Att, fa, fb), ex, tsum,
            'func_sum vs the exact integral', box=[a, b], n=n)

    advisory_unchanged(ctx, np.array_equal(Yd, Yd0))
    if is_nontrivial(mdl):
        ctx.nontrivial(['dense', basis, mdl.struct, n, mdl.r, mdl.bkind])
    sample_once(ctx, 'dense', {'family': 'dense', 'model': mdl.describe(),
        'box_kind': mdl.bkind, 'point': X[0],
        'func_get_full_observed': float(y[0]), 'f_reference': float(fX[0]),
        'tolerance': float(tol[0])},
        more={'oracle': 'func_sum_full', 'symmetric_box': sym,
        'func_sum_full': 'ValueError' if raised else float(got),
        'integral_reference': float(ex), 'integral_tolerance': float(tsum)})


def case_diff(case, ctx, teneva, rng):
    big = case['big']
    basis = 'mono' if rng.random() < 0.4 else 'cheb'
    mdl = gen_model(rng, 1, basis, big, rmax=1)
    a, b, n = mdl.a[0], mdl.b[0], mdl.n[0]
    m = int(rng.integers(1, 4))
    x = nodes_x(n, a, b)
    y = np.asarray(mdl.core_vals(0, x)[0, :, 0], dtype=float)
    narg = n if rng.random() < .7 else float(n)
    D = teneva.func_diff_matrix(a, b, narg, m)
    if m == 1:
        ok = isinstance(D, np.ndarray) and D.shape == (n, n)
        D = [D]
    else:
        ok = isinstance(D, list) and len(D) == m and all(
            isinstance(Q, np.ndarray) and Q.shape == (n, n) for Q in D)
    if not ctx.check('shape', ok, f'func_diff_matrix(n={n}, m={m}): wrong '
            'structure of the result'):
        return
    beta = float(mdl.U())
    hw, _ = box_geom(a, b)
    worst = None
    for q in range(1, m + 1):
        want = mdl.core_der(0, x, q)[0, :, 0]
        tol = S * 4 * (n + 8) * q * EPS * beta * float(1 / hw) ** q \
            * (n - 1) ** (2 * q) + mdl.referr(beta * float(1 / hw) ** q
            * (n - 1) ** (2 * q))
        got = D[q - 1] @ y
        ctx.close('diff', got, want, tol, f'func_diff_matrix order {q} '
            'applied to node values vs the exact derivative', n=n, a=a, b=b,
            basis=basis)
        worst = (q, float(np.max(np.abs(got - want))), float(tol))
    if n >= 3 and mdl.C[0][0, -1, 0] != 0:
        ctx.nontrivial(['diff', basis, n, m, mdl.bkind])
    sample_once(ctx, 'diff', {'family': 'diff', 'model': mdl.describe(),
        'orders': m, 'highest_order (order, max error, tolerance)': worst},
        more={'oracle': 'func_diff_matrix order 1', 'node_values': y,
        'D1_times_values': D[0] @ y,
        'exact_derivative': np.asarray(mdl.core_der(0, x, 1)[0, :, 0],
        dtype=float)})


def join(alpha, Y1, beta, Y2):
    """TT of alpha*Y1 + beta*Y2 by block structure (own construction)."""
    d = len(Y1)
    out = []
    for k in range(d):
        G1, G2 = Y1[k], Y2[k]
        if k == 0:
            G1, G2 = alpha * G1, beta * G2
        if d == 1:
            out.append(G1 + G2)
        elif k == 0:
            out.append(np.concatenate([G1, G2], axis=2))
        elif k == d - 1:
            out.append(np.concatenate([G1, G2], axis=0))
        else:
            r1, n, r2 = G1.shape
            q1, _, q2 = G2.shape
            G = np.zeros((r1 + q1, n, r2 + q2))
            G[:r1, :, :r2] = G1
            G[r1:, :, r2:] = G2
            out.append(G)
    return out


def coef_abs(Y, F):
    """beta_k matrices of arbitrary data cores with transform matrix F(n)."""
    out = []
    for G in Y:
        A = np.einsum('ji,rio->rjo', F(G.shape[1]), np.asarray(G, dtype=LD))
        out.append(np.sum(np.abs(A), axis=1))
    return out


def chain_mats(Bs):
    v = np.ones((1, 1), dtype=LD)
    for B in Bs:
        v = v @ B
    return v[0, 0]


def case_lin(case, ctx, teneva, rng):
    big = case['big']
    fam = gen.FAMILIES[int(rng.integers(len(gen.FAMILIES)))]
    if fam == 'mode1':
        fam = 'generic'
    Y, info = gen.make_tt(rng, fam, dmin=2, dmax=4, nmin=2,
        nmax=12 if big else 9, rmax=3, max_entries=3000 if big else 1500)
    n = info['n']
    d = len(n)
    r2 = gen.rand_ranks(rng, d, 3)
    Y2 = gen.cores(rng, n, r2, 'int' if fam == 'int' else 'normal')
    al, be = float(np.round(rng.normal() * 2, 2)), \
        float(np.round(rng.normal() * 2, 2))
    if rng.random() < 0.2:
        al, be = 1., -1.
    W = join(al, Y, be, Y2)
    snap = sanit.Snapshot([Y, Y2, W])
    for kind, F, mi, ml in (('cheb', cheb_matrix, 'inverse', 'linear'),
            ('sin', sin_matrix, 'sin-inverse', 'sin-linear')):
        kw = {} if kind == 'cheb' and rng.random() < .5 else {'kind': kind}
        A = teneva.func_int(Y, **kw)
        A2 = teneva.func_int(Y2, **kw)
        AW = teneva.func_int(W, **kw)
        if not (well(ctx, A, n, 'func_int') and well(ctx, A2, n, 'func_int')
                and well(ctx, AW, n, 'func_int')):
            continue
        ctx.check('shape', ref.ranks_of(A) == ref.ranks_of(Y),
            'func_int changed the TT-ranks')
        # inverse: re-sampling on the same grid gives the data back
        UY = chain_mats(coef_abs(Y, F))
        g = sum(g_core(n[k], 0., ref.ranks_of(Y)[k + 1]) for k in range(d))
        Z = teneva.func_gets(A, **({'kind': kind} if kind == 'sin' or
            rng.random() < .5 else {}))
        if well(ctx, Z, n, 'func_gets'):
            ctx.close(mi, ref.dense_ld(Z), ref.dense_ld(Y), S * EPS * g * UY,
                f'func_gets(func_int(Y, {kind}), {kind}) vs Y', n=n)
        if kind == 'sin':
            Z1 = teneva.func_gets(A, list(n), kind='sin')
            if well(ctx, Z1, n, 'func_gets'):
                ctx.close(mi, ref.dense_ld(Z1), ref.dense_ld(Y),
                    S * EPS * g * UY, 'func_gets(..., m=n, sin) vs Y', n=n)
        # linearity of the coefficient transform (as tensors)
        # per core |da_j| <= (n + 8) eps ybar (model (a)), + 2 for the
        # rounding of alpha*G, beta*G in W; the scale of the coefficient
        # tensor is the chain of ybar = (2/(n-1)) sum_i |y_i|
        def ybar(T):
            return chain_mats([2 * np.sum(np.abs(np.asarray(G, dtype=LD)),
                axis=1) / max(1, G.shape[1] - 1) for G in T])
        gl = sum(n[k] + 8 + 2 for k in range(d))
        tl = S * EPS * gl * (ybar(W) + abs(al) * ybar(Y) + abs(be) * ybar(Y2))
        ctx.close(ml, ref.dense_ld(AW), al * ref.dense_ld(A)
            + be * ref.dense_ld(A2), tl,
            f'func_int(a Y + b Z, {kind}) vs a func_int(Y) + b func_int(Z)',
            alpha=al, beta=be, n=n)
    dd = snap.diff()
    advisory_unchanged(ctx, not dd)
    if max(n) >= 3 and max(ref.ranks_of(Y)) >= 2:
        ctx.nontrivial(['lin', n, ref.ranks_of(Y), r2, fam])
    AWs = teneva.func_int(W, kind='sin')
    sample_once(ctx, 'lin', {'family': 'lin', 'shape': n,
        'ranks': ref.ranks_of(Y), 'ranks_second': r2, 'alpha': al, 'beta': be,
        'Y_entry_0': float(ref.dense_ld(Y).reshape(-1)[0]),
        'resampled_entry_0': float(ref.dense_ld(teneva.func_gets(
            teneva.func_int(Y))).reshape(-1)[0])},
        more={'oracle': 'linearity, sine kind', 'shape': n, 'alpha': al,
        'beta': be, 'coef_entry_0_of_combination':
        float(ref.dense_ld(AWs).reshape(-1)[0]),
        'combination_of_coef_entries_0': float(
            al * ref.dense_ld(teneva.func_int(Y, kind='sin')).reshape(-1)[0]
            + be * ref.dense_ld(teneva.func_int(Y2, kind='sin')).reshape(-1)[0])})


def make_basis(name, n, lo, hi):
    """basis(x) -> array [n, len(x)] (the func_basis convention)."""
    if name == 'mono':
        return lambda x: P.polyvander(np.asarray(x, dtype=float), n - 1).T
    if name == 'leg':
        return lambda x: Lg.legvander((2 * np.asarray(x, dtype=float)
            - lo - hi) / (hi - lo), n - 1).T
    return lambda x: Ch.chebvander((2 * np.asarray(x, dtype=float)
        - lo - hi) / (hi - lo), n - 1).T


def case_general(case, ctx, teneva, rng):
    d = int(rng.integers(2, 5))
    n = int(rng.integers(2, 8))
    name = ['mono', 'leg', 'cheb'][int(rng.integers(3))]
    if rng.random() < 0.4:
        lo, hi = -1., 1.
    else:
        lo = float(rng.uniform(-2, 0.5))
        hi = lo + float(rng.uniform(1, 3))
    if name == 'mono' and rng.random() < 0.45:
        # raw monomials on a one-sided / offset box: design matrices with
        # condition numbers 1e3..1e5, far inside what the default cut-off
        # rcond = 1e-6 of the least-squares fit keeps
        lo = float(rng.choice([0., 1., 2., 0.5]))
        hi = lo + float(rng.choice([1., 2.]))
        ctx.event('general-offset-monomials')
    basis = make_basis(name, n, lo, hi)
    same = rng.random() < 0.4
    # distinct points: jittered Chebyshev-like or uniform nodes in [lo, hi]
    def pts():
        if rng.random() < .5:
            t = np.cos(np.pi * (np.arange(n) + 0.5) / n)
        else:
            t = np.linspace(-1, 1, n) * 0.98
        t = t + rng.uniform(-0.3, 0.3, size=n) / n
        t = np.clip(t, -1, 1)
        # clipped: the affine map may round one ulp out of [lo, hi]
        return rng.permutation(np.clip((lo + hi) / 2 + t * (hi - lo) / 2,
            lo, hi))
    Xn = [pts()] * d if same else [pts() for _ in range(d)]
    H = [np.asarray(basis(x), dtype=float).T for x in Xn]     # [points, funcs]
    if any(len(set(x.tolist())) < n for x in Xn):
        ctx.skip('general', 'coincident-points')
        return
    cond = [float(np.linalg.cond(h)) for h in H]
    # (the routine's documented default rcond = 1e-6 discards directions
    # below 1e-6 of the largest singular value: beyond cond ~ 1e6 the fit is
    # not the interpolant by design; judged up to 1e5, a factor 10 inside)
    if max(cond) > 1e5:
        ctx.skip('general', 'ill-conditioned-design-matrix')
        return
    if max(cond) > 1e3:
        ctx.event('general-cond-1e3..1e5')
    struct = 'cp' if rng.random() < .4 else 'tt'
    r = gen.rand_ranks(rng, d, 3)
    if struct == 'cp':
        R = int(rng.integers(1, 4))
        r = [1] + [R] * (d - 1) + [1]
    if rng.random() < 0.3:
        r = [1] * (d + 1)          # all matricised cores are views (D8)
    Cq = []
    for k in range(d):
        G = rng.normal(size=(r[k], n, r[k + 1]))
        if struct == 'cp' and r[k] == r[k + 1] and r[k] > 1:
            G = G * np.eye(r[k])[:, None, :]
        Cq.append(G)
    # values Y_k = sum_j q_j phi_j(x_i) with the *same* double basis values
    YL = [np.einsum('ij,rjo->rio', H[k].astype(LD), Cq[k].astype(LD))
        for k in range(d)]
    Y = [np.ascontiguousarray(V, dtype=float) for V in YL]
    Ykeep = [G.copy() for G in Y]

    def fit(Xarg):
        try:
            A = teneva.func_int_general(Y, Xarg, basis)
        except Exception as ex:
            import traceback
            ctx.viol('general', 'func_int_general raised '
                f'{type(ex).__name__}: {ex}',
                traceback=traceback.format_exc()[-1500:], basis=name, n=n,
                d=d, ranks=r)
            return None
        if not well(ctx, A, [n] * d, 'func_int_general'):
            return None
        return A

    forms = []
    if same:
        forms.append(('1-D points', np.array(Xn[0])))
    forms.append(('2-D array', np.array(Xn)))
    forms.append(('list of lists', [x.tolist() for x in Xn]))
    # evaluation points and the exact model there
    m = 12
    Xe = inside_points(rng, [lo] * d, [hi] * d, m)
    Xe[0] = [Xn[k][0] for k in range(d)]
    Phi = [np.asarray(basis(Xe[:, k]), dtype=float).T for k in range(d)]
    fX = chain([np.einsum('ij,rjo->rio', Phi[k].astype(LD),
        Cq[k].astype(LD)) for k in range(d)])
    qn = [np.sqrt(np.sum(np.asarray(G, dtype=LD) ** 2, axis=1)) for G in Cq]
    pn = [np.sqrt(np.sum(Phi[k].astype(LD) ** 2, axis=1)) for k in range(d)]
    scale = chain([qn[k][:, None, :] * pn[k][None, :, None]
        for k in range(d)])
    g = sum(2 * n * n * cond[k] + n + r[k + 1] for k in range(d))
    tol = S * EPS * g * scale
    first = None
    for what, Xarg in forms[:2] if len(forms) > 2 and rng.random() < .5 \
            else forms:
        A = fit(Xarg)
        if A is None:
            continue
        # the fitted coefficients reproduce the function through func_get
        funcs = [basis] * d
        y = teneva.func_get(Xe, A, lo, hi, funcs=funcs)
        ctx.close('general', y, fX, tol, 'func_get(funcs=basis) of '
            f'func_int_general(Y, X as {what}) vs the function in the span',
            basis=name, n=n, d=d, cond=cond, ranks=r)
        if first is None:
            first = (what, float(y[1]), float(fX[1]), float(tol[1]))
            y1 = teneva.func_get(Xe, A, funcs=basis) \
                if lo == -1. and hi == 1. else \
                teneva.func_get(Xe, A, [lo] * d, np.array([hi] * d),
                funcs=basis)
            ctx.close('general-callable', y1, fX, tol, 'func_get with one '
                'callable for all modes')
            y0 = teneva.func_get(Xe[1], A, lo, hi, funcs=funcs)
            ctx.check('general-get', np.ndim(y0) == 0 and
                bool(abs(LD(y0) - fX[1]) <= tol[1]), 'single point with a '
                'user basis', got=y0, ref=fX[1])
            Xo = Xe[:3].copy()
            Xo[0, 0] = hi + 0.5
            Xo[1, d - 1] = lo - 1e-9
            yo = teneva.func_get(Xo, A, lo, hi, z=-3., funcs=funcs)
            ctx.check('general-get', yo[0] == -3. and yo[1] == -3. and
                bool(abs(LD(yo[2]) - fX[2]) <= tol[2]),
                'fill value / inside value with a user basis', got=yo)
    # advisory only (C09's subject): if a fit overwrote the caller's cores,
    # the *next* fit above worked on garbage and 'general' has fired
    advisory_unchanged(ctx, all(np.array_equal(g_, h_)
        for g_, h_ in zip(Y, Ykeep)))
    if n >= 3:
        ctx.nontrivial(['general', name, n, d, r, same, struct])
    sample_once(ctx, 'general', {'family': 'general', 'basis': name, 'n': n,
        'd': d, 'ranks': r, 'interval': [lo, hi], 'points_mode0': Xn[0],
        'cond_design': cond, 'first_fit (X form, observed, reference, tol)':
        first},
        more={'oracle': 'func_int_general, evaluation points', 'basis': name,
        'n': n, 'evaluation_point': Xe[2], 'reference': float(fX[2]),
        'tolerance': float(tol[2])})


# ---- evidence: which lines of the anchored functions were executed -----------

_COV = {}


def setup_worker(ctx):
    import teneva
    from tvmon import interpose
    names = ['func_basis', 'func_diff_matrix', 'func_get', 'func_gets',
        'func_int', 'func_int_general', 'func_sum', 'func_get_full',
        'func_gets_full', 'func_int_full', 'func_sum_full']
    try:
        cov = interpose.LineCov({k: getattr(teneva, k) for k in names})
        cov.__enter__()
        _COV['cov'] = cov
    except Exception as ex:                     # evidence only
        ctx.event(f'linecov-unavailable:{type(ex).__name__}')


def finish_worker(ctx):
    cov = _COV.pop('cov', None)
    if cov is None:
        return
    for name, (hit, total) in cov.report().items():
        ctx.event(f'lines {name} {hit}/{total}')
    cov.__exit__(None, None, None)
