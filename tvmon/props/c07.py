"""C07 — TT-ALS: descent, per-core optimality, restart, sample-order independence.

Monitors: (a) per-update contract interposed on als._optimize_core and
als_func._optimize_core (normal equations of every trained slice, untouched
slices byte-identical, local objective not increased); (b) objective
trajectory from the callback log / interposed teneva.accuracy; (c) end state
(shape, ranks, independent optimality of the last-updated core); (d) restart
splittings; (e) permutations; (f) contract (ValueError, info, cb stop);
(g) rank-adaptive mode under np.empty poison.
"""
import inspect

import numpy as np
from numpy.polynomial import chebyshev as Ch

from tvmon import core, gen, ref, sanit
from tvmon.ref import EPS, LD
from tvmon.interpose import installed

PID = 'C07'
LEVEL = 'exploration'
RULE = ('training sets of 1..60 samples with duplicates and constructed '
    'layouts in which a slice is covered by a single sample at row 0 / last '
    'row / middle; weights on/off; lamb in 1e-4..1; d=2..5, mode sizes 1..5, '
    'ranks 1..4; all splittings a+b of nswp<=5; 3 permutations; als_func with '
    'points in [a,b]^d, mode sizes 2..6, thr_pow=0; rank-adaptive runs under '
    'NaN / 1e300 poison of np.empty; non-trivial = distinct scenarios with '
    '>= 2 sweeps and (rank >= 2 or a row-0 singleton layout)')
REQUIRED = {'update-optimal': 2000, 'update-untouched': 150,
    'update-local-descent': 2000, 'descent': 150, 'shape-ranks': 200,
    'end-optimal': 200, 'restart': 200, 'permutation': 200, 'reject': 60,
    'info': 200, 'cb-stop': 60, 'adaptive': 40, 'adaptive-stab': 20, 'f-update-optimal': 500,
    'f-descent': 100, 'f-end-optimal': 40, 'f-restart': 60,
    'f-permutation': 60, 'f-shared-start': 60, 'adaptive-reject': 20,
    'f-bases-per-mode': 100}
REQUIRED_EVENTS = {'singleton-at-row0': 30, 'singleton-at-last-row': 30}
ASSUMPTIONS = ['lamb=None (unregularised, rank-deficient solves) is outside '
    'the quantifier (lamb > 0) and is not driven',
    'objective J = sum_s w_s (y_s - Y[i_s])^2 + lamb sum_k ||G_k||^2',
    'normal-equation residual tolerance 1e3 eps (||M|| ||x|| + ||rhs||)',
    'als_func is driven with thr_pow=0 (documented dynamic mode-size search '
    'off), so "same shape" applies']
COVER = ['als.als', 'als._lstsq', 'als._optimize_core', 'als._optimize_core_adaptive', 'als_func.als_func', 'als_func._optimize_core', 'utils._info_appr']
SHARDS = {'quick': 12, 'thorough': 16}

_cur = {'mode': None}


def gen_cases(seed, tier):
    rng = np.random.default_rng([seed, 107])
    q = tier == 'quick'
    out = []
    lay = ['random', 'row0', 'last', 'middle', 'grid', 'dups']
    for j in range(240 if q else 6000):
        out.append({'kind': 'als', 'seed': int(rng.integers(1 << 62)),
            'layout': lay[j % len(lay)]})
    for j in range(8 if q else 80):
        out.append({'kind': 'als', 'seed': int(rng.integers(1 << 62)),
            'layout': 'many'})
    for j in range(80 if q else 2000):
        out.append({'kind': 'func', 'seed': int(rng.integers(1 << 62))})
    for j in range(60 if q else 1500):
        out.append({'kind': 'adaptive', 'seed': int(rng.integers(1 << 62))})
    return out


# ---- (a) per-update contracts --------------------------------------------------

def neq_check(ctx, mon, A, y, w, lamb, x, x_old, what):
    """x minimises sum w (A x - y)^2 + lamb |x|^2 ?"""
    AW = A if w is None else A * w[:, None]
    M = A.T @ AW + lamb * np.eye(A.shape[1])
    rhs = AW.T @ y
    res = np.linalg.norm(M @ x - rhs)
    tol = 1e3 * EPS * (np.linalg.norm(M, 2) * np.linalg.norm(x)
        + np.linalg.norm(rhs)) * max(1, A.shape[1])
    ok = ctx.check(mon, bool(res <= tol), lambda: f'{what}: normal-equation '
        f'residual {res:.3e} > {tol:.3e}: the updated slice is not the '
        f'minimiser of the regularised least-squares problem',
        samples=A.shape[0], unknowns=A.shape[1], lamb=lamb)
    if x_old is not None:
        def J(v):
            r = A @ v - y
            return float(np.sum((r * r) if w is None else (w * r * r))
                + lamb * np.sum(v * v))
        jn, jo = J(x), J(x_old)
        # rounding of the evaluation of J itself: the residual A v - y is a
        # difference of terms of size |A||v| + |y| (matters when J is tiny
        # against them, i.e. for almost interpolated data)
        sc = (np.abs(A) @ np.abs(x) + np.abs(y)) ** 2
        sc0 = (np.abs(A) @ np.abs(x_old) + np.abs(y)) ** 2
        jtol = 1e3 * EPS * float(np.sum((sc + sc0) if w is None
            else w * (sc + sc0)))
        ctx.check(mon.replace('optimal', 'local-descent'),
            jn <= jo * (1 + 1e-10) + jtol + 1e-300, f'{what}: local objective '
            f'increased {jo:.6e} -> {jn:.6e}')
    return ok


def make_opt_core(orig):
    sig = inspect.signature(orig)

    def _optimize_core(*args, **kw):
        ba = sig.bind(*args, **kw)
        ba.apply_defaults()
        a = ba.arguments
        Q0 = np.array(a['Q'], copy=True)
        i = np.array(a['i'], copy=True)
        y = np.array(a['y_trn'], dtype=float, copy=True)
        Yl = np.array(a['Yl'], copy=True)
        Yr = np.array(a['Yr'], copy=True)
        Q = orig(*args, **kw)
        ctx = core.CUR
        if ctx is None or a['lamb'] is None or a['update_sol'] is not None:
            return Q
        w = a['w']
        if not (isinstance(Q, np.ndarray) and Q.shape == Q0.shape):
            ctx.viol('update-optimal', f'_optimize_core returned shape '
                f'{getattr(Q, "shape", None)} for a core {Q0.shape}')
            return Q
        for k in range(Q0.shape[1]):
            idx = np.where(i == k)[0]
            if idx.size == 0:
                ctx.check('update-untouched', Q[:, k, :].tobytes() ==
                    Q0[:, k, :].tobytes(), f'slice {k} has no training data '
                    'but was changed')
                continue
            A = np.einsum('sa,bs->sab', Yl[idx], Yr[:, idx]).reshape(
                idx.size, -1)
            neq_check(ctx, 'update-optimal', A, y[idx],
                None if w is None else np.asarray(w)[idx], float(a['lamb']),
                Q[:, k, :].reshape(-1), Q0[:, k, :].reshape(-1),
                f'als core update, slice {k} ({idx.size} samples, rows '
                f'{idx[:4].tolist()})')
        return Q
    return _optimize_core


def make_opt_core_func(orig):
    def _optimize_core(Q, y_trn, Yl, Yr, Hk, n_max, thr_pow, lamb=None,
                       update_sol=None):
        Q0 = np.array(Q, copy=True)
        Yl0, Yr0, Hk0 = np.array(Yl), np.array(Yr), np.array(Hk)
        y = np.array(y_trn, dtype=float, copy=True)
        nk = orig(Q, y_trn, Yl, Yr, Hk, n_max, thr_pow, lamb=lamb,
            update_sol=update_sol)
        ctx = core.CUR
        if ctx is None or lamb is None or update_sol is not None:
            return nk
        if nk != Q0.shape[1]:
            ctx.event('als_func-mode-size-search-fired')
            return nk
        A = np.einsum('ls,sk,sj->skjl', Yr0, Yl0, Hk0).reshape(
            Yl0.shape[0], -1)
        neq_check(ctx, 'f-update-optimal', A, y, None, float(lamb),
            np.array(Q).reshape(-1), Q0.reshape(-1), 'als_func core update')
        return nk
    return _optimize_core


_acc_log = {'on': False, 'Y': []}


def make_accuracy(orig):
    def accuracy(Y1, Y2):
        if _acc_log['on'] and isinstance(Y1, list):
            try:
                import sys
                if sys._getframe(1).f_code.co_name == 'als_func':
                    _acc_log['Y'].append([np.array(G, copy=True) for G in Y1])
            except Exception:
                pass
        return orig(Y1, Y2)
    return accuracy


def setup_worker(ctx):
    installed({('als', '_optimize_core'): make_opt_core,
        ('als_func', '_optimize_core'): make_opt_core_func,
        'accuracy': make_accuracy}).__enter__()


# ---- helpers --------------------------------------------------------------------

def J_als(Y, I, y, lamb, w):
    A = ref.dense_ld(Y)
    r = A[tuple(I.T)] - y
    loss = np.sum(r * r if w is None else w * r * r)
    return float(loss + lamb * sum(np.sum(np.asarray(G, dtype=LD) ** 2)
        for G in Y))


def interfaces(Y, I, k):
    """Independent left/right interface matrices of core k at the samples."""
    m = I.shape[0]
    L = np.ones((m, 1))
    for j in range(k):
        L = np.einsum('sa,asb->sb', L, Y[j][:, I[:, j], :])
    R = np.ones((1, m))
    for j in range(len(Y) - 1, k, -1):
        R = np.einsum('asb,bs->as', Y[j][:, I[:, j], :], R)
    return L, R


def rel_dev(Ya, Yb):
    num = max(float(np.abs(a - b).max()) for a, b in zip(Ya, Yb))
    den = max(float(np.abs(a).max()) for a in Ya)
    return num / max(den, 1e-300)


def make_training(rng, n, layout):
    d = len(n)
    if layout == 'grid':
        I = ref.all_indices(n)
        if len(I) > 60:
            I = I[rng.permutation(len(I))[:60]]
            layout = 'random'
    if layout == 'many':
        # training sets beyond 2^15 samples (not a multiple of it): whatever
        # blocking the interface updates use sees a remainder
        m = (1 << 15) * int(rng.integers(1, 3)) + int(rng.integers(1, 9000))
        I = np.stack([rng.integers(0, k, size=m) for k in n], axis=1)
    elif layout != 'grid':
        m = int(rng.integers(max(n), 61))
        I = np.stack([rng.integers(0, k, size=m) for k in n], axis=1)
    m = len(I)
    # make sure every slice is covered
    for k, nk in enumerate(n):
        if len(np.unique(I[:, k])) != nk:
            if m < nk:
                extra = np.stack([rng.integers(0, q, size=nk - m + 1)
                    for q in n], axis=1)
                I = np.vstack([I, extra])
                m = len(I)
            I[rng.permutation(m)[:nk], k] = np.arange(nk)
    if layout in ('row0', 'last', 'middle') and m >= 3:
        k = int(rng.integers(d))
        if n[k] >= 2:
            pos = {'row0': 0, 'last': m - 1, 'middle': m // 2}[layout]
            special = int(rng.integers(n[k]))
            others = [v for v in range(n[k]) if v != special]
            col = rng.choice(others, size=m)
            rest = [p for p in range(m) if p != pos]
            if len(rest) >= len(others):
                col[rng.permutation(rest)[:len(others)]] = others
                col[pos] = special
                I[:, k] = col
    if layout == 'dups' and m >= 4:
        I[m // 2:] = I[:m - m // 2][:len(I[m // 2:])]
        for k, nk in enumerate(n):
            if len(np.unique(I[:, k])) != nk:
                I[rng.permutation(m)[:nk], k] = np.arange(nk)
    return np.ascontiguousarray(I)


def singleton_events(ctx, I, n):
    m = len(I)
    for k, nk in enumerate(n):
        for v in range(nk):
            idx = np.where(I[:, k] == v)[0]
            if idx.size == 1:
                if idx[0] == 0:
                    ctx.event('singleton-at-row0')
                elif idx[0] == m - 1:
                    ctx.event('singleton-at-last-row')
                else:
                    ctx.event('singleton-elsewhere')


# ---- als -------------------------------------------------------------------------

def run_als(case, ctx):
    import teneva
    rng = np.random.default_rng(case['seed'])
    for _ in range(50):
        d = int(rng.integers(2, 6))
        n = [int(rng.integers(1, 6)) for _ in range(d)]
        if int(np.prod(n)) <= 2500:
            break
    r = gen.rand_ranks(rng, d, 4)
    if rng.random() < 0.3:
        r = [1] + [int(rng.integers(1, 5))] * (d - 1) + [1]
    I = make_training(rng, n, case['layout'])
    m = len(I)
    singleton_events(ctx, I, n)
    y = rng.normal(size=m) * 10.0 ** rng.uniform(-2, 2)
    lamb = float(10.0 ** rng.uniform(-4, 0))
    w = rng.uniform(0.5, 2, size=m) if rng.random() < 0.4 else None
    if w is not None and rng.random() < 0.4:
        # exact zeros: scattered, and on every sample of one slice (the ridge
        # minimiser of a slice without weight is zero)
        w[rng.random(m) < 0.2] = 0.
        k0 = int(rng.integers(d))
        w[I[:, k0] == int(rng.integers(n[k0]))] = 0.
        ctx.event('zero-weights')
    elif w is not None and rng.random() < 0.45:
        # weights as they are often kept: repetition counts in a narrow
        # integer dtype, float32, or one constant for all samples
        form = int(rng.integers(5))
        if form < 3:
            w = rng.integers(1, 9, size=m).astype([np.uint8, np.int8,
                np.int16][form])
        elif form == 3:
            w = rng.uniform(0.5, 2, size=m).astype(np.float32)
        else:
            w = np.full(m, float(rng.choice([0.25, 3., 4.])))
        ctx.event('weights-form:' + str(w.dtype) + (':constant'
            if form == 4 else ''))
    Y0 = gen.cores(rng, n, r, 'normal')
    if rng.random() < 0.12:
        # large data against a tiny regularisation (cores ~1e2..1e3, values
        # ~1e8): the ridge term is below the rounding of the Gram matrix and
        # under-determined slices make it numerically singular
        sc0 = float(10.0 ** rng.uniform(2, 3))
        Y0 = [G * sc0 for G in Y0]
        y = y * 1e8 / max(1e-300, float(np.abs(y).max()))
        lamb = 1e-3
        ctx.event('large-scale-tiny-regularisation')
    nswp = int(rng.integers(1, 6))
    traj = []

    def cb(Y, info, opts):
        traj.append([G.copy() for G in Y])

    info = {}
    Y = teneva.als(I, y, Y0, nswp, None, info, lamb=lamb, w=w, cb=cb)
    why = ref.wellformed(Y, n)
    if not ctx.check('shape-ranks', why is None, f'als malformed: {why}'):
        return
    ctx.check('shape-ranks', ref.ranks_of(Y) == r, f'constant-rank als '
        f'changed the ranks {r} -> {ref.ranks_of(Y)}')
    ctx.check('info', info.get('nswp') == len(traj) == nswp
        and info.get('stop') == 'nswp', f'info = {info.get("nswp")}, '
        f'{info.get("stop")!r}; callback calls {len(traj)}; nswp {nswp}')
    # (b) descent
    js = [J_als(Y0, I, y, lamb, w)] + [J_als(T, I, y, lamb, w) for T in traj]
    # (the library works in double precision: predictions of size |pred| are
    # known to eps |pred|, which moves the objective by up to
    # eps * sum w (|pred| + |y|)^2 - matters for large, almost fitted data)
    # A prediction is a sum over the rank indices; with cores that carry large
    # components in numerically singular directions (tiny regularisation) the
    # terms cancel, and the library - working in doubles - knows a prediction
    # only to eps * (sum of the moduli of the terms) = eps * absbound.
    # (this model replaced eps * |prediction| after the thorough tier, seed 5,
    # showed a relative increase of 2.5e-10 in the family "large data, tiny
    # regularisation" where the moduli are ~30 times the predictions)
    def jt_(T_):
        a_ = np.asarray(ref.absbound(T_), dtype=float)[tuple(I.T)] + np.abs(y)
        return 1e3 * EPS * float(np.sum(a_ * a_ if w is None else w * a_ * a_))
    jts = [jt_(T_) for T_ in [Y0] + traj]
    bad = [(s, a, b) for s, (a, b) in enumerate(zip(js, js[1:]))
        if not b <= a * (1 + 1e-10) + max(jts[s], jts[s + 1])]
    ctx.check('descent', not bad, f'objective increased between sweeps: {bad[:2]}',
        trajectory=js)
    # (c) independent optimality of the last-updated core (core 1)
    L, R = interfaces(Y, I, 1)
    for k in range(n[1]):
        idx = np.where(I[:, 1] == k)[0]
        if idx.size == 0:
            continue
        A = np.einsum('sa,bs->sab', L[idx], R[:, idx]).reshape(idx.size, -1)
        neq_check(ctx, 'end-optimal', A, y[idx], None if w is None else w[idx],
            lamb, Y[1][:, k, :].reshape(-1), None, f'end state, core 1 slice {k}')
    # calibration of the comparisons below: ALS on an over-parametrised,
    # weakly regularised problem can amplify rounding-level differences from
    # sweep to sweep.  The amplification is MEASURED by re-running with the
    # data perturbed at the 1e-14 level; instances amplifying by more than
    # 1e6 are not judged (no finite-precision implementation could comply),
    # otherwise the tolerance is 1e5 eps x amplification (at least 1e-7).
    amp = 1.
    for _ in range(2):
        yn = y * (1 + 1e-14 * rng.choice([-1., 1.], size=m))
        Yn = teneva.als(I, yn, Y0, nswp=nswp, e=None, lamb=lamb, w=w, info={})
        amp = max(amp, rel_dev(Y, Yn) / 1e-14)
    # two probes only estimate the amplification: safety factor 1e5 on eps
    tol_cmp = max(1e-7, 1e5 * EPS * amp)
    chaotic = amp > 1e6
    # (d) restart: every splitting a + b
    for a in range(1, nswp):
        if chaotic:
            ctx.skip('restart', 'rounding-amplification-above-1e6')
            break
        Ya = teneva.als(I, y, Y0, nswp=a, e=None, lamb=lamb, w=w, info={})
        Yb = teneva.als(I, y, Ya, nswp=nswp - a, e=None, lamb=lamb, w=w,
            info={})
        dv = rel_dev(Y, Yb)
        ctx.check('restart', dv <= tol_cmp, f'{a}+{nswp - a} sweeps with a '
            f'restart differ from {nswp} sweeps by {dv:.3e} (relative)')
    # (e) permutations of the sample order
    for _ in range(3):
        if chaotic:
            ctx.skip('permutation', 'rounding-amplification-above-1e6')
            break
        pr = rng.permutation(m)
        Yp = teneva.als(I[pr], y[pr], Y0, nswp=nswp, e=None, lamb=lamb,
            w=None if w is None else w[pr], info={})
        dv = rel_dev(Y, Yp)
        ctx.check('permutation', dv <= tol_cmp, lambda: f'result depends on the '
            f'order of the samples: relative deviation {dv:.3e} (tolerance '
            f'{tol_cmp:.1e}, measured amplification {amp:.1e})', shape=n,
            ranks=r, m=m, lamb=lamb, first_rows=I[:3].tolist())
    # (f) contract
    s = int(rng.integers(1, nswp + 1))
    cnt = [0]

    def cb2(Y_, info_, opts):
        cnt[0] += 1
        return True if cnt[0] == s else None

    info2 = {}
    Ys = teneva.als(I, y, Y0, nswp=nswp, e=None, lamb=lamb, w=w, cb=cb2,
        info=info2)
    ctx.check('cb-stop', info2.get('stop') == 'cb' and info2.get('nswp') == s
        and cnt[0] == s and rel_dev(traj[s - 1], Ys) <= 1e-12,
        f'callback returned True at sweep {s}: stop {info2.get("stop")!r}, '
        f'nswp {info2.get("nswp")}, callbacks {cnt[0]}')
    if n[0] >= 2 or any(x >= 2 for x in n):
        k = int(np.argmax(n))
        v = int(rng.integers(n[k]))
        keep = I[:, k] != v
        if keep.sum() >= 1:
            Im, ym = I[keep], y[keep]
            wm = None if w is None else w[keep]
            try:
                teneva.als(Im, ym, Y0, nswp=1, e=None, lamb=lamb, w=wm, info={})
                ctx.viol('reject', f'slice {v} of mode {k} has no sample but '
                    'als did not raise ValueError')
            except ValueError:
                ctx.held('reject')
            Yk = teneva.als(Im, ym, Y0, nswp=1, e=None, lamb=lamb, w=wm,
                info={}, allow_skip_cores=True)
            ctx.check('reject', ref.wellformed(Yk, n) is None
                and np.array_equal(Yk[k][:, v, :], Y0[k][:, v, :]),
                'allow_skip_cores: uncovered slice was not kept')
    # e-criterion stop
    info3 = {}
    teneva.als(I, y, Y0, nswp=50, e=1e-3, lamb=lamb, w=w, info=info3)
    ctx.check('info', info3.get('stop') in ('e', 'nswp')
        and (info3['stop'] != 'e' or 0 <= info3['e'] <= 1e-3)
        and (info3['stop'] != 'nswp' or info3['nswp'] == 50),
        f'als with e=1e-3: info {info3}')
    row0 = any(np.sum(I[:, k] == I[0, k]) == 1 for k in range(d))
    if nswp >= 2 and (max(r) >= 2 or row0):
        ctx.nontrivial(['als', n, r, m, case['layout'], nswp, w is not None])
    ctx.sample({'case': case, 'shape': n, 'ranks': r, 'samples': m,
        'lamb': lamb, 'weighted': w is not None, 'nswp': nswp,
        'objective_trajectory': js, 'first_rows': I[:4].tolist()})


# ---- als_func --------------------------------------------------------------------

def basis(X, a, b, nmode):
    Xs = (X - (b + a) / 2) * (2 / (b - a))
    return [Ch.chebvander(Xs[:, k], nmode - 1) for k in range(X.shape[1])]


def f_eval(A, H):
    m = H[0].shape[0]
    v = np.ones((m, 1), dtype=LD)
    for G, h in zip(A, H):
        v = np.einsum('sa,anb,sn->sb', v, np.asarray(G, dtype=LD),
            h.astype(LD))
    return v[:, 0]


def J_func(A, H, y, lamb):
    r = f_eval(A, H) - y
    return float(np.sum(r * r) + lamb * sum(np.sum(np.asarray(G, dtype=LD)
        ** 2) for G in A))


def run_func(case, ctx):
    import teneva
    rng = np.random.default_rng(case['seed'])
    d = int(rng.integers(2, 5))
    nm = int(rng.integers(2, 7))
    n = [nm] * d
    r = gen.rand_ranks(rng, d, 3)
    a = float(rng.uniform(-2, 0))
    b = float(a + rng.uniform(0.5, 3))
    m = int(rng.integers(3, 61))
    X = rng.uniform(a, b, size=(m, d))
    if rng.random() < 0.3:
        X[m // 2:] = X[:m - m // 2][:len(X[m // 2:])]      # repeated samples
    y = rng.normal(size=m)
    lamb = float(10.0 ** rng.uniform(-4, 0))
    A0 = gen.cores(rng, n, r, 'normal')
    nswp = int(rng.integers(1, 5))
    H = basis(X.copy(), a, b, nm)
    X_pristine = X.copy()

    def fit(Xx, yy, A_start, sweeps):
        _acc_log['Y'] = []
        _acc_log['on'] = True
        try:
            info = {}
            A = teneva.als_func(Xx, yy, A_start, a, b, sweeps, None, info,
                lamb=lamb, thr_pow=0.)
        finally:
            _acc_log['on'] = False
        return A, info, list(_acc_log['Y'])

    A, info, log = fit(X, y, A0, nswp)
    why = ref.wellformed(A, n)
    if not ctx.check('shape-ranks', why is None, f'als_func malformed: {why}'):
        return
    ctx.check('shape-ranks', ref.ranks_of(A) == r, f'als_func changed the '
        f'ranks {r} -> {ref.ranks_of(A)}')
    ctx.check('info', info.get('nswp') == nswp and info.get('stop') == 'nswp',
        f'als_func info: {info.get("nswp")}, {info.get("stop")!r}')
    if len(log) == nswp:
        js = [J_func(A0, H, y, lamb)] + [J_func(T, H, y, lamb) for T in log]
        bad = [(s, p, q) for s, (p, q) in enumerate(zip(js, js[1:]))
            if not q <= p * (1 + 1e-10)]
        ctx.check('f-descent', not bad, f'als_func objective increased: '
            f'{bad[:2]}', trajectory=js)
        ctx.check('f-descent', rel_dev(log[-1], A) <= 1e-12, 'tensor of the '
            'last sweep differs from the returned one')
    else:
        ctx.skip('f-descent', 'per-sweep-tensors-not-observable')
    # independent optimality of the last-updated core (core 1)
    Lm = np.ones((m, 1))
    Lm = np.einsum('sa,anb,sn->sb', Lm, A[0], H[0])
    Rm = np.ones((1, m))
    for j in range(d - 1, 1, -1):
        Rm = np.einsum('anb,sn,bs->as', A[j], H[j], Rm)
    Ad = np.einsum('ls,sk,sj->skjl', Rm, Lm, H[1]).reshape(m, -1)
    neq_check(ctx, 'f-end-optimal', Ad, y, None, lamb, A[1].reshape(-1), None,
        'als_func end state, core 1')
    amp = 1.
    for _ in range(2):
        # (the calibration probe gets its own copy of the points; all other
        # fits deliberately reuse the SAME array object, as a caller would)
        An, _, _ = fit(X_pristine.copy(), y * (1 + 1e-14 * rng.choice(
            [-1., 1.], size=m)), A0, nswp)
        amp = max(amp, rel_dev(A, An) / 1e-14)
    tol_cmp = max(1e-7, 1e5 * EPS * amp)
    if amp > 1e6:
        ctx.skip('f-restart', 'rounding-amplification-above-1e6')
        ctx.skip('f-permutation', 'rounding-amplification-above-1e6')
        return
    for s in range(1, nswp):
        Aa, _, _ = fit(X, y, A0, s)
        Ab, _, _ = fit(X, y, Aa, nswp - s)
        dv = rel_dev(A, Ab)
        ctx.check('f-restart', dv <= tol_cmp, f'als_func {s}+{nswp - s} sweeps '
            f'with restart differ from {nswp} sweeps by {dv:.3e}')
    for _ in range(2):
        pr = rng.permutation(m)
        Ap, _, _ = fit(X[pr], y[pr], A0, nswp)
        dv = rel_dev(A, Ap)
        ctx.check('f-permutation', dv <= tol_cmp, f'als_func depends on the '
            f'sample order: relative deviation {dv:.3e}', lamb=lamb, m=m)
    ctx.check('f-restart', np.array_equal(X, X_pristine), 'als_func changed '
        'the training points it was given (seen after repeated calls on the '
        'same array)')
    # user bases given per dimension, of DIFFERENT sizes (fh as a list of
    # callables): the result keeps the shape of the initial approximation and
    # each sweep descends in the objective formed with those bases
    if d >= 2:
        nb = [int(rng.integers(2, 7)) for _ in range(d)]
        if len(set(nb)) == 1:
            nb[-1] = nb[0] + 1
        if rng.random() < 0.5:
            nb = sorted(nb)                 # first mode smallest
        fhs = [(lambda x, k_=k_: np.stack([np.cos(j * x) if j % 2 == 0 else
            np.sin(j * x) for j in range(k_)])) for k_ in nb]
        Hb = [f(X_pristine[:, k_]).T for k_, f in enumerate(fhs)]
        rb = gen.rand_ranks(rng, d, 3)
        A0b = gen.cores(rng, nb, rb, 'normal')
        sw = int(rng.integers(1, 4))
        _acc_log['Y'] = []
        _acc_log['on'] = True
        try:
            Ab = teneva.als_func(X_pristine.copy(), y, A0b, nswp=sw, e=None,
                info={}, fh=fhs, lamb=lamb, thr_pow=0.)
        finally:
            _acc_log['on'] = False
        logb = list(_acc_log['Y'])
        whyb = ref.wellformed(Ab, nb)
        if ctx.check('f-bases-per-mode', whyb is None and ref.ranks_of(Ab) ==
                rb, f'als_func with per-dimension bases of sizes {nb}: '
                f'result {whyb or ref.ranks_of(Ab)} (start: shape {nb}, '
                f'ranks {rb})'):
            jsb = [J_func(A0b, Hb, y, lamb)] + [J_func(T_, Hb, y, lamb)
                for T_ in logb if ref.wellformed(T_, nb) is None]
            if len(jsb) == sw + 1:
                badb = [(s_, p_, q_) for s_, (p_, q_) in enumerate(zip(jsb,
                    jsb[1:])) if not q_ <= p_ * (1 + 1e-10)]
                ctx.check('f-bases-per-mode', not badb, 'als_func with per-'
                    f'dimension bases of sizes {nb}: objective increased '
                    f'{badb[:2]}')
            ctx.check('f-bases-per-mode', J_func(Ab, Hb, y, lamb) <=
                jsb[0] * (1 + 1e-10), 'als_func with per-dimension bases: '
                'the result is worse than the start')
    # the initial approximation as a caller may well build it: one array
    # OBJECT at several positions ([G0, G, G, Gd], a periodic start), against
    # the same values in distinct arrays
    if d >= 3:
        rr = int(rng.integers(1, 4))
        Gm = rng.normal(size=(rr, nm, rr))
        ends = [rng.normal(size=(1, nm, rr)), rng.normal(size=(rr, nm, 1))]
        Ash = [ends[0]] + [Gm] * (d - 2) + [ends[1]]
        if rr == 1 and rng.random() < 0.5:
            Ash = [Gm] * d
        Adi = [G.copy() for G in Ash]
        snap = [G.copy() for G in Ash]
        As, _, logs = fit(X, y, Ash, nswp)
        Ad2, _, _ = fit(X, y, Adi, nswp)
        ctx.check('f-shared-start', ref.wellformed(As, n) is None and
            rel_dev(As, Ad2) <= 1e-12, lambda: 'als_func started from a list '
            'holding one core object at several positions differs from the '
            f'start with the same values in distinct arrays by '
            f'{rel_dev(As, Ad2):.3e}', d=d, ranks=ref.ranks_of(Ash))
        ctx.check('f-shared-start', all(np.array_equal(g, h) for g, h in
            zip(Ash, snap)), 'als_func modified its initial approximation '
            '(shared core objects)')
    if nswp >= 2 and max(r) >= 2:
        ctx.nontrivial(['als_func', d, nm, r, m, nswp])


# ---- rank-adaptive ---------------------------------------------------------------

def run_adaptive(case, ctx):
    import teneva
    rng = np.random.default_rng(case['seed'])
    d = int(rng.integers(3, 6))
    n = [int(rng.integers(2, 5)) for _ in range(d)]
    rcap = int(rng.integers(2, 6))
    r0 = [1] + [int(rng.integers(1, rcap + 1)) for _ in range(d - 1)] + [1]
    m = int(rng.integers(max(n) * 2, 81))
    I = np.stack([rng.integers(0, k, size=m) for k in n], axis=1)
    for k, nk in enumerate(n):
        I[rng.permutation(m)[:nk], k] = np.arange(nk)
    y = rng.normal(size=m)
    lamb = float(10.0 ** rng.uniform(-3, 0))
    Y0 = gen.cores(rng, n, r0, 'normal')
    outs = []
    nsw = int(rng.integers(1, 4))
    for mode in ('nan', 'big'):
        with sanit.Poison(mode) as ps:
            try:
                Y = teneva.als(I, y, Y0, nswp=nsw, e=None, r=rcap,
                    lamb=lamb, info={})
            except np.linalg.LinAlgError as ex:
                ctx.viol('adaptive', f'rank-adaptive als raised LinAlgError '
                    f'under {mode}-poisoned np.empty: {ex} (an index pair '
                    'without samples is read uninitialised)')
                return
        why = ref.wellformed(Y, n)
        ok = ctx.check('adaptive', why is None, f'rank-adaptive als under '
            f'{mode} poison: {why}', shape=n, cap=rcap, start=r0, m=m)
        if ok:
            ctx.check('adaptive', all(q <= rcap for q in ref.ranks_of(Y)),
                f'rank-adaptive als ranks {ref.ranks_of(Y)} exceed r = {rcap}')
        outs.append(Y)
    # documented flag use_stab ("the rank-adaptive method will use additional
    # stabilization of the cores")
    try:
        Ys = teneva.als(I, y, Y0, nswp=nsw, e=None, r=rcap, lamb=lamb,
            use_stab=True, info={})
    except AttributeError as ex:
        # mechanism of the known finding: orthogonalize(Y, 0, True) returns
        # the pair (Z, p) and als goes on with the pair as if it were Z
        pair = "'tuple' object" in str(ex) or "'list' object" in str(ex)
        ctx.viol('adaptive-stab', f'als(r={rcap}, use_stab=True) raised '
            f'AttributeError: {ex}', kf='als-adaptive-use_stab-pair'
            if pair else None)
    else:
        why = ref.wellformed(Ys, n)
        ctx.check('adaptive-stab', why is None and all(q <= rcap
            for q in ref.ranks_of(Ys)), f'als(use_stab=True): {why}, ranks '
            f'{ref.ranks_of(Ys) if why is None else None}')
    # missing slice data must be rejected in the rank-adaptive mode as well
    k = int(rng.integers(d))
    v = [0, n[k] - 1, int(rng.integers(n[k]))][int(rng.integers(3))]
    keep = I[:, k] != v
    if keep.sum() >= 1:
        try:
            teneva.als(I[keep], y[keep], Y0, nswp=1, e=None, r=rcap,
                lamb=lamb, info={})
            ctx.viol('adaptive-reject', f'rank-adaptive als: slice {v} of mode '
                f'{k} has no sample but no ValueError was raised (d = {d})')
        except ValueError:
            ctx.held('adaptive-reject')
    ctx.nontrivial(['adaptive', n, rcap, r0, m])


def run_case(case, ctx):
    {'als': run_als, 'func': run_func, 'adaptive': run_adaptive}[
        case['kind']](case, ctx)
