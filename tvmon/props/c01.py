"""C01 — TT evaluation and algebra agree with dense algebra.

Shadow-value monitor: a random expression tree over add/sub/mul/copy (tensor
and number operands) and outer is evaluated by the real functions; every node
carries a dense longdouble shadow computed by the dense operation on the
operand shadows (exact Python integers in integer mode).  After each node the
denoted tensor is compared with the shadow, and all observers are run.
"""
import itertools

import numpy as np

from tvmon import gen, ref
from tvmon.ref import LD, EPS

PID = 'C01'
LEVEL = 'exploration'
RULE = ('random expression trees (depth<=4 quick / <=7 thorough) over '
    'add/sub/mul/copy/outer with tensor and number operands on generated TT '
    'families (d=2, mode size 1, rank 1, over-ranked, rank-deficient, '
    'integer cores, scaled); non-trivial = distinct (shape, rank profile, '
    'program skeleton) with >= 1 binary op and max rank >= 2')
REQUIRED = {'node-dense': 50, 'get': 50, 'full': 50, 'sum': 50, 'mean': 50,
    'meanP': 30, 'mul_scalar': 50, 'norm': 50, 'accuracy': 30,
    'accuracy_on_data': 30, 'interface': 50, 'get_and_grad': 30,
    'props': 50, 'erank': 50, 'outer': 10, 'int-bitexact': 20,
    'large-exact': 200, 'dtype-upcast': 100, 'shared-objects': 200,
    'accuracy-gap': 30, 'many-sum': 60, 'stab-scalar-product': 100,
    'get_many': 50, 'big-rank-pair': 150}
ASSUMPTIONS = ['numpy longdouble (64-bit mantissa) contraction is the dense '
    'reference; tolerance 10*(sum ranks + d)*2^-52*absbound',
    'integer mode: exact Python-int contraction, bit equality',
    'absolute floor 1e-300 on every tolerance (subnormal results have no '
    'relative accuracy; seen at tree depth 6 in the thorough tier)']
COVER = ['act_one.copy', 'act_one.get', 'act_one.get_many', 'act_one.get_and_grad', 'act_one.interface', 'act_one.mean', 'act_one.norm', 'act_one.sum', 'act_two.accuracy', 'act_two.add', 'act_two.mul', 'act_two.mul_scalar', 'act_two.outer', 'act_two.sub', 'act_many.outer_many', 'transformation.full', 'props.erank', 'props.ranks', 'props.shape', 'props.size', 'data.accuracy_on_data']
SHARDS = {'quick': 12, 'thorough': 16}

C = 10.
# 'extreme': every leaf scaled so that its entries are ~1e+-60 (products and
# squares of two operands stay representable, nothing else is special)
C01_FAMILIES = gen.FAMILIES + ['extreme-tiny', 'extreme-huge']


def gen_cases(seed, tier):
    n = 900 if tier == 'quick' else 20000
    rng = np.random.default_rng([seed, 101])
    out = []
    for j in range(60 if tier == 'quick' else 1500):
        out.append({'kind': 'large', 'seed': int(rng.integers(1 << 62))})
    for j in range(60 if tier == 'quick' else 1500):
        out.append({'kind': 'dtype', 'seed': int(rng.integers(1 << 62))})
    for j in range(60 if tier == 'quick' else 1500):
        out.append({'kind': 'shared', 'seed': int(rng.integers(1 << 62))})
    for j in range(40 if tier == 'quick' else 1000):
        out.append({'kind': 'gap', 'seed': int(rng.integers(1 << 62))})
    for j in range(40 if tier == 'quick' else 1000):
        out.append({'kind': 'manysum', 'seed': int(rng.integers(1 << 62))})
    for j in range(40 if tier == 'quick' else 1000):
        out.append({'kind': 'stabprod', 'seed': int(rng.integers(1 << 62))})
    for j in range(40 if tier == 'quick' else 800):
        out.append({'kind': 'bigrank', 'seed': int(rng.integers(1 << 62))})
    for j in range(n):
        out.append({'seed': int(rng.integers(1 << 62)),
            'depth': int(rng.integers(1, 5 if tier == 'quick' else 8)),
            'int': bool(rng.random() < 0.3),
            'family': C01_FAMILIES[j % len(C01_FAMILIES)]})
    return out


# ---- shadows -----------------------------------------------------------------

class Val:
    """A value of the program: TT (cores) or number, with its shadows."""

    def __init__(self, tt, A, AB, exact=None, num=None):
        self.tt = tt          # list of cores or None for numbers
        self.A = A            # longdouble dense (or python number)
        self.AB = AB          # abs bound dense (or |number|)
        self.exact = exact    # object array of Python ints or None
        self.num = num

    @property
    def is_num(self):
        return self.tt is None


def leaf_val(Y, int_mode):
    ex = ref.dense_int(Y) if int_mode else None
    return Val(Y, ref.dense_ld(Y), ref.absbound(Y), ex)


def num_val(v):
    return Val(None, v, abs(v), v if float(v).is_integer() else None, num=v)


def _bc(x, shape):
    if np.ndim(x) == 0:
        return np.full(shape, x, dtype=LD)
    return x


def apply_shadow(op, a, b):
    """Dense operation on the operand shadows."""
    if a.is_num and b.is_num:
        v = {'add': a.num + b.num, 'sub': a.num - b.num,
            'mul': a.num * b.num}[op]
        return None, v
    shape = (a.A if not a.is_num else b.A).shape
    A1, A2 = _bc(LD(a.A) if a.is_num else a.A, shape), \
        _bc(LD(b.A) if b.is_num else b.A, shape)
    B1, B2 = _bc(LD(a.AB) if a.is_num else a.AB, shape), \
        _bc(LD(b.AB) if b.is_num else b.AB, shape)
    if op == 'add':
        A, AB = A1 + A2, B1 + B2
    elif op == 'sub':
        A, AB = A1 - A2, B1 + B2
    else:
        A, AB = A1 * A2, B1 * B2
    ex = None
    if a.exact is not None and b.exact is not None:
        e1 = a.exact if not a.is_num else np.full(shape, int(a.exact),
            dtype=object)
        e2 = b.exact if not b.is_num else np.full(shape, int(b.exact),
            dtype=object)
        ex = e1 + e2 if op == 'add' else e1 - e2 if op == 'sub' else e1 * e2
    return (A, AB, ex), None


# ---- program generation --------------------------------------------------------

def gen_tree(rng, depth, nleaf, int_mode):
    if depth <= 0 or rng.random() < 0.15:
        return ['leaf', int(rng.integers(nleaf))]
    op = ['add', 'sub', 'mul', 'copy'][int(rng.choice(4, p=[.3, .3, .3, .1]))]
    if op == 'copy':
        return ['copy', gen_tree(rng, depth - 1, nleaf, int_mode)]
    u = rng.random()
    if u < 0.2:
        if int_mode:
            v = int(rng.integers(-1, 2)) if op != 'mul' else \
                int(rng.integers(-3, 4))
            v = float(v) if rng.random() < 0.5 else v
        else:
            v = float(np.round(rng.normal() * 3, 3))
            if rng.random() < 0.2:
                v = int(rng.integers(-4, 5))
            elif op in ('add', 'sub') and rng.random() < 0.25:
                # numbers around and far below the unit roundoff, and large
                # ones: a number operand is a value, not a flag
                v = float(rng.choice([1e-17, -3e-20, 5e-300, 2.220446049250313e-16,
                    1.5e-16, -2e-16, 1e-16, -1e-16, 1.0000000000000002e-16,
                    3e-15, 1e6, -4e5]))
        sub = gen_tree(rng, depth - 1, nleaf, int_mode)
        return [op, ['num', v], sub] if rng.random() < 0.5 else \
            [op, sub, ['num', v]]
    return [op, gen_tree(rng, depth - 1, nleaf, int_mode),
        gen_tree(rng, depth - 1, nleaf, int_mode)]


def skeleton(t):
    if t[0] in ('leaf', 'num'):
        return t[0]
    return [t[0]] + [skeleton(x) for x in t[1:]]


def count_binary(t):
    if t[0] in ('leaf', 'num'):
        return 0
    return (t[0] != 'copy') + sum(count_binary(x) for x in t[1:])


# ---- the case -------------------------------------------------------------------

def exact_chain(mats):
    """Product of lists-of-lists of Python ints (exact)."""
    v = [[1]]
    for M in mats:
        r1, r2 = len(M), len(M[0])
        v = [[sum(v[0][a] * M[a][b] for a in range(r1)) for b in range(r2)]]
    return v[0][0]


def run_large(case, ctx):
    """Tensors far too large for a dense reference (up to 10^20 and 2^70
    entries): integer cores, exact Python-integer / Fraction references."""
    import teneva
    from fractions import Fraction
    rng = np.random.default_rng(case['seed'])
    if rng.random() < 0.5:
        d, n = int(rng.integers(40, 71)), None
        nn = [2] * d
    else:
        d = int(rng.integers(12, 25))
        nn = [int(rng.integers(2, 11)) for _ in range(d)]
    r = [1] + [int(rng.integers(1, 3)) for _ in range(d - 1)] + [1]
    Y = [rng.integers(-1, 2, size=(r[k], nn[k], r[k + 1])).astype(float)
        for k in range(d)]
    if rng.random() < 0.5:
        Y = [np.abs(G) for G in Y]       # positive: no cancellation in the sum
    N = 1
    for k in nn:
        N *= k
    ints = [[[[int(x) for x in row] for row in G[:, m, :]] for m in range(G.shape[1])]
        for G in Y]
    S = exact_chain([[[sum(ints[k][m][a][b] for m in range(nn[k]))
        for b in range(r[k + 1])] for a in range(r[k])] for k in range(d)])
    Sabs = exact_chain([[[sum(abs(ints[k][m][a][b]) for m in range(nn[k]))
        for b in range(r[k + 1])] for a in range(r[k])] for k in range(d)])
    tol = C * (sum(r) + d + sum(nn)) * EPS
    got = teneva.sum(Y)
    ctx.check('large-exact', abs(Fraction(float(got)) - S) <= tol * Sabs,
        f'sum(Y) = {got!r} but the exact sum is {S} (d={d}, {N} entries)',
        shape=nn, ranks=r)
    gm = teneva.mean(Y)
    ref_mean = Fraction(S, N)
    ctx.check('large-exact', np.isfinite(gm) and abs(Fraction(float(gm))
        - ref_mean) <= tol * Fraction(Sabs, N) + Fraction(1, 10 ** 320),
        f'mean(Y) = {gm!r} but the exact mean is {float(ref_mean)!r} '
        f'(d={d}, {N} entries)', shape=nn, ranks=r)
    I = np.stack([rng.integers(0, k, size=20) for k in nn], axis=1)
    vals = teneva.get_many(Y, I)
    for row, v in zip(I, vals):
        ex = exact_chain([ints[k][int(row[k])] for k in range(d)])
        ctx.check('large-exact', float(v) == float(ex), f'get_many at {row}: '
            f'{v!r} != exact {ex}')
    ex0 = exact_chain([ints[k][int(I[0][k])] for k in range(d)])
    ctx.check('large-exact', float(teneva.get(Y, I[0])) == float(ex0),
        'get at a single index differs from the exact integer value')
    ok = np.array_equal(teneva.shape(Y), nn) and np.array_equal(
        teneva.ranks(Y), r)
    ctx.check('props', ok, 'shape/ranks of a large tensor')
    ctx.nontrivial(['large', nn, r])
    ctx.sample({'case': case, 'shape': nn, 'ranks': r, 'entries': str(N),
        'sum_observed': float(got), 'sum_exact': str(S),
        'mean_observed': float(gm), 'mean_exact': float(ref_mean)})


def run_dtype(case, ctx):
    """Metamorphic: storing the (exactly representable) values of ONE operand
    in a narrower dtype must not change the result of a binary routine."""
    import teneva
    rng = np.random.default_rng(case['seed'])
    Ya, info = gen.make_tt(rng, 'generic', dmin=2, dmax=5, nmax=4, rmax=3,
        max_entries=600)
    n = info['n']
    d = len(n)
    # (integer-dtype cores are not TT-tensors in the sense of the library:
    #  well-formed cores are float arrays, and sub() scales a copy in place)
    kind = 'float32'
    if rng.random() < 0.5:
        Ya = [np.rint(3 * G) for G in Ya]      # small integers stored as float32
    Ya = [G.astype(np.float32).astype(float) for G in Ya]
    Yb = gen.cores(rng, n, gen.rand_ranks(rng, d, 3), 'normal')
    Yn = [G.astype(kind) for G in Ya]        # same values, narrower dtype
    for name in ('add', 'sub', 'mul', 'mul_scalar', 'outer'):
        fn = getattr(teneva, name)
        for first in (True, False):
            try:
                got = fn(Yn, Yb) if first else fn(Yb, Yn)
            except Exception as ex:
                ctx.viol('dtype-upcast', f'{name} with a {kind} operand '
                    f'({"first" if first else "second"}) raised '
                    f'{type(ex).__name__}: {ex}', shape=n)
                continue
            want = fn(Ya, Yb) if first else fn(Yb, Ya)
            if name == 'mul_scalar':
                A1, A2 = ref.dense_ld(Ya), ref.dense_ld(Yb)
                t = C * (ref.nterms(Ya) + ref.nterms(Yb) + sum(n)) * EPS * \
                    np.sum(ref.absbound(Ya) * ref.absbound(Yb))
                ctx.close('dtype-upcast', got, np.sum(A1 * A2), t,
                    f'mul_scalar with a {kind} operand')
                continue
            why = ref.wellformed([np.asarray(G, dtype=float) for G in got])
            if not ctx.check('dtype-upcast', why is None, f'{name} with a '
                    f'{kind} operand: {why}'):
                continue
            G1 = ref.dense_ld([np.asarray(G, dtype=float) for G in got])
            G2 = ref.dense_ld(want)
            tolr = C * (ref.nterms(want)) * EPS * ref.absbound(want)
            ctx.close('dtype-upcast', G1, G2, tolr, f'{name}: result with a '
                f'{kind} {"first" if first else "second"} operand differs '
                'from the result with the same values stored as float64',
                shape=n, d=d)
    # cores of DIFFERENT dtypes in one tensor (an integer-typed mask / count
    # core among float64 cores): value, gradient, dense export, sum
    Ym, Yr = [], []
    for k, G in enumerate(Ya):
        if rng.random() < 0.5 or k == d // 2:
            H = np.rint(3 * G)
            # (int32 / int64: partial products of narrow integer cores wrap
            # around in numpy itself, see DESIGN 8.7)
            Ym.append(H.astype([np.int32, np.int64][int(rng.integers(2))]))
            Yr.append(H.astype(float))
        else:
            Ym.append(G.copy())
            Yr.append(G.copy())
    A_r, AB_r = ref.dense_ld(Yr), ref.absbound(Yr)
    tol_r = C * ref.nterms(Yr) * EPS * AB_r
    ctx.close('dtype-upcast', np.asarray(teneva.full(Ym), dtype=float), A_r,
        tol_r, 'full of a tensor with integer-typed and float64 cores')
    ctx.close('dtype-upcast', teneva.sum(Ym), np.sum(A_r), C * (ref.nterms(Yr)
        + sum(n)) * EPS * np.sum(AB_r), 'sum of a tensor with mixed core dtypes')
    for _ in range(3):
        i = [int(rng.integers(k)) for k in n]
        vm, gm = teneva.get_and_grad(Ym, i)
        vr, gr = teneva.get_and_grad(Yr, i)
        ti = tuple(i)
        ctx.close('dtype-upcast', vm, A_r[ti], tol_r[ti], 'get_and_grad value, '
            'mixed core dtypes')
        for k in range(d):
            g1, g2 = np.asarray(gm[k], dtype=float), np.asarray(gr[k])
            okg = g1.shape == g2.shape and bool(np.all(np.abs(g1 - g2) <= C
                * ref.nterms(Yr) * EPS * (np.abs(g2) + float(np.abs(g2).max()
                if g2.size else 0.)) + 1e-300))
            ctx.check('dtype-upcast', okg, lambda: f'get_and_grad: gradient '
                f'with respect to core {k} (stored as {Ym[k].dtype}) differs '
                f'from the gradient of the same tensor stored in float64: '
                f'max deviation {float(np.abs(g1 - g2).max()):.3e}', shape=n)
    ctx.nontrivial(['dtype', n, kind])


def run_shared(case, ctx):
    """TT lists holding the SAME array object at several positions (periodic
    tensors such as [G0, G, G, G, Gd] or [A, B] * 2) are ordinary tensors."""
    import teneva
    rng = np.random.default_rng(case['seed'])
    nm, rr = int(rng.integers(2, 4)), int(rng.integers(1, 4))
    if rng.random() < 0.5:
        d = int(rng.integers(3, 6))
        G = rng.normal(size=(rr, nm, rr))
        Y = [rng.normal(size=(1, nm, rr))] + [G] * (d - 2) + \
            [rng.normal(size=(rr, nm, 1))]
    else:
        A_, B_ = rng.normal(size=(1, nm, rr)), rng.normal(size=(rr, nm, 1))
        Y = [A_, B_] * int(rng.integers(2, 4))
        d = len(Y)
    n = [nm] * d
    X = gen.cores(rng, n, gen.rand_ranks(rng, d, 2), 'normal')
    before = [G.copy() for G in Y]
    vY, vX = leaf_val(Y, False), leaf_val(X, False)
    c = float(np.round(rng.normal() * 2, 2)) or 1.5
    for name, a, b in (('mul', vY, num_val(c)), ('mul', num_val(c), vY),
            ('sub', vX, vY), ('sub', vY, vX), ('add', vY, vY),
            ('mul', vY, vY), ('sub', vY, num_val(c)), ('add', num_val(c), vY)):
        res = getattr(teneva, name)(a.num if a.is_num else a.tt,
            b.num if b.is_num else b.tt)
        sh, _ = apply_shadow(name, a, b)
        why = ref.wellformed(res, n)
        if not ctx.check('shared-objects', why is None, f'{name}: {why}'):
            continue
        A, AB, ex = sh
        ctx.close('shared-objects', ref.dense_ld(res), A, C * ref.nterms(res)
            * EPS * AB, f'{name} on a tensor whose list holds one array object '
            f'at several positions (d={d})')
    Z = teneva.copy(Y)
    Z[0] *= 2.
    ctx.close('shared-objects', ref.dense_ld(Z), 2 * vY.A, C * ref.nterms(Y)
        * EPS * 2 * vY.AB, 'copy(Y) followed by an in-place scaling of the '
        "copy's first core")
    acc = teneva.accuracy(X, Y)
    N1 = np.sum((vX.A - vY.A) ** 2)
    N2 = np.sum(vY.A ** 2)
    ctx.check('shared-objects', abs(acc - float(np.sqrt(N1 / N2))) <= 1e-9
        * float(np.sqrt(N1 / N2)), f'accuracy(X, Y) = {acc!r}, dense '
        f'{float(np.sqrt(N1 / N2))!r}')
    ctx.check('shared-objects', all(np.array_equal(g, h) for g, h in
        zip(Y, before)), 'the operand with shared core objects was modified')
    ctx.nontrivial(['shared', n, rr, d])


def run_gap(case, ctx):
    """Relative accuracy of two tensors on very different scales: the true
    ratio (up to 1e140, far below the documented saturation at 2^500) is
    representable and must be returned."""
    import teneva
    rng = np.random.default_rng(case['seed'])
    Y1, info = gen.make_tt(rng, 'generic', dmin=2, dmax=4, nmax=3, rmax=2,
        max_entries=100)
    n = info['n']
    d = len(n)
    Y2 = gen.cores(rng, n, gen.rand_ranks(rng, d, 2), 'normal')
    # ||Y2|| stays above 1e-90 (below ~1e-100 the documented sentinel -1 for
    # an almost zero denominator applies), the ratio reaches 1e60..1e140
    s1, s2 = float(rng.uniform(20, 60)), float(rng.uniform(40, 80))
    g = s1 + s2
    for G in Y1:
        G *= 10.0 ** (s1 / d)
    for G in Y2:
        G *= 10.0 ** (-s2 / d)
    A1, A2 = ref.dense_ld(Y1), ref.dense_ld(Y2)
    want = np.sqrt(np.sum((A1 - A2) ** 2) / np.sum(A2 ** 2))
    acc = teneva.accuracy(Y1, Y2)
    ctx.check('accuracy-gap', np.isfinite(acc) and abs(LD(acc) - want)
        <= 1e-8 * want, f'accuracy(Y1, Y2) = {acc!r} but the relative '
        f'distance is {float(want)!r} (scales differ by 1e{g:.0f})', shape=n)
    ctx.nontrivial(['gap', n, int(g)])
    # one core far below the others (1e-160..1e-300; a finite tensor like any
    # other): the interface vectors drop by that factor at one bond (repaired
    # defect D21: the norm of the step vector underflowed there)
    Yt = [G.copy() for G in gen.cores(rng, n, gen.rand_ranks(rng, d, 3),
        'normal')]
    jt = int(rng.integers(d))
    Yt[jt] = Yt[jt] * 10.0 ** -float(rng.uniform(160, 300))
    check_interface(ctx, teneva, leaf_val(Yt, False), rng)
    ctx.event('interface-one-core-tiny')


def run_bigrank(case, ctx):
    """Pairs of operands with large, different, non-uniform rank profiles
    (rank products per core pair up to 2^18, far above what the small modes
    can carry): the pair routines against the dense tensors."""
    import teneva
    rng = np.random.default_rng(case['seed'])
    d = int(rng.integers(3, 5))
    n = [int(rng.integers(2, 4)) for _ in range(d)]

    def prof():
        hi = [8, 16, 24, 40, 48][int(rng.integers(5))]
        return [1] + [int(rng.integers(2, hi + 1)) for _ in range(d - 1)] + [1]
    r1, r2 = prof(), prof()
    j = int(rng.integers(1, d - 1))          # one pair of wide bonds for sure
    r1[j], r1[j + 1] = int(rng.integers(10, 17)), int(rng.integers(30, 49))
    r2[j], r2[j + 1] = int(rng.integers(12, 21)), int(rng.integers(12, 21))
    if rng.random() < 0.5:
        r1, r2 = r2, r1
    Y1 = [G / np.sqrt(G.shape[0]) for G in gen.cores(rng, n, r1, 'normal')]
    Y2 = [G / np.sqrt(G.shape[0]) for G in gen.cores(rng, n, r2, 'normal')]
    A1, A2 = ref.dense_ld(Y1), ref.dense_ld(Y2)
    B1, B2 = ref.absbound(Y1), ref.absbound(Y2)
    nt = ref.nterms(Y1) + ref.nterms(Y2) + sum(n)
    want = np.sum(A1 * A2)
    tol = C * nt * EPS * np.sum(B1 * B2)
    what = f'ranks {r1} and {r2}, shape {n}'
    for X, Z, nm in ((Y1, Y2, '(Y1, Y2)'), (Y2, Y1, '(Y2, Y1)')):
        ctx.close('big-rank-pair', teneva.mul_scalar(X, Z), want, tol,
            f'mul_scalar{nm}, {what}')
        v, p = teneva.mul_scalar(X, Z, use_stab=True)
        ctx.close('big-rank-pair', LD(v) * LD(2) ** int(p), want, tol,
            f'mul_scalar{nm} with use_stab, {what}')
    for X, A, B in ((Y1, A1, B1), (Y2, A2, B2)):
        ctx.close('big-rank-pair', LD(teneva.norm(X)) ** 2, np.sum(A * A),
            2 * C * nt * EPS * np.sum(B * B), f'norm^2, {what}')
    acc = teneva.accuracy(Y1, Y2)
    wa = np.sqrt(np.sum((A1 - A2) ** 2) / np.sum(A2 * A2))
    ta = 4 * C * nt * EPS * np.sum((B1 + B2) ** 2) / np.sum(A2 * A2) / max(wa,
        LD(1e-300))
    ctx.close('big-rank-pair', acc, wa, ta + 1e-12 * wa, f'accuracy(Y1, Y2), '
        f'{what}')
    if max(a * b for a, b in zip(r1, r2)) <= 400:
        Pm = teneva.mul(Y1, Y2)
        if ctx.check('big-rank-pair', ref.wellformed(Pm, n) is None,
                f'mul(Y1, Y2) malformed, {what}'):
            ctx.close('big-rank-pair', ref.dense_ld(Pm), A1 * A2, C * nt * EPS
                * B1 * B2, f'mul(Y1, Y2), {what}')
    ctx.nontrivial(['bigrank', n, max(a * b * c_ * e_ for a, b, c_, e_ in
        zip(r1[:-1], r2[:-1], r1[1:], r2[1:])) >= 1 << 16])


def run_manysum(case, ctx):
    """Long sums: add applied 16..40 times in a row, and the same list
    through add_many (its rounding steps are C02's subject; here only 'the
    sum of the list, up to the stated accuracy per rounding step')."""
    import teneva
    rng = np.random.default_rng(case['seed'])
    n = gen.rand_shape(rng, 2, 4, 2, 4)
    d = len(n)
    m = int(rng.integers(16, 41))
    items = [gen.cores(rng, n, gen.rand_ranks(rng, d, 2), 'normal')
        for _ in range(m)]
    if rng.random() < 0.3:
        items[int(rng.integers(m))] = float(np.round(rng.normal(), 2))
    dense = [ref.dense_ld(Y) if isinstance(Y, list) else
        np.full(n, Y, dtype=LD) for Y in items]
    S = dense[0]
    acc = items[0]
    AB = ref.absbound(items[0]) if isinstance(items[0], list) else np.abs(S)
    for Y, D in zip(items[1:], dense[1:]):
        acc = teneva.add(acc, Y)
        S = S + D
        AB = AB + (ref.absbound(Y) if isinstance(Y, list) else np.abs(D))
    why = ref.wellformed(acc, n)
    if ctx.check('many-sum', why is None, f'chain of {m} add calls: {why}'):
        ctx.close('many-sum', ref.dense_ld(acc), S, C * (ref.nterms(acc) + m)
            * EPS * AB, f'chain of {m} add calls vs the dense sum')
    e = 1e-10
    tf = [None, 15, 4, 7][int(rng.integers(4))]
    Z = teneva.add_many(items) if tf is None else \
        teneva.add_many(items, e, 1e12, tf)
    why = ref.wellformed(Z, n)
    if ctx.check('many-sum', why is None, f'add_many of {m} items: {why}'):
        # accumulated bound: every rounding step adds <= e ||partial sum||
        fro = lambda A: float(np.sqrt(np.sum(np.asarray(A, dtype=LD) ** 2)))
        P, E = dense[0], 0.
        for j, D in enumerate(dense[1:]):
            P = P + D
            if (j + 1) % (tf or 15) == 0:
                E += e * (fro(P) + E)
        bound = E + e * (fro(S) + E)
        err = fro(ref.dense_ld(Z) - S)
        floor = 1e-7 * m * max(fro(D) for D in dense)     # Gram-matrix SVD
        ctx.check('many-sum', err <= 2 * bound + floor, lambda: f'add_many '
            f'of {m} items (trunc_freq {tf or "default"}): ||result - dense '
            f'sum||_F = {err:.3e} (||sum|| = {fro(S):.3e}, bound '
            f'{2 * bound + floor:.3e})')
    # a rank cap is a bound on the RESULT: summands that cancel (A, N_1..N_k,
    # -N_1..-N_k, B) have partial sums of high rank and a sum of low rank
    k = int(rng.integers(15, 19))
    N_ = [gen.cores(rng, n, [1] * (d + 1), 'normal') for _ in range(k)]
    Nm = []
    for Q in N_:
        Qm = [G.copy() for G in Q]
        Qm[int(rng.integers(d))] *= -1.
        Nm.append(Qm)
    A_, B_ = (gen.cores(rng, n, [1] * (d + 1), 'normal') for _ in range(2))
    cap = int(rng.integers(2, 4))
    lst = [A_] + N_ + Nm + [B_]
    Zc = teneva.add_many(lst, 1e-10, cap)
    if ctx.check('many-sum', ref.wellformed(Zc, n) is None,
            'add_many with a cap: malformed result'):
        Sc = ref.dense_ld(A_) + ref.dense_ld(B_)
        big = max(float(np.sqrt(np.sum(ref.dense_ld(Q) ** 2))) for Q in lst)
        err = float(np.sqrt(np.sum((ref.dense_ld(Zc) - Sc) ** 2)))
        ctx.check('many-sum', err <= 1e-6 * big * len(lst), lambda: 'add_many '
            f'of {len(lst)} rank-1 summands that cancel to a rank-2 tensor, '
            f'cap r = {cap}: ||result - dense sum||_F = {err:.3e} (largest '
            f'summand {big:.3e})')
        ctx.check('many-sum', max(ref.ranks_of(Zc)) <= cap, 'add_many: rank '
            f'cap {cap} exceeded: {ref.ranks_of(Zc)}')
    # a list with ONE tensor: the outer product of one factor is that tensor,
    # as a new object (editing the result must not reach the operand)
    Yo = gen.cores(rng, n, gen.rand_ranks(rng, d, 2), 'normal')
    snap_o = [G.copy() for G in Yo]
    Zo = teneva.outer_many([Yo])
    if ctx.check('many-sum', ref.wellformed(Zo, n) is None, 'outer_many of a '
            'one-element list: malformed result'):
        ctx.close('many-sum', ref.dense_ld(Zo), ref.dense_ld(snap_o), C *
            ref.nterms(Yo) * EPS * ref.absbound(snap_o), 'outer_many([Y]) '
            'differs from Y')
        for G in Zo:
            G *= 2.
        ctx.check('many-sum', all(np.array_equal(G, H) for G, H in
            zip(Yo, snap_o)), 'outer_many([Y]): editing the result in place '
            'changed the operand')
    ctx.nontrivial(['manysum', n, m, tf])


def run_stabprod(case, ctx):
    """Scalar product and norm with use_stab=True: the pair (v, p) must
    denote the dense value v 2^p - on operands whose entries are ordinary but
    whose cores are badly balanced (half of them 2^-150, half 2^+150), with
    sparse block structure (direct sums of rank-1 tensors with disjoint
    supports: exact zeros in every partial contraction) and opposite signs
    (every entry of the partial contractions <= 0)."""
    import teneva
    rng = np.random.default_rng(case['seed'])
    d = 2 * int(rng.integers(4, 7))
    n = [int(rng.integers(2, 4)) for _ in range(d)]
    q = int(rng.integers(2, 4))                    # number of summands
    parts = []
    for t in range(q):
        cores = []
        for k in range(d):
            v = rng.uniform(0.5, 1.5, size=n[k])
            v[np.arange(n[k]) % q != t % min(q, n[k])] = 0.   # disjoint supports
            if not np.any(v):
                v[t % n[k]] = 1.
            cores.append(v)
        parts.append(cores)
    def dsum(sign):
        Y = []
        for k in range(d):
            G = np.zeros((1 if k == 0 else q, n[k], 1 if k == d - 1 else q))
            for t in range(q):
                G[0 if k == 0 else t, :, 0 if k == d - 1 else t] = parts[t][k]
            Y.append(G)
        Y[int(rng.integers(d))] *= sign
        return Y
    Y1, Y2 = dsum(1.), dsum(-1.)
    for t in range(q):
        Y2[0][0, :, t if d > 1 else 0] *= float(rng.uniform(0.5, 2.))
    ex = [-150] * (d // 2) + [150] * (d // 2)
    if rng.random() < 0.5:
        ex = ex[::-1]
    Y1 = [np.ldexp(G, e) for G, e in zip(Y1, ex)]
    Y2 = [np.ldexp(G, e) for G, e in zip(Y2, ex)]
    # the power-of-two scales cancel exactly: dense values from the unscaled
    # cores, and 2^(2 sum ex) = 1
    U1 = [np.ldexp(G, -e) for G, e in zip(Y1, ex)]
    U2 = [np.ldexp(G, -e) for G, e in zip(Y2, ex)]
    A1, A2 = ref.dense_ld(U1), ref.dense_ld(U2)
    want = np.sum(A1 * A2)
    tol = C * (ref.nterms(U1) + ref.nterms(U2)) * EPS * np.sum(
        np.abs(A1) * np.abs(A2))
    for a, b, w, what in ((Y1, Y2, want, '<Y1, Y2>'), (Y2, Y1, want,
            '<Y2, Y1>'), (Y1, Y1, np.sum(A1 * A1), '<Y1, Y1>')):
        try:
            res = teneva.mul_scalar(a, b, use_stab=True)
        except Exception as ex_:
            ctx.viol('stab-scalar-product', f'mul_scalar(use_stab=True) '
                f'{what} raised {type(ex_).__name__}: {ex_}', d=d)
            continue
        ok = isinstance(res, tuple) and len(res) == 2
        if ctx.check('stab-scalar-product', ok, f'mul_scalar(use_stab=True) '
                f'returned {type(res).__name__}'):
            v, p = res
            got = LD(v) * np.ldexp(LD(1), int(p)) if np.isfinite(v) else LD(v)
            ctx.close('stab-scalar-product', got, w, tol, f'mul_scalar('
                f'use_stab=True) {what}: v 2^p differs from the dense scalar '
                f'product (d = {d}, cores scaled by 2^-150 / 2^+150, block-'
                'diagonal, opposite signs)', v=v, p=p)
    res = teneva.norm(Y1, use_stab=True)
    if ctx.check('stab-scalar-product', isinstance(res, tuple) and len(res) == 2,
            'norm(use_stab=True) must return (v, p)'):
        v, p = res
        got = LD(v) * np.exp2(LD(p))
        ctx.close('stab-scalar-product', got, np.sqrt(np.sum(A1 * A1)),
            tol / np.sqrt(np.sum(A1 * A1)), 'norm(use_stab=True): v 2^p '
            'differs from the dense norm')
    # relative accuracy of a tensor against an exact copy of itself when its
    # norm is far below 2^-500 (single cores ordinary, ~1e-40): the distance
    # is 0 (or rounding), never a saturation value
    dt_ = int(rng.integers(5, 9))
    nt_ = [int(rng.integers(2, 4)) for _ in range(dt_)]
    Yt = [G * 10.0 ** -float(rng.uniform(30, 45)) for G in gen.cores(rng, nt_,
        gen.rand_ranks(rng, dt_, 3), 'normal')]
    for Ycopy in ([G.copy() for G in Yt], Yt):
        acc = teneva.accuracy(Yt, Ycopy)
        ctx.check('stab-scalar-product', bool(np.isfinite(acc)) and
            0 <= acc <= 1e-6, lambda: f'accuracy(Y, copy of Y) = {acc!r} for a '
            f'tensor of norm ~1e-{35 * dt_} (d = {dt_}, cores ~1e-40): the '
            'true relative distance is 0')
    ctx.nontrivial(['stabprod', d, q, ex[0]])
    # long chains whose bonds carry a diagonal gauge diag(s, 1/s): every entry
    # is ordinary, the partial contractions grow like s^(2k) for a while -
    # the per-core maxima say nothing about the running product.  Positive
    # cores: no cancellation, the value is known to d eps relative.
    dg = int(rng.integers(30, 90))
    sg = float(rng.choice([2.0 ** 12, 1e3, 2.0 ** 8]))
    ng = 2
    def gauged():
        Yg = []
        for k in range(dg):
            G = rng.uniform(0.5, 1.5, size=(1 if k == 0 else 2, ng,
                1 if k == dg - 1 else 2))
            if k > 0:
                G = G * np.array([1. / sg, sg])[:, None, None]
            if k < dg - 1:
                G = G * np.array([sg, 1. / sg])[None, None, :]
            Yg.append(G)
        return Yg
    Z1, Z2 = gauged(), gauged()
    mref, eref = ref.scaled_scalar_product(Z1, Z2)
    try:
        v, p = teneva.mul_scalar(Z1, Z2, use_stab=True)
    except Exception as ex_:
        ctx.viol('stab-scalar-product', f'mul_scalar(use_stab=True) on gauged '
            f'chains raised {type(ex_).__name__}: {ex_}', d=dg)
    else:
        got = (np.log2(abs(LD(v))) + LD(int(p))) if v != 0 else -np.inf
        want_l = np.log2(abs(mref)) + LD(int(eref))
        ctx.check('stab-scalar-product', bool(np.isfinite(got)) and
            abs(got - want_l) <= 1e-9 and np.sign(v) == np.sign(mref),
            lambda: f'mul_scalar(use_stab=True) on chains of {dg} cores with '
            f'bond gauge diag({sg:g}, 1/{sg:g}): (v, p) = ({v!r}, {p}), i.e. '
            f'log2 = {float(got):.6f}; the value is 2^{float(want_l):.6f}')


def run_case(case, ctx):
    if case.get('kind') == 'stabprod':
        return run_stabprod(case, ctx)
    # values below 1e-300 are subnormal or nearly so: their relative accuracy
    # is gone by construction and a tolerance c eps |x| underflows to 0
    ctx.abs_floor = 1e-300
    if case.get('kind') == 'manysum':
        return run_manysum(case, ctx)
    if case.get('kind') == 'bigrank':
        return run_bigrank(case, ctx)
    if case.get('kind') == 'shared':
        return run_shared(case, ctx)
    if case.get('kind') == 'gap':
        return run_gap(case, ctx)
    if case.get('kind') == 'large':
        return run_large(case, ctx)
    if case.get('kind') == 'dtype':
        return run_dtype(case, ctx)
    import teneva
    rng = np.random.default_rng(case['seed'])
    int_mode = case['int']
    fam = 'int' if int_mode else case['family']
    extreme = fam.startswith('extreme')
    Y0, info = gen.make_tt(rng, 'generic' if extreme else fam,
        dmax=4 if case['depth'] > 4 else 5, nmax=4, rmax=3, max_entries=600)
    n = info['n']
    d = len(n)
    nleaf = int(rng.integers(1, 4))
    leaves = [Y0]
    for _ in range(nleaf - 1):
        r = gen.rand_ranks(rng, d, 3)
        leaves.append(gen.cores(rng, n, r, 'int' if int_mode else 'normal'))
    if extreme:
        ex = (-1 if fam == 'extreme-tiny' else 1) * float(rng.choice([30, 60]))
        for Y in leaves:
            for G in Y:
                G *= 10.0 ** (ex / d)
    # rank growth: mul multiplies ranks, cap total by limiting depth
    depth = case['depth'] if not extreme else 1    # one product at most: squares stay representable
    tree = gen_tree(rng, depth, nleaf, int_mode)
    lv = [leaf_val(Y, int_mode) for Y in leaves]

    state = {'nodes': 0, 'maxrank': 1}

    def ev(t):
        if t[0] == 'leaf':
            return lv[t[1]]
        if t[0] == 'num':
            return num_val(t[1])
        if t[0] == 'copy':
            a = ev(t[1])
            if a.is_num:
                got = teneva.copy(a.num)
                ctx.check('copy', got == a.num and type(got) is type(a.num),
                    'copy of a number changed it')
                return a
            Z = teneva.copy(a.tt)
            ctx.check('copy', isinstance(Z, list) and len(Z) == len(a.tt)
                and all(np.array_equal(g, h) and g is not h
                for g, h in zip(Z, a.tt)), 'copy differs from its argument')
            return Val(Z, a.A, a.AB, a.exact)
        a, b = ev(t[1]), ev(t[2])
        if not a.is_num and not b.is_num:
            rmax = max(x * y for x, y in zip(ref.ranks_of(a.tt),
                ref.ranks_of(b.tt)))
            if t[0] == 'mul' and rmax > 16:
                # keep ranks bounded: replace the product by a sum
                t = ['add', t[1], t[2]]
        fn = getattr(teneva, t[0])
        res = fn(a.num if a.is_num else a.tt, b.num if b.is_num else b.tt)
        sh, num = apply_shadow(t[0], a, b)
        if sh is None:
            ctx.check('num-op', res == num, f'{t[0]} of numbers: {res} != {num}')
            return num_val(num)
        A, AB, ex = sh
        why = ref.wellformed(res, n, finite=True)
        if not ctx.check('node-wellformed', why is None,
                f'{t[0]} returned a malformed tensor: {why}'):
            raise _Abort()
        v = Val(res, A, AB, ex)
        check_node(ctx, v, t[0])
        state['nodes'] += 1
        state['maxrank'] = max(state['maxrank'], max(ref.ranks_of(res)))
        return v

    try:
        top = ev(tree)
    except _Abort:
        return
    if top.is_num:
        return
    vals = [top] + lv[:1]
    for v in vals:
        observers(ctx, teneva, v, rng, int_mode)
    pair_observers(ctx, teneva, top, lv[0], rng)

    # outer products (shape changes, so at the top only)
    Y2, info2 = gen.make_tt(rng, 'int' if int_mode else None, dmax=3, nmax=3,
        rmax=3, max_entries=max(2, 3000 // max(1, int(np.prod(n)))))
    v2 = leaf_val(Y2, int_mode)
    if int(np.prod(n)) * int(np.prod(info2['n'])) <= 6000:
        Z = teneva.outer(top.tt, Y2)
        Aexp = np.multiply.outer(top.A, v2.A)
        ABexp = np.multiply.outer(top.AB, v2.AB)
        why = ref.wellformed(Z, list(n) + list(info2['n']))
        if ctx.check('outer', why is None, f'outer malformed: {why}'):
            nt = ref.nterms(Z)
            ctx.close('outer', ref.dense_ld(Z), Aexp, C * nt * EPS * ABexp,
                'outer(Y1, Y2) vs dense outer product')
            Zm = teneva.outer_many([top.tt, Y2, lv[0].tt])
            if Aexp.size * lv[0].A.size <= 20000:
                ctx.close('outer', ref.dense_ld(Zm),
                    np.multiply.outer(Aexp, lv[0].A),
                    C * ref.nterms(Zm) * EPS * np.multiply.outer(ABexp,
                    lv[0].AB), 'outer_many vs dense')
    ctx.sample({'case': case, 'shape': n,
        'leaf_ranks': [ref.ranks_of(Y) for Y in leaves], 'program': tree,
        'result_ranks': ref.ranks_of(top.tt),
        'sum_observed': float(teneva.sum(top.tt)),
        'sum_reference': float(np.sum(top.A))})
    if count_binary(tree) >= 1 and state['maxrank'] >= 2:
        ctx.nontrivial([n, ref.ranks_of(top.tt), skeleton(tree)])
    ctx.event('nodes', state['nodes'])


class _Abort(Exception):
    pass


def tolA(v, extra=0):
    return C * (ref.nterms(v.tt) + extra) * EPS * v.AB


def check_node(ctx, v, op):
    """Denoted tensor of the result == dense op on the operand shadows."""
    got = ref.dense_ld(v.tt)
    ctx.close('node-dense', got, v.A, tolA(v),
        f'{op}: denoted tensor differs from the dense operation')
    if v.exact is not None and ref.is_int_tt(v.tt, bound=2**40):
        ex = ref.dense_int(v.tt)
        ctx.check('int-bitexact', bool(np.all(ex == v.exact)),
            f'{op}: integer cores do not denote the exact integer result')


def sample_indices(rng, n, k=200):
    N = int(np.prod(n))
    if N <= k:
        return ref.all_indices(n)
    return np.stack([rng.integers(0, m, size=k) for m in n], axis=1)


def observers(ctx, teneva, v, rng, int_mode):
    Y, A, AB = v.tt, v.A, v.AB
    n = list(A.shape)
    d = len(n)
    N = A.size
    tol = tolA(v)
    exact = v.exact is not None and ref.is_int_tt(Y) and \
        ref.exact_fits_double(v.exact) and \
        float(np.max(ref.absbound(Y))) < 2**52
    Aex = np.array(v.exact, dtype=float) if exact else None

    # props
    ok = (np.array_equal(teneva.shape(Y), n)
        and np.array_equal(teneva.ranks(Y), ref.ranks_of(Y))
        and int(teneva.size(Y)) == sum(G.size for G in Y))
    ctx.check('props', ok, 'shape/ranks/size wrong',
        shape=teneva.shape(Y), ranks=teneva.ranks(Y), size=teneva.size(Y))
    # erank: solution of the defining equation
    er = float(teneva.erank(Y))
    r = ref.ranks_of(Y)
    if d == 2:
        ctx.check('erank', er == r[1], f'erank(d=2) {er} != {r[1]}')
    else:
        sz = sum(n[k] * r[k] * r[k + 1] for k in range(d))
        lhs = n[0] * er + sum(n[1:d - 1]) * er * er + n[d - 1] * er
        ctx.check('erank', er > 0 and abs(lhs - sz) <= 1e-9 * sz,
            f'erank {er} does not solve its equation: {lhs} vs {sz}')

    # full
    F = teneva.full(Y)
    okshape = isinstance(F, np.ndarray) and (list(F.shape) == n
        or F.size == N)
    if ctx.check('full-shape', okshape, f'full shape {getattr(F, "shape", None)} for n={n}'):
        ctx.close('full', np.asarray(F).reshape(n), A, tol, 'full(Y)')
        if exact:
            ctx.check('int-bitexact', np.array_equal(np.asarray(F).reshape(n),
                Aex), 'full(Y) not bit-exact on integer cores')

    # get / get batch / get_many
    I = sample_indices(rng, n)
    tI = tuple(I.T)
    refI, tolI = A[tI], tol[tI]
    g1 = np.array([teneva.get(Y, [int(x) for x in i]) for i in I[:40]])
    ctx.close('get', g1, refI[:40], tolI[:40], 'get(Y, i) list index')
    g1b = np.array([teneva.get(Y, i) for i in I[:10]])
    ctx.close('get', g1b, refI[:10], tolI[:10], 'get(Y, i) array index')
    g2 = teneva.get(Y, I)
    ctx.close('get', g2, refI, tolI, 'get(Y, batch)')
    g3 = teneva.get_many(Y, I)
    ctx.close('get_many', g3, refI, tolI, 'get_many(Y, array)')
    g4 = teneva.get_many(Y, I.tolist())
    ctx.close('get_many', g4, refI, tolI, 'get_many(Y, list of lists)')
    g5 = teneva.get_many(Y, I[:1])
    ctx.close('get_many', g5, refI[:1], tolI[:1], 'get_many(Y, one row)')
    if exact:
        ctx.check('int-bitexact', np.array_equal(g3, Aex[tI])
            and np.array_equal(g1, Aex[tI][:40]),
            'get/get_many not bit-exact on integer cores')

    # sum / mean / mean(P)
    s = teneva.sum(Y)
    extra = sum(n)
    tsum = C * (ref.nterms(Y) + extra) * EPS * np.sum(AB)
    ctx.close('sum', s, np.sum(A), tsum, 'sum(Y)')
    m = teneva.mean(Y)
    ctx.close('mean', m, np.sum(A) / N, tsum / N + 4 * EPS * abs(np.sum(A) / N)
        + C * d * EPS * np.sum(AB) / N, 'mean(Y)')
    if exact and abs(int(np.sum(v.exact))) < 2**52 and \
            float(np.sum(ref.absbound(Y))) < 2**52:
        ctx.check('int-bitexact', float(s) == float(int(np.sum(v.exact))),
            f'sum(Y) not bit-exact: {s} vs {int(np.sum(v.exact))}')
    P = [rng.uniform(0, 1, size=k) for k in n]
    P = [p / p.sum() for p in P]
    W = P[0].astype(LD)
    for p in P[1:]:
        W = np.multiply.outer(W, p.astype(LD))
    mp = teneva.mean(Y, P)
    ctx.close('meanP', mp, np.sum(A * W), C * (ref.nterms(Y) + extra) * EPS
        * np.sum(AB * W), 'mean(Y, P)')
    mp2 = teneva.mean(Y, [p.tolist() for p in P])
    ctx.close('meanP', mp2, np.sum(A * W), C * (ref.nterms(Y) + extra) * EPS
        * np.sum(AB * W), 'mean(Y, P as lists)')

    # norm (mul_scalar builds r^4 n temporaries: bounded ranks only)
    if max(ref.ranks_of(Y)) > 16:
        ctx.event('norm-skipped-large-rank')
        return observers_tail(ctx, teneva, v, rng, I, refI, tolI)
    n2 = np.sum(A * A)
    t2 = C * (2 * ref.nterms(Y) + extra) * EPS * np.sum(AB * AB)
    nr = teneva.norm(Y)
    ctx.close('norm', LD(nr) ** 2, n2, t2 + 8 * EPS * n2, 'norm(Y)^2')
    ctx.check('norm', nr >= 0, 'norm negative')

    observers_tail(ctx, teneva, v, rng, I, refI, tolI)


def observers_tail(ctx, teneva, v, rng, I, refI, tolI):
    Y = v.tt
    # interface / get_and_grad
    check_interface(ctx, teneva, v, rng)
    check_grad(ctx, teneva, v, rng)

    # accuracy_on_data
    yd = np.asarray(refI, dtype=float) + rng.normal(size=len(I))
    acc = teneva.accuracy_on_data(Y, I, yd)
    num = ref.fro(np.asarray(refI, dtype=LD) - yd)
    den = ref.fro(yd)
    tnum = float(np.sqrt(np.sum(np.asarray(tolI, dtype=float) ** 2)))
    if den > 0:
        ctx.close('accuracy_on_data', acc, num / den,
            tnum / den + 1e-12 * num / den, 'accuracy_on_data')
    ctx.check('accuracy_on_data', teneva.accuracy_on_data(Y, None, yd) == -1
        and teneva.accuracy_on_data(Y, I, None) == -1,
        'accuracy_on_data without data must be -1')


def partial_right(Y, k):
    """Tensor [r_k, n_k, ..., n_{d-1}] of the cores k.. (longdouble)."""
    rk = Y[k].shape[0]
    head = np.eye(rk).reshape(1, rk, rk)
    return ref.dense_ld([head] + list(Y[k:]))


def partial_left(Y, k):
    """Tensor [n_0, ..., n_{k-1}, r_k] of the cores ..k-1."""
    rk = Y[k - 1].shape[2]
    tail = np.eye(rk).reshape(rk, rk, 1)
    return ref.dense_ld(list(Y[:k]) + [tail])


def check_interface(ctx, teneva, v, rng):
    Y = v.tt
    n = ref.shape_of(Y)
    d = len(n)
    if v.A.size > 1500:
        return
    i = [int(rng.integers(k)) for k in n]
    Pl = [rng.uniform(0.1, 1, size=k) for k in n]
    same = len(set(n)) == 1
    for ltr, useP, usei, norm in itertools.product([False, True],
            [0, 1, 2], [False, True], [None, 'linalg', 'l', 'natural', 'n']):
        if useP == 2 and not same:
            continue
        if rng.random() < 0.5:
            continue
        P = None if useP == 0 else (Pl if useP == 1 else
            [float(x) for x in Pl[0]])
        Pk = [np.ones(k) for k in n] if useP == 0 else \
            (Pl if useP == 1 else [Pl[0]] * d)
        kw = dict(P=P, i=(list(i) if rng.random() < .5 else np.array(i))
            if usei else None, norm=norm, ltr=ltr)
        phi = teneva.interface(Y, **kw)
        kw = f'P={("none", "per-mode", "flat")[useP]} i={kw["i"]!r} norm={norm} ltr={ltr}'
        if not ctx.check('interface-shape', isinstance(phi, list)
                and len(phi) == d + 1 and all(np.ndim(p) == 1 for p in phi)
                and [len(p) for p in phi] == ref.ranks_of(Y),
                f'interface returned wrong structure for {kw}'):
            continue
        vecs = {}

        def ref_vec(k):
            if k not in vecs:
                vecs[k] = _ref_vec(k)
            return vecs[k]

        def _ref_vec(k):
            # unnormalised reference vector at bond k
            if not ltr:
                if k == d:
                    R, RB = np.ones(1, dtype=LD), np.ones(1, dtype=LD)
                else:
                    T = partial_right(Y, k)
                    TB = partial_right([np.abs(G) for G in Y], k)
                    for j in range(d - 1, k - 1, -1):
                        if usei:
                            w = np.zeros(n[j], dtype=LD)
                            w[i[j]] = Pk[j][i[j]]
                        else:
                            w = Pk[j].astype(LD)
                        T = T @ w
                        TB = TB @ np.abs(w)
                    R, RB = T, TB
                nprod = float(np.prod(n[k:]))
            else:
                if k == 0:
                    R, RB = np.ones(1, dtype=LD), np.ones(1, dtype=LD)
                else:
                    T = partial_left(Y, k)
                    TB = partial_left([np.abs(G) for G in Y], k)
                    for j in range(k):
                        if usei:
                            w = np.zeros(n[j], dtype=LD)
                            w[i[j]] = Pk[j][i[j]]
                        else:
                            w = Pk[j].astype(LD)
                        T = np.tensordot(w, T, axes=(0, 0))
                        TB = np.tensordot(np.abs(w), TB, axes=(0, 0))
                    R, RB = T, TB
                nprod = float(np.prod(n[:k]))
            return R, RB, nprod

        def step_underflows(k):
            # (repaired defect D21) the vector of one step, formed from
            # the NORMALISED previous one, has norm ||R_k|| / ||R_prev||; below
            # 1e-150 its squares underflow in np.linalg.norm (0 or a few bits),
            # the division gives inf / nan and every later vector inherits it
            steps = range(d - 1, k - 1, -1) if not ltr else range(1, k + 1)
            for j in steps:
                a = np.sqrt(np.sum(ref_vec(j)[0] ** 2))
                b = np.sqrt(np.sum(ref_vec(j + 1 if not ltr else j - 1)[0] ** 2))
                if b > 0 and a < 1e-150 * b:
                    return True
            return False

        for k in range(d + 1):
            R, RB, nprod = ref_vec(k)
            tol = C * (ref.nterms(Y) + sum(n)) * EPS * RB
            got = np.asarray(phi[k], dtype=LD)
            if norm is None:
                ctx.close('interface', got, R, tol, f'interface {kw} bond {k}')
            elif norm.startswith('n'):
                ctx.close('interface', got * nprod, R, tol + 8 * EPS * np.abs(R),
                    f'interface natural norm {kw} bond {k}')
            else:
                if k == (d if not ltr else 0):
                    ctx.close('interface', got, R, tol, 'interface end vector')
                    continue
                nr = np.sqrt(np.sum(R * R))
                tn = np.sqrt(np.sum(tol * tol))
                if not (nr > 1e3 * tn and nr > 0):
                    ctx.skip('interface', 'direction-undefined')
                    continue
                # normalised step by step: parallel to R with unit norm
                ctx.close('interface', got, R / nr,
                    (tol + tn * np.abs(R) / nr) / nr * (d + 1) + 16 * d * EPS,
                    f'interface linalg norm {kw} bond {k}')
                if step_underflows(k):
                    # repaired defect D21: the norm of such a step vector
                    # underflowed (inf / nan results)
                    ctx.event('interface-step-norm-below-1e-150')


def check_grad(ctx, teneva, v, rng):
    Y = v.tt
    n = ref.shape_of(Y)
    d = len(n)
    for _ in range(2):
        i = [int(rng.integers(k)) for k in n]
        val, grad = teneva.get_and_grad(Y, i if rng.random() < .5
            else np.array(i))
        ti = tuple(i)
        ctx.close('get_and_grad', val, v.A[ti], tolA(v)[ti],
            'get_and_grad value')
        if not ctx.check('get_and_grad', isinstance(grad, list)
                and len(grad) == d and all(g.shape == G.shape
                for g, G in zip(grad, Y)), 'gradient has wrong structure'):
            continue
        L = [np.ones((1, 1), dtype=LD)]
        LB = [np.ones((1, 1), dtype=LD)]
        for k in range(d):
            L.append(L[-1] @ Y[k][:, i[k], :].astype(LD))
            LB.append(LB[-1] @ np.abs(Y[k][:, i[k], :]).astype(LD))
        R = [np.ones((1, 1), dtype=LD)]
        RB = [np.ones((1, 1), dtype=LD)]
        for k in range(d - 1, -1, -1):
            R.insert(0, Y[k][:, i[k], :].astype(LD) @ R[0])
            RB.insert(0, np.abs(Y[k][:, i[k], :]).astype(LD) @ RB[0])
        for k in range(d):
            E = np.zeros(Y[k].shape, dtype=LD)
            EB = np.zeros(Y[k].shape, dtype=LD)
            E[:, i[k], :] = np.outer(L[k].reshape(-1), R[k + 1].reshape(-1))
            EB[:, i[k], :] = np.outer(LB[k].reshape(-1), RB[k + 1].reshape(-1))
            ctx.close('get_and_grad', grad[k], E,
                C * ref.nterms(Y) * EPS * EB, f'gradient of core {k}')


def pair_observers(ctx, teneva, v1, v2, rng):
    Y1, Y2 = v1.tt, v2.tt
    if max(ref.ranks_of(Y1)) * max(ref.ranks_of(Y2)) > 200:
        ctx.event('pair-skipped-large-rank')
        return
    n = list(v1.A.shape)
    extra = sum(n)
    nt = ref.nterms(Y1) + ref.nterms(Y2) + extra
    sp = teneva.mul_scalar(Y1, Y2)
    ctx.close('mul_scalar', sp, np.sum(v1.A * v2.A),
        C * nt * EPS * np.sum(v1.AB * v2.AB), 'mul_scalar(Y1, Y2)')
    if v1.exact is not None and v2.exact is not None:
        ex = int(np.sum(v1.exact * v2.exact))
        if float(np.sum(v1.AB * v2.AB)) < 2**52:
            ctx.check('int-bitexact', float(sp) == float(ex),
                f'mul_scalar not bit-exact: {sp} vs {ex}')
    # accuracy(Y1, Y2) = ||Y1 - Y2|| / ||Y2||
    acc = teneva.accuracy(Y1, Y2)
    D = v1.A - v2.A
    N1 = np.sum(D * D)
    N2 = np.sum(v2.A * v2.A)
    t1 = C * 2 * nt * EPS * np.sum((v1.AB + v2.AB) ** 2)
    t2 = C * 2 * nt * EPS * np.sum(v2.AB ** 2)
    if N2 - t2 <= 0 or np.sqrt(N2) < 1e-90:
        ctx.skip('accuracy', 'denominator-below-rounding')
    elif not np.isfinite(acc):
        ctx.check('accuracy', False, f'accuracy returned {acc}')
    else:
        a2 = LD(acc) ** 2
        ok = a2 * (N2 - t2) * (1 - 1e-12) <= N1 + t1 and \
            a2 * (N2 + t2) * (1 + 1e-12) >= N1 - t1 and acc >= 0
        ctx.check('accuracy', bool(ok), 'accuracy(Y1, Y2) inconsistent with '
            'the dense relative distance', got=acc,
            ref=float(np.sqrt(N1 / N2)), t1=float(t1), t2=float(t2))
    # dense inputs
    F1 = np.asarray(v1.A, dtype=float)
    F2 = np.asarray(v2.A, dtype=float)
    den = np.linalg.norm(F2)
    if den > 0:
        ctx.close('accuracy', teneva.accuracy(F1, F2),
            ref.fro(LD(1) * F1 - F2) / ref.fro(F2),
            1e-12 * ref.fro(LD(1) * F1 - F2) / ref.fro(F2) + 1e-300,
            'accuracy on ndarrays')
