"""C05 — TT-cross reproduces low-rank tensors; caching is transparent.

Every run is recorded at the boundary (objective batches, callback per sweep,
tensor copies made by cross, info, cache) and judged offline:
(1) exactness on exact-rank targets once the working ranks reached rho,
(2) cache differential: same run with cache={} is bit-identical, only cheaper,
(3) info['r'], info['e_vld'], info['e'] describe the returned tensor.
"""
import numpy as np

from tvmon import crossh, ref, sanit

PID = 'C05'
LEVEL = 'exploration'
RULE = ('targets = random TT of exact rank rho (continuous cores), d=2..6, '
    'mode sizes 1..7, rho=1..4; fixed-rank runs (dr 0/0, start rank rho) and '
    'growing runs (start rank r0<=rho, dr_min>=1), all 0<=dr_min<=dr_max<=3, '
    'nswp 1..6, tau/tau0/k0 varied, with/without validation data; each run '
    'paired with the same run under cache={}; non-trivial = distinct '
    '(shape, rho, start rank, dr, nswp) with rho >= 2 or rank growth')
REQUIRED = {'exact-fixed-rank': 60, 'exact-growing': 60, 'cache-same-cores': 100,
    'cache-counters': 100, 'cache-contents': 100, 'info-r': 200,
    'info-e_vld': 100, 'info-e': 200, 'shape': 200,
    'exact-when-interrupted': 100, 'rank-growth': 60,
    'objective-arrays-untouched': 60, 'info-history': 100}
ASSUMPTIONS = ['objective = dense table lookup, so values do not depend on '
    'the batch they are requested in (needed for the bitwise cache claim)',
    'targets with sigma_rho/sigma_1 < 1e-5 in an unfolding are not judged '
    'for exactness ("almost all")']
COVER = ['cross.cross', 'cross._func', 'cross._func_eval', 'cross._iter', 'utils._info_appr', 'utils._maxvol']
SHARDS = {'quick': 12, 'thorough': 16}
MAX_SKIP_FRACTION = 0.25


def gen_cases(seed, tier):
    rng = np.random.default_rng([seed, 105])
    q = tier == 'quick'
    out = []
    for j in range(360 if q else 9000):
        out.append({'seed': int(rng.integers(1 << 62)),
            'mode': ['fixed', 'grow', 'free'][j % 3]})
    return out


def setup_worker(ctx):
    crossh.install()


def same_cores(A, B):
    return len(A) == len(B) and all(a.shape == b.shape and a.tobytes() ==
        b.tobytes() for a, b in zip(A, B))


def judge_info(ctx, run, I_vld, y_vld, static_only=False):
    import teneva
    Y, info = run.result, run.info
    er = float(teneva.erank(Y))
    ctx.check('info-r', info.get('r') == er,
        f'info["r"] = {info.get("r")} but erank(result) = {er}')
    # independent of the library: || A[I] - y || / || y || from own dense export
    if I_vld is None or y_vld is None:
        ev = -1.
        ok = info.get('e_vld') == -1
    else:
        A = ref.dense_ld(Y)
        ix = tuple(np.asarray(I_vld).T)
        num = ref.fro(A[ix] - np.asarray(y_vld, dtype=ref.LD))
        den = ref.fro(y_vld)
        ev = num / den if den > 0 else np.inf
        slack = 1e3 * ref.EPS * ref.fro(ref.absbound(Y)[ix]) / max(den, 1e-300)
        ok = np.isfinite(ev) and abs(info.get('e_vld') - ev) <= \
            1e-9 * abs(ev) + slack
    ctx.check('info-e_vld', bool(ok),
        f'info["e_vld"] = {info.get("e_vld")} but the returned tensor has '
        f'validation error {ev}', stop=info.get('stop'))
    if static_only:
        return
    # info['e'] = relative distance of the result to the tensor at the end of
    # the previous sweep.  That tensor is taken from the callback log (copy of
    # Y handed to cb one sweep earlier); before the first completed sweep it
    # is the copy cross itself made when the sweep started (interposed copy).
    mid = info.get('stop') in ('m', 'func')
    s = len(run.sweeps)
    if mid:
        Yold = run.sweeps[-1][0] if s else (run.copies[-1]
            if len(run.copies) >= 2 else None)
    elif s >= 2:
        Yold = run.sweeps[-2][0]
    elif s == 1:
        Yold = run.copies[-1] if len(run.copies) >= 2 else run.sweeps[-1][1]
    else:
        Yold = None
    if Yold is None:
        ctx.skip('info-e', 'no-previous-tensor-observable')
        return
    if s and not mid and not same_cores(run.sweeps[-1][1], Yold):
        ctx.check('info-e', False, 'opts["Yold"] handed to the callback is not '
            'the tensor of the previous sweep')
        return
    want = teneva.accuracy(Y, Yold)
    got = info.get('e')
    ok = got == want or (np.isfinite(want) and abs(got - want)
        <= 1e-9 * abs(want) + 1e-300)
    ctx.check('info-e', bool(ok), f'info["e"] = {got} but the relative distance '
        f'of the result to the previous sweep is {want}',
        stop=info.get('stop'), nswp=info.get('nswp'))


def reached_before_last_sweep(run, r0, rt):
    if len(run.sweeps) < 1:
        return False
    if len(run.sweeps) == 1:
        before = r0
    else:
        before = ref.ranks_of(run.sweeps[-2][0])
    return all(a >= b for a, b in zip(before, rt))


def run_case(case, ctx):
    import teneva
    rng = np.random.default_rng(case['seed'])
    for _ in range(100):
        d = int(rng.integers(2, 7))
        n = [int(rng.integers(1, 8)) for _ in range(d)]
        if int(np.prod(n)) <= 4000:
            break
    rho = int(rng.integers(1, 5))
    mode = case['mode']
    if mode == 'grow' and rng.random() < 0.35:
        # small modes, target ranks above every mode size (bond ranks are
        # limited by the unfolding, not by the mode size) - and d = 2
        if rng.random() < 0.3:
            d = 2
            n = [int(rng.integers(3, 8)) for _ in range(d)]
            rho = int(rng.integers(2, min(n) + 1))
        else:
            d = int(rng.integers(4, 8))
            n = [int(rng.integers(2, 4)) for _ in range(d)]
            rho = int(rng.integers(4, 7))
        ctx.event('small-modes-or-d2-growth')
    Tt, rt, T = crossh.make_target(rng, n, rho)
    if mode == 'fixed':
        r0 = list(rt)
        dr_min = dr_max = 0
        nswp = int(rng.integers(2, 7))
    elif mode == 'grow':
        r0s = int(rng.integers(1, rho + 1))
        r0 = [min(r0s, x) for x in rt]
        dr_min = int(rng.integers(1, 4))
        dr_max = int(rng.integers(dr_min, 4))
        nswp = rho - r0s + 1 + int(rng.integers(1, 4))
    else:
        r0s = int(rng.integers(1, rho + 2))
        r0 = [1] + [r0s] * (d - 1) + [1]
        dr_min = int(rng.integers(0, 4))
        dr_max = int(rng.integers(dr_min, 4))
        nswp = int(rng.integers(1, 7))
    Y0 = crossh.start_tensor(rng, n, r0)
    kw = dict(nswp=nswp, dr_min=dr_min, dr_max=dr_max)
    if rng.random() < 0.5:
        kw.update(tau=float(rng.choice([1.01, 1.1, 1.5])),
            tau0=float(rng.choice([1.01, 1.05, 1.3])),
            k0=int(rng.choice([1, 5, 100])))
    I_vld = y_vld = None
    if rng.random() < 0.5:
        m = int(rng.integers(1, 30))
        I_vld = np.stack([rng.integers(0, k, size=m) for k in n], axis=1)
        y_vld = T[tuple(I_vld.T)]
        if rng.random() < 0.3:
            y_vld = y_vld + rng.normal(size=m)
        kw.update(I_vld=I_vld, y_vld=y_vld)
    if rng.random() < 0.25:
        kw['e'] = float(10.0 ** rng.uniform(-12, -2))

    plain = crossh.execute(crossh.Run(T), Y0, **kw)
    cache = {}
    cached = crossh.execute(crossh.Run(T), Y0, cache=cache, **kw)
    for name, run in (('plain', plain), ('cached', cached)):
        if run.error is not None:
            if isinstance(run.error, crossh.Abort):
                ctx.check('shape', not run.bad_rows, f'{name}: objective got '
                    f'an invalid batch {run.bad_rows[:1]}')
                return
            raise run.error
        why = ref.wellformed(run.result, n)
        if not ctx.check('shape', why is None,
                f'{name} run: malformed result: {why}'):
            return
        judge_info(ctx, run, I_vld, y_vld)

    # history: the SAME validation array object, refilled with other values,
    # in a second run (state keyed on object identity would go stale)
    if y_vld is not None:
        ybuf = kw['y_vld']
        ybuf *= 3.0
        ybuf += 0.5
        again = crossh.execute(crossh.Run(T), Y0, **kw)
        if again.error is None and ref.wellformed(again.result, n) is None:
            judge_info(ctx, again, I_vld, ybuf)
            ctx.event('validation-buffer-refilled')
        y_vld = ybuf

    # (1) exactness once the working ranks reached rho
    Y = plain.result
    rr = ref.ranks_of(Y)
    cond = crossh.conditioning(T, rt)
    mon = 'exact-fixed-rank' if mode == 'fixed' else 'exact-growing'
    if mode == 'free' and (any(a < b for a, b in zip(rr, rt))
            or any(a > b for a, b in zip(r0, rt))):
        ctx.event('free-run-ranks-not-comparable')
    elif cond < 1e-5:
        ctx.skip(mon, 'ill-conditioned-target')
    elif mode == 'grow' and not reached_before_last_sweep(plain, r0, rt):
        # growth by >= dr_min >= 1 per sweep for rho - r0 + 2 sweeps or more:
        # the working ranks must have arrived (they are limited by what the
        # unfoldings can carry, which the target ranks already respect)
        before = r0 if len(plain.sweeps) <= 1 else \
            ref.ranks_of(plain.sweeps[-2][0])
        ctx.viol('rank-growth', f'rank growth dr_min = {dr_min} >= 1 for '
            f'{nswp} sweeps from ranks {r0}: ranks before the last sweep '
            f'{before} have not reached the target ranks {rt}', shape=n,
            result_ranks=rr)
    elif not reached_before_last_sweep(plain, r0, rt):
        # the statement promises exactness once the WORKING ranks have reached
        # rho: at least one complete sweep must have been carried out at ranks
        # >= rho (the ranks at the end of sweep nswp-1, from the callback log)
        ctx.skip(mon, 'working-ranks-did-not-reach-rho-before-the-last-sweep')
        ctx.event('ranks-not-reached-in-mode:' + mode + f':d={d}')
    else:
        if mode == 'grow':
            ctx.held('rank-growth')
        err = float(np.abs(np.asarray(ref.dense_ld(Y), dtype=float) - T).max())
        ctx.check(mon, err <= 1e-8 * float(np.abs(T).max()),
            lambda: f'max|cross - target| = {err:.3e} for an exact rank-{rho} '
            f'target (max|T| = {np.abs(T).max():.3e})', shape=n, start=r0,
            dr=[dr_min, dr_max], nswp=nswp, ranks=rr, conditioning=cond)

    # (1b) interrupted after the working ranks have been rho for a complete
    # sweep (fixed-rank mode, sweep >= 2): whatever the request at which the
    # objective gives up or the budget runs out, the returned tensor is still
    # the target (left part new, right part old, exact intersection in between)
    if mode == 'fixed' and cond >= 1e-5 and len(plain.sweeps) >= 2 and \
            len(plain.batches) >= 4 * d and 'e' not in kw:
        sizes = [len(b) for b in plain.batches]
        cum = np.cumsum(sizes)
        ks = {3 * d + 1, 2 * d + 1, int(rng.integers(2 * d + 1, 4 * d + 1))}
        for k in sorted(ks):
            for how in ('none', 'budget'):
                kwi = dict(kw)
                if how == 'none':
                    run = crossh.execute(crossh.Run(T, none_at=k), Y0, **kwi)
                else:
                    kwi['m'] = int(cum[k - 1] - 1)
                    run = crossh.execute(crossh.Run(T), Y0, **kwi)
                if run.error is not None:
                    if isinstance(run.error, crossh.Abort):
                        continue
                    raise run.error
                why = ref.wellformed(run.result, n)
                if not ctx.check('shape', why is None, f'interrupted run '
                        f'({how} at request {k}): malformed result: {why}'):
                    continue
                if run.info['stop'] not in ('func', 'm') or \
                        len(run.batches) != k - 1:
                    ctx.event('interruption-not-at-planned-request')
                    continue
                # an interrupted run reports the rank and the validation
                # error of what it returns, in either half-sweep
                judge_info(ctx, run, I_vld, y_vld, static_only=True)
                err = float(np.abs(np.asarray(ref.dense_ld(run.result),
                    dtype=float) - T).max())
                ctx.check('exact-when-interrupted',
                    err <= 1e-8 * float(np.abs(T).max()),
                    lambda: f'{how} interruption at request {k} (sweep 2, '
                    f'd = {d}; working ranks = target ranks {rt} since the '
                    f'start): max|cross - target| = {err:.3e} '
                    f'(max|T| = {np.abs(T).max():.3e})', shape=n,
                    conditioning=cond)
                ctx.event('interrupted-at-' + ('first-backward-request'
                    if k == 3 * d + 1 else 'first-forward-request'
                    if k == 2 * d + 1 else 'other-request'))

    # (1b') a cached run that is interrupted (objective gives up / budget):
    # the dictionary holds exactly the evaluated index -> value pairs, no
    # more (no entries for requests that were never answered), and can be
    # handed to a continuation run
    K_ = len(cached.batches)
    if K_ >= 2:
        for how in ('none', 'budget'):
            kk = int(rng.integers(1, K_ + 1))
            cch = {}
            if how == 'none':
                runi = crossh.execute(crossh.Run(T, none_at=kk), Y0,
                    cache=cch, **kw)
            else:
                mm = int(sum(len(b) for b in cached.batches[:kk])) - 1
                if mm < 1:
                    continue
                runi = crossh.execute(crossh.Run(T), Y0, cache=cch,
                    **dict(kw, m=mm))
            if runi.error is not None:
                if isinstance(runi.error, crossh.Abort):
                    continue
                raise runi.error
            rows_i = {tuple(int(x) for x in r_) for b in runi.batches
                for r_ in b}
            okc = set(cch.keys()) == rows_i and all(type(cch[k_]) is float
                and cch[k_] == float(T[k_]) for k_ in rows_i)
            ctx.check('cache-contents', okc, lambda: f'cached run interrupted '
                f'({how}, stop {runi.info.get("stop")!r}): the dictionary '
                f'holds {len(cch)} keys, {len(rows_i)} indices were '
                f'evaluated; non-float values: '
                f'{sum(1 for v_ in cch.values() if type(v_) is not float)}')
            ctx.check('cache-counters', runi.info['m'] == runi.evaluated,
                f'interrupted cached run: info["m"] = {runi.info["m"]}, '
                f'{runi.evaluated} evaluated')
            if ref.wellformed(runi.result, n) is None:
                judge_info(ctx, runi, I_vld, y_vld, static_only=True)
                if runi.info.get('stop') in ('m', 'func') and \
                        y_vld is not None:
                    ctx.event('interrupted-run-info-judged-with-validation')
            # continuation with the same dictionary
            cont = crossh.execute(crossh.Run(T), Y0, cache=cch, **kw)
            if cont.error is not None:
                if not isinstance(cont.error, crossh.Abort):
                    raise cont.error
            elif cached.info['stop'] != 'conv' and cont.info['stop'] != 'conv':
                ctx.check('cache-same-cores', same_cores(cont.result,
                    plain.result), 'a run continued on the dictionary of an '
                    'interrupted run differs from the run without cache')
            ctx.event('interrupted-cached-run-' + how)

    # (1b'') the objective's own arrays: an objective that memoises whole
    # batches hands out the same array object for a repeated request (fixed
    # rank, sweep >= 2); its arrays belong to it
    if rng.random() < 0.5:
        rm = crossh.Run(T, memo=True)
        runm = crossh.execute(rm, Y0, **kw)
        if runm.error is None:
            ctx.check('objective-arrays-untouched', rm.memo_intact(),
                'TT-cross wrote into an array that the objective had '
                'returned (seen when the objective hands out the same array '
                'for a repeated batch)', shape=n, mode=mode)
            ctx.check('cache-same-cores', same_cores(runm.result,
                plain.result), 'run with a batch-memoising objective differs '
                'from the run with a fresh array per request')
        elif not isinstance(runm.error, crossh.Abort):
            raise runm.error
    # answers in float32 (values exactly representable): cache or not, the
    # same cores
    if rng.random() < 0.4:
        T32 = T.astype(np.float32).astype(float)
        r32 = [crossh.execute(crossh.Run(T32, answer_dtype=np.float32), Y0,
            **dict(kw, **extra)) for extra in ({}, {'cache': {}})]
        if all(r_.error is None for r_ in r32):
            if r32[1].info['stop'] != 'conv':
                ctx.check('cache-same-cores', same_cores(r32[0].result,
                    r32[1].result) and all(G.dtype == np.float64 for G in
                    r32[0].result), 'objective answering in float32: the '
                    'cores with and without cache differ (or are not float64)')
            ctx.event('float32-answers')

    # (1b''') the cache as a dict SUBCLASS (defaultdict, OrderedDict): still a
    # dictionary; membership is what decides whether an index is known
    if rng.random() < 0.4:
        import collections
        csub = [collections.defaultdict(float), collections.OrderedDict(),
            collections.defaultdict(lambda: None)][int(rng.integers(3))]
        runs_ = crossh.execute(crossh.Run(T), Y0, cache=csub, **kw)
        if runs_.error is None:
            rows_s = {tuple(int(x) for x in r_) for b in runs_.batches
                for r_ in b}
            ctx.check('cache-contents', set(csub.keys()) == rows_s and all(
                csub[k_] == float(T[k_]) for k_ in rows_s), lambda: 'cache '
                f'given as {type(csub).__name__}: {len(csub)} keys, '
                f'{len(rows_s)} indices evaluated')
            if cached.info['stop'] != 'conv' and runs_.info['stop'] != 'conv':
                ctx.check('cache-same-cores', same_cores(runs_.result,
                    plain.result), f'cache given as {type(csub).__name__}: '
                    'cores differ from the run without cache')
        elif not isinstance(runs_.error, crossh.Abort):
            raise runs_.error

    # (1c) nswp = 0: only the pre-iteration, no evaluation; info and cache
    # must still describe the returned tensor
    kw0 = {k: v for k, v in kw.items() if k not in ('nswp', 'e')}
    cache0 = {}
    run0 = crossh.execute(crossh.Run(T), Y0, nswp=0, cache=cache0, **kw0)
    if run0.error is not None:
        if not isinstance(run0.error, crossh.Abort):
            raise run0.error
    else:
        why = ref.wellformed(run0.result, n)
        if ctx.check('shape', why is None, f'nswp=0 run: malformed: {why}'):
            judge_info(ctx, run0, I_vld, y_vld)
            rows0 = {tuple(int(x) for x in r) for b in run0.batches for r in b}
            ctx.check('cache-contents', set(cache0.keys()) == rows0 and all(
                cache0[k] == float(T[k]) for k in rows0), 'nswp=0 run: cache '
                f'holds {len(cache0)} keys, {len(rows0)} indices evaluated')
            ctx.event('nswp-zero-run')

    # (1c) what an EARLIER run left in the info dictionary: a budgeted run,
    # then the run of (1) again with the same dictionary object (and once with
    # the library's shared default dictionary): the second run is a run of its
    # own arguments - same sweeps, same cores as with a fresh dictionary
    if plain.error is None and plain.evaluated > 4:
        shared = {}
        mb = int(rng.integers(2, max(3, plain.evaluated // 2)))
        kwb = {k: v for k, v in kw.items() if k not in ('nswp', 'e')}
        first = crossh.execute(crossh.Run(T), Y0, m=mb, info=shared, **kwb)
        second = crossh.execute(crossh.Run(T), Y0, info=shared, **kw)
        if first.error is None and second.error is None:
            ctx.check('info-history', same_cores(second.result, plain.result)
                and second.evaluated == plain.evaluated, lambda: 'a run whose '
                f'info dictionary had been used by a budgeted run (m={mb}) '
                f'before evaluated {second.evaluated} indices (stop '
                f'{second.info.get("stop")!r}), with a fresh dictionary '
                f'{plain.evaluated} (stop {plain.info.get("stop")!r}); cores '
                f'equal: {same_cores(second.result, plain.result)}', shape=n)
        f2 = crossh.execute(crossh.Run(T), Y0, pass_info=False, m=mb, **kwb)
        s2 = crossh.execute(crossh.Run(T), Y0, pass_info=False, **kw)
        if f2.error is None and s2.error is None:
            ctx.check('info-history', same_cores(s2.result, plain.result)
                and s2.evaluated == plain.evaluated, lambda: 'a run with the '
                'default info dictionary after a budgeted run with the default '
                f'dictionary evaluated {s2.evaluated} indices, a run with a '
                f'fresh dictionary {plain.evaluated}; cores equal: '
                f'{same_cores(s2.result, plain.result)}', shape=n)

    # (2) cache differential
    ip, ic = plain.info, cached.info
    if ic['stop'] == 'conv':
        s = ic['nswp']
        ok = len(plain.sweeps) >= s and same_cores(cached.result,
            plain.sweeps[s - 1][0])
        ctx.check('cache-same-cores', ok, 'cached run stopped with "conv" at '
            f'sweep {s} but differs from the uncached trajectory there')
        ctx.event('conv-stop')
    else:
        ctx.check('cache-same-cores', same_cores(cached.result, plain.result)
            and ic['nswp'] == ip['nswp'] and ic['stop'] == ip['stop'],
            lambda: 'cached and uncached runs differ: '
            f'nswp {ic["nswp"]} vs {ip["nswp"]}, stop {ic["stop"]} vs '
            f'{ip["stop"]}, cores equal: '
            f'{same_cores(cached.result, plain.result)}', shape=n, kw=str(kw)[:200])
        ctx.check('cache-counters', ic['m'] + ic['m_cache'] == ip['m']
            and ic['m'] <= ip['m'] and ip['m_cache'] == 0,
            f'm_cached {ic["m"]} + m_cache {ic["m_cache"]} != m_plain {ip["m"]}')
    ctx.check('cache-counters', ic['m'] == cached.evaluated
        and ip['m'] == plain.evaluated, f'info["m"] = {ic["m"]}/{ip["m"]} but '
        f'the objective evaluated {cached.evaluated}/{plain.evaluated} rows')
    rows = [tuple(int(x) for x in r) for b in cached.batches for r in b]
    ok = len(rows) == len(set(rows))
    ctx.check('cache-contents', ok, 'a multi-index was evaluated twice although '
        'a cache was supplied')
    want = {r: float(T[r]) for r in rows}
    ok = set(cache.keys()) == set(want.keys()) and all(
        type(cache[k]) is float and cache[k] == want[k] for k in want)
    ctx.check('cache-contents', ok, 'cache dictionary != evaluated '
        f'index -> value pairs ({len(cache)} keys vs {len(want)} evaluated)')
    ctx.check('cache-contents', not sanit.aliases(cached.result, Y0),
        'result aliases the initial tensor')
    if rho >= 2 or any(a > b for a, b in zip(rr, r0)):
        ctx.nontrivial([n, rho, r0, dr_min, dr_max, nswp, mode])
    ctx.sample({'case': case, 'shape': n, 'target_ranks': rt, 'start_ranks': r0,
        'dr': [dr_min, dr_max], 'nswp': nswp, 'result_ranks': rr,
        'm_plain': ip['m'], 'm_cached': ic['m'], 'm_cache': ic['m_cache'],
        'stop': [ip['stop'], ic['stop']], 'batches': len(plain.batches),
        'max_abs_err': float(np.abs(np.asarray(ref.dense_ld(Y), dtype=float)
            - T).max())})
