"""C20 — incomplete TT-SVD recovers low-rank tensors from its structured samples.

Workload: target of exact TT-rank rho (continuous cores) -> sample_tt(n, m) ->
values read from the dense target -> svd_incomplete.  Oracle: dense target.
Conditioning of the sampled blocks is computed from the target and the sample
set only (independent of the routine); ill-conditioned instances are not judged.
"""
import numpy as np

from tvmon import gen, ref

PID = 'C20'
LEVEL = 'exploration'
RULE = ('targets of TT-rank rho=1..4 with continuous random cores, d=2..6, '
    'expected rank m in [rho, rho+2], every mode size >= m, cap r >= rho (or '
    'default), sample seeds (int and Generator), scales 1e-3..1e3; '
    'non-trivial = distinct (shape, rho, m, cap) with rho >= 2 or d >= 3')
REQUIRED = {'wellformed': 200, 'ranks-cap': 200, 'recovery': 150,
    'recovery-second-call': 150, 'recovery-long': 30,
    'result-independent-of-buffer': 150}
ASSUMPTIONS = ['instances whose sampled blocks have sigma_rho/sigma_1 < 1e-5 '
    '(from the dense target restricted to the sample set) are not judged',
    'recovery tolerance 1e-7 max|T| ("up to rounding" for blocks of '
    'conditioning <= 1e5)']
COVER = ['svd.svd_incomplete', 'sample.sample_tt', 'sample.sample_lhs']
SHARDS = {'quick': 12, 'thorough': 16}
MAX_SKIP_FRACTION = 0.3


def gen_cases(seed, tier):
    rng = np.random.default_rng([seed, 120])
    out = [{'seed': int(rng.integers(1 << 62))}
        for _ in range(2000 if tier == 'quick' else 40000)]
    nl = 72 if tier == 'quick' else 1800
    step = max(1, len(out) // nl)
    for j in range(nl):
        out.insert(j * step, {'seed': int(rng.integers(1 << 62)), 'long': True})
    return out


def block_conditioning(T, I, idx, idx_many, rt, y=None, n=None):
    """Worst sigma_rank/sigma_1 over the sampled blocks (both unfoldings);
    from the dense target T or, for tensors without one, from the sample
    values y themselves."""
    d = T.ndim if T is not None else len(n)
    worst = 1.
    for k in range(d):
        Ik = I[idx[k]:idx[k + 1]]
        vals = T[tuple(Ik.T)] if T is not None else y[idx[k]:idx[k + 1]]
        len2 = int(idx_many[k])
        nk = T.shape[k] if T is not None else n[k]
        len1 = len(vals) // (nk * len2)
        B = vals.reshape(nk, len1, len2)       # index slowest, suffix fastest
        for M, rk in ((B.transpose(1, 0, 2).reshape(len1, -1), rt[k]),
                (B.reshape(-1, len2), rt[k + 1])):
            s = np.linalg.svd(M, compute_uv=False)
            if len(s) < rk or not s[0] > 0:
                return 0.
            worst = min(worst, float(s[rk - 1] / s[0]))
    return worst


def entries(Y, I):
    """Entries of a TT-tensor at the rows of I (own longdouble chain)."""
    I = np.asarray(I)
    v = np.ones((len(I), 1), dtype=ref.LD)
    for k, G in enumerate(Y):
        v = np.einsum('sa,asb->sb', v, np.asarray(G, dtype=ref.LD)[:, I[:, k], :])
    return np.asarray(v[:, 0], dtype=float)


def run_long(case, ctx):
    """Tensors with more than 2^63 elements (no dense reference; element
    counts and index products do not fit int64): recovery is judged through
    scalar products computed with separate exponents."""
    import teneva
    rng = np.random.default_rng(case['seed'])
    nm, lo, hi = [(2, 64, 100), (3, 41, 60), (4, 32, 45), (2, 40, 62)][
        int(rng.integers(4))]
    d = int(rng.integers(lo, hi + 1))
    n = [nm] * d
    rho = int(rng.integers(1, min(nm, 3) + 1))
    m = int(rng.integers(rho, nm + 1))
    Y, rt = gen.exact_rank_tt(rng, n, rho)
    sseed = int(rng.integers(1 << 30))
    I, idx, idx_many = teneva.sample_tt(n, m, sseed if rng.random() < 0.7
        else np.random.default_rng(sseed))
    I = np.asarray(I)
    if not ctx.check('wellformed', I.ndim == 2 and I.shape[1] == d and bool(
            np.all(I >= 0) and np.all(I < nm)), 'sample_tt returned indices '
            f'outside the tensor (d = {d}, n = {nm})'):
        return
    y = entries(Y, I)
    cap = [1e12, rho, rho + 1, m][int(rng.integers(4))]
    Z = teneva.svd_incomplete(I, y, idx, idx_many, 1e-10 * float(
        np.abs(y).max()), cap)
    why = ref.wellformed(Z, n)
    if not ctx.check('wellformed', why is None, f'svd_incomplete (d = {d}, '
            f'{nm}^{d} > 2^63 elements): malformed result: {why}'):
        return
    rz = ref.ranks_of(Z)
    ctx.check('ranks-cap', all(q <= max(1, int(min(cap, 1e9))) for q in rz),
        f'ranks {rz} exceed the cap {cap}')
    cond = block_conditioning(None, I, idx, idx_many, rt, y=y, n=n)
    if cond < 1e-5:
        ctx.skip('recovery-long', 'ill-conditioned-sampled-block')
        return
    LD = ref.LD
    a, b, c = (ref.scaled_scalar_product(Z, Z), ref.scaled_scalar_product(Z, Y),
        ref.scaled_scalar_product(Y, Y))
    zz = np.ldexp(LD(a[0]), int(a[1] - c[1]))
    zy = np.ldexp(LD(b[0]), int(b[1] - c[1]))
    rel = float(np.sqrt(abs(zz - 2 * zy + LD(c[0])) / LD(c[0])))
    # accumulated first-order amplification d eps / cond <= 1e-9; the
    # threshold leaves six orders of magnitude (a lost rank gives O(1))
    ctx.check('recovery-long', rel <= 1e-3, lambda: f'||Z - T|| / ||T|| = '
        f'{rel:.3e} for a rank-{rho} tensor of shape [{nm}]*{d} (more than '
        f'2^{int(d * np.log2(nm))} elements) sampled for expected rank {m}',
        cap=cap, ranks_result=rz, conditioning=cond)
    ctx.margins['recovery-long'] = max(ctx.margins.get('recovery-long', 0.),
        rel / 1e-3)
    ctx.nontrivial(['long', nm, d, rho, m, cap])


def run_case(case, ctx):
    import teneva
    if case.get('long'):
        return run_long(case, ctx)
    rng = np.random.default_rng(case['seed'])
    rho = int(rng.integers(1, 5))
    m = rho + int(rng.integers(0, 3))
    for _ in range(100):
        d = int(rng.integers(2, 7))
        n = [int(rng.integers(m, m + 4)) for _ in range(d)]
        if int(np.prod(n)) <= 6000:
            break
    else:
        d, n = 2, [m, m + 1]
    if rng.random() < 0.15:
        # one long mode (mode size times expected rank beyond 255 / 65535 is
        # where index arithmetic in a narrow dtype would wrap)
        d = int(rng.integers(2, 4))
        n = [int(rng.integers(m, m + 2)) for _ in range(d)]
        n[int(rng.integers(d))] = int(rng.integers(64, 301))
        ctx.event('one-long-mode')
    Y, rt = gen.exact_rank_tt(rng, n, rho)
    if len(n) >= 4 and rho >= 2 and rng.random() < 0.3:
        # rank profiles that fall and rise again along the chain (3, 2, 3)
        rt = list(rt)
        for k in range(1, len(n)):
            rt[k] = int(rng.integers(1, rt[k] + 1))
        rt[int(rng.integers(1, len(n)))] = min(rho, rt[1] if False else rho)
        for k in range(1, len(n)):       # keep what the unfoldings can carry
            rt[k] = int(min(rt[k], np.prod(n[:k]), np.prod(n[k:])))
        Y = gen.cores(rng, n, rt, 'normal')
        ctx.event('non-uniform-rank-profile')
    scale = 10.0 ** rng.uniform(-3, 3)
    tiny = False
    if rng.random() < 0.15:
        scale = 10.0 ** rng.uniform(100, 250)      # huge but representable
    elif rng.random() < 0.2:
        # tiny tensors (entries 1e-12..1e-30): the caller passes an accuracy
        # to match, which every internal truncation has to honour
        scale = 10.0 ** rng.uniform(-30, -12)
        tiny = True
    Y[int(rng.integers(d))] *= scale
    T = np.asarray(ref.dense_ld(Y), dtype=float)
    sseed = int(rng.integers(1 << 30))
    seed_arg = sseed if rng.random() < 0.7 else np.random.default_rng(sseed)
    if rng.random() < 0.5:
        # history: the same grid and seed asked for ANOTHER expected rank first
        m_other = int(rng.integers(1, m + 3))
        if m_other != m and m_other <= min(n):
            teneva.sample_tt(n, m_other, sseed)
            ctx.event('sample_tt-other-expected-rank-first')
    I, idx, idx_many = teneva.sample_tt(n, m, seed_arg)
    I = np.asarray(I)
    ok = I.ndim == 2 and I.shape[1] == d and np.all(I >= 0) and \
        np.all(I < np.array(n))
    if not ctx.check('wellformed', bool(ok), 'sample_tt returned indices '
            'outside the tensor'):
        return
    # the sample set is the one for THIS expected rank: m suffixes per inner
    # block (mode sizes are >= m, so the Latin hypercubes have m rows)
    want_many = [m] * (d - 1) + [1]
    if not ctx.check('wellformed', [int(x) for x in idx_many] == want_many
            and len(idx) == d + 1 and int(idx[-1]) == len(I), lambda:
            f'sample_tt(n, {m}): idx_many = {[int(x) for x in idx_many]}, '
            f'expected {want_many} (sample set of another expected rank?)'):
        return
    y = T[tuple(I.T)]
    cap = [1e12, rho, rho + 1, m][int(rng.integers(4))]
    if cap != 1e12 and rng.random() < 0.4:
        # the cap as a float with an integer value (the documented default
        # 1e12 is a float as well), also where it ties with a block width
        cap = [float(cap), np.float64(cap), np.int64(cap)][int(rng.integers(3))]
        ctx.event('cap-as-' + type(cap).__name__)
    u = rng.random()
    if tiny:
        e_t = 1e-10 * float(np.abs(y).max())
        if m > rho and rng.random() < 0.7:
            cap = int(rng.integers(rho, m))          # rho <= cap < m
        Z = teneva.svd_incomplete(I, y, idx, idx_many, e_t, cap) \
            if rng.random() < 0.5 else \
            teneva.svd_incomplete(I, y, idx, idx_many, e=e_t, r=cap)
        ctx.event('tiny-scale-with-matching-accuracy')
    elif cap == 1e12 and u < 0.5:
        Z = teneva.svd_incomplete(I, y, idx, idx_many)
    elif u < 0.75:
        Z = teneva.svd_incomplete(I, y, idx, idx_many, 1e-10, cap)
    else:
        Z = teneva.svd_incomplete(I, y, idx, idx_many, e=1e-10, r=cap)
    why = ref.wellformed(Z, n)
    if not ctx.check('wellformed', why is None, f'svd_incomplete returned a '
            f'malformed tensor: {why}', shape=n, rho=rho, m=m, cap=cap):
        return
    rz = ref.ranks_of(Z)
    ctx.check('ranks-cap', all(q <= max(1, int(min(cap, 1e9))) for q in rz),
        f'ranks {rz} exceed the cap {cap}')
    cond = block_conditioning(T, I, idx, idx_many, rt)
    if cond < 1e-5:
        ctx.skip('recovery', 'ill-conditioned-sampled-block')
    else:
        err = float(np.abs(np.asarray(ref.dense_ld(Z), dtype=float) - T).max())
        tmax = float(np.abs(T).max())
        ctx.check('recovery', err <= 1e-7 * tmax, lambda: f'max|Z - T| = '
            f'{err:.3e} > 1e-7 max|T| = {1e-7 * tmax:.3e} for a rank-{rho} '
            f'target sampled for expected rank {m}', shape=n, cap=cap,
            ranks_target=rt, ranks_result=rz, conditioning=cond)
        ctx.margins['recovery'] = max(ctx.margins.get('recovery', 0.),
            err / (1e-7 * tmax))
        # history: the sample buffer is refilled after the call (the next
        # batch of measurements): the returned tensor must not follow it
        if isinstance(y, np.ndarray) and y.flags.writeable:
            y_keep = y.copy()
            shared = [k for k, G in enumerate(Z) if np.shares_memory(G, y)]
            y[...] = rng.normal(size=y.shape) * tmax
            err_b = float(np.abs(np.asarray(ref.dense_ld(Z), dtype=float)
                - T).max())
            ctx.check('result-independent-of-buffer', not shared and
                err_b <= 1e-7 * tmax, lambda: 'svd_incomplete: the returned '
                f'cores {shared} share memory with the sample array; after '
                f'the buffer was refilled max|Z - T| = {err_b:.3e} (before: '
                f'{err:.3e})', cap=cap, m=m)
            y[...] = y_keep
        # history: the same sample arrays handed in a second time (a caller
        # comparing caps, or re-fitting after the first result was consumed)
        Z2 = teneva.svd_incomplete(I, y, idx, idx_many, e_t if tiny
            else 1e-10, cap)
        if ctx.check('wellformed', ref.wellformed(Z2, n) is None,
                'second svd_incomplete call on the same arrays: malformed'):
            err2 = float(np.abs(np.asarray(ref.dense_ld(Z2), dtype=float)
                - T).max())
            ctx.check('recovery-second-call', err2 <= 1e-7 * tmax, lambda:
                f'second call on the same sample arrays: max|Z - T| = '
                f'{err2:.3e} > {1e-7 * tmax:.3e} (first call: {err:.3e})',
                shape=n, cap=cap)
    if rho >= 2 or d >= 3:
        ctx.nontrivial([n, rho, m, cap])
    ctx.sample({'case': case, 'shape': n, 'target_ranks': rt, 'expected_rank': m,
        'cap': cap, 'samples': int(len(I)), 'result_ranks': rz,
        'block_conditioning': cond, 'max_abs_error': float(np.abs(np.asarray(
        ref.dense_ld(Z), dtype=float) - T).max()), 'max_abs_T':
        float(np.abs(T).max())})
