"""C20 — incomplete TT-SVD recovers low-rank tensors from its structured samples.

Workload: target of exact TT-rank rho (continuous cores) -> sample_tt(n, m) ->
values read from the dense target -> svd_incomplete.  Oracle: dense target.
Conditioning of the sampled blocks is computed from the target and the sample
set only (independent of the routine); ill-conditioned instances are not judged.
"""
import numpy as np

from tvmon import gen, ref

PID = 'C20'
LEVEL = 'exploration'
RULE = ('targets of TT-rank rho=1..4 with continuous random cores, d=2..6, '
    'expected rank m in [rho, rho+2], every mode size >= m, cap r >= rho (or '
    'default), sample seeds (int and Generator), scales 1e-3..1e3; '
    'non-trivial = distinct (shape, rho, m, cap) with rho >= 2 or d >= 3')
REQUIRED = {'wellformed': 200, 'ranks-cap': 200, 'recovery': 150,
    'recovery-second-call': 150}
ASSUMPTIONS = ['instances whose sampled blocks have sigma_rho/sigma_1 < 1e-5 '
    '(from the dense target restricted to the sample set) are not judged',
    'recovery tolerance 1e-7 max|T| ("up to rounding" for blocks of '
    'conditioning <= 1e5)']
COVER = ['svd.svd_incomplete', 'sample.sample_tt', 'sample.sample_lhs']
SHARDS = {'quick': 12, 'thorough': 16}
MAX_SKIP_FRACTION = 0.3


def gen_cases(seed, tier):
    rng = np.random.default_rng([seed, 120])
    return [{'seed': int(rng.integers(1 << 62))}
        for _ in range(2000 if tier == 'quick' else 40000)]


def block_conditioning(T, I, idx, idx_many, rt):
    """Worst sigma_rank/sigma_1 over the sampled blocks (both unfoldings)."""
    d = T.ndim
    worst = 1.
    for k in range(d):
        Ik = I[idx[k]:idx[k + 1]]
        vals = T[tuple(Ik.T)]
        len2 = int(idx_many[k])
        nk = T.shape[k]
        len1 = len(vals) // (nk * len2)
        B = vals.reshape(nk, len1, len2)       # index slowest, suffix fastest
        for M, rk in ((B.transpose(1, 0, 2).reshape(len1, -1), rt[k]),
                (B.reshape(-1, len2), rt[k + 1])):
            s = np.linalg.svd(M, compute_uv=False)
            if len(s) < rk or not s[0] > 0:
                return 0.
            worst = min(worst, float(s[rk - 1] / s[0]))
    return worst


def run_case(case, ctx):
    import teneva
    rng = np.random.default_rng(case['seed'])
    rho = int(rng.integers(1, 5))
    m = rho + int(rng.integers(0, 3))
    for _ in range(100):
        d = int(rng.integers(2, 7))
        n = [int(rng.integers(m, m + 4)) for _ in range(d)]
        if int(np.prod(n)) <= 6000:
            break
    else:
        d, n = 2, [m, m + 1]
    Y, rt = gen.exact_rank_tt(rng, n, rho)
    scale = 10.0 ** rng.uniform(-3, 3)
    if rng.random() < 0.15:
        scale = 10.0 ** rng.uniform(100, 250)      # huge but representable
    Y[int(rng.integers(d))] *= scale
    T = np.asarray(ref.dense_ld(Y), dtype=float)
    sseed = int(rng.integers(1 << 30))
    seed_arg = sseed if rng.random() < 0.7 else np.random.default_rng(sseed)
    I, idx, idx_many = teneva.sample_tt(n, m, seed_arg)
    I = np.asarray(I)
    ok = I.ndim == 2 and I.shape[1] == d and np.all(I >= 0) and \
        np.all(I < np.array(n))
    if not ctx.check('wellformed', bool(ok), 'sample_tt returned indices '
            'outside the tensor'):
        return
    y = T[tuple(I.T)]
    cap = [1e12, rho, rho + 1, m][int(rng.integers(4))]
    u = rng.random()
    if cap == 1e12 and u < 0.5:
        Z = teneva.svd_incomplete(I, y, idx, idx_many)
    elif u < 0.75:
        Z = teneva.svd_incomplete(I, y, idx, idx_many, 1e-10, cap)
    else:
        Z = teneva.svd_incomplete(I, y, idx, idx_many, e=1e-10, r=cap)
    why = ref.wellformed(Z, n)
    if not ctx.check('wellformed', why is None, f'svd_incomplete returned a '
            f'malformed tensor: {why}', shape=n, rho=rho, m=m, cap=cap):
        return
    rz = ref.ranks_of(Z)
    ctx.check('ranks-cap', all(q <= max(1, int(min(cap, 1e9))) for q in rz),
        f'ranks {rz} exceed the cap {cap}')
    cond = block_conditioning(T, I, idx, idx_many, rt)
    if cond < 1e-5:
        ctx.skip('recovery', 'ill-conditioned-sampled-block')
    else:
        err = float(np.abs(np.asarray(ref.dense_ld(Z), dtype=float) - T).max())
        tmax = float(np.abs(T).max())
        ctx.check('recovery', err <= 1e-7 * tmax, lambda: f'max|Z - T| = '
            f'{err:.3e} > 1e-7 max|T| = {1e-7 * tmax:.3e} for a rank-{rho} '
            f'target sampled for expected rank {m}', shape=n, cap=cap,
            ranks_target=rt, ranks_result=rz, conditioning=cond)
        ctx.margins['recovery'] = max(ctx.margins.get('recovery', 0.),
            err / (1e-7 * tmax))
        # history: the same sample arrays handed in a second time (a caller
        # comparing caps, or re-fitting after the first result was consumed)
        Z2 = teneva.svd_incomplete(I, y, idx, idx_many, 1e-10, cap)
        if ctx.check('wellformed', ref.wellformed(Z2, n) is None,
                'second svd_incomplete call on the same arrays: malformed'):
            err2 = float(np.abs(np.asarray(ref.dense_ld(Z2), dtype=float)
                - T).max())
            ctx.check('recovery-second-call', err2 <= 1e-7 * tmax, lambda:
                f'second call on the same sample arrays: max|Z - T| = '
                f'{err2:.3e} > {1e-7 * tmax:.3e} (first call: {err:.3e})',
                shape=n, cap=cap)
    if rho >= 2 or d >= 3:
        ctx.nontrivial([n, rho, m, cap])
    ctx.sample({'case': case, 'shape': n, 'target_ranks': rt, 'expected_rank': m,
        'cap': cap, 'samples': int(len(I)), 'result_ranks': rz,
        'block_conditioning': cond, 'max_abs_error': float(np.abs(np.asarray(
        ref.dense_ld(Z), dtype=float) - T).max()), 'max_abs_T':
        float(np.abs(T).max())})
