"""C18 - grid index <-> point maps round-trip exactly and clamp to the box.

Families of cases (all drive the real teneva functions; every oracle is a
closed formula evaluated in longdouble / exact rationals / Python ints):

  grid1d   one (kind, n, box): EXHAUSTIVE over all indices 0..n-1:
           poi_to_ind(ind_to_poi(i)) == i, end points, images inside the box,
           nearest-node oracle for random / near-cell-boundary / node+-1ulp
           points inside, clamping of points outside (1 ulp .. 1e308 away)
  gridnd   d = 1..4 with per-dimension (a, b, n): every index of every
           dimension (column k holds a permutation of arange(m) % n_k),
           per-dimension separability, scalar vs per-dimension options,
           single point vs batch, list vs ndarray arguments
  scale    poi_scale 'uni' / 'cheb' / [a_new, b_new]: exact-rational
           reference with a rounding-model tolerance, exact clipping, and
           BIT equality on dyadic boxes where every intermediate is exact
  flat     grid_flat: row j == unravel(j, n, order='F'), distinct rows, arange
  opts     grid_prep_opt / grid_prep_opts: shapes, dtypes, reps, ValueError
           cases; length mismatches handed to the public functions
  cdf      cdf_getter == #{x_i <= z} / m at sample points (with ties),
           neighbours (+-1 ulp), midpoints, outside, +-inf

Box restriction (DESIGN.md, C18): K = max(|a|,|b|)/(b-a) <= 1e4 and
K n^2 2^-52 < 1e-3 (Chebyshev) / K n 2^-52 < 1e-3 (uniform); outside this the
nodes themselves are not distinct doubles / not separable by any evaluation in
double precision.  Within it the separation of neighbouring nodes in the
scaled coordinate exceeds the rounding error of a backward-stable evaluation
by a factor >= 300 (see `_restriction_note`), so the exact round trip is a
fair demand on any implementation.

Rounding models (u = 2^-53 unit roundoff, EPS = 2u, C = 10 safety factor):

* images / end points: uniform x = fl(fl(fl(i/(n-1)) fl(b-a)) + a) is off the
  exact node by <= u(3w + M), Chebyshev x = fl(fl(c w')/2 + fl(fl(a+b)/2))
  with |c| <= 1 by <= u(w + 2M), w = b-a, M = max(|a|,|b|); both are
  <= 1.5 EPS (w+M).  The design's slack 4(1+K) ulp := 4 EPS w (1+K)
  = 4 EPS (w+M) is used (factor >= 2.6 above the worst-case bound).
  Index 0 of the uniform grid is 0*(b-a)+a == a exactly.
* nearest node: the scaled coordinate of x is known to the implementation
  only up to a backward error e: uniform t = (x-a)/(b-a): three roundings,
  relative (x-a is rounded once, no cancellation error) -> e = 4u t;
  Chebyshev s = (x - fl((a+b)/2)) * fl(2/fl(b-a)): |ds| <= 2uK + 4u|s|
  -> e = C (2K+4) u.  The returned index must lie within 0.5 of the exact grid
  parameter position of SOME coordinate in [s-e, s+e] (arccos is evaluated in
  longdouble at both ends, so the sqrt-type sensitivity at the box ends is
  modelled, not guessed), widened by the design's 0.5e-6 and by 4u relative
  for arccos, /pi, *(n-1).  Exact ties may go either way.
* poi_scale: uniform 4u|v|; Chebyshev u(2K+4) (covers both
  (x-c)*2/w and 2(x-a)/w-1); custom limits
  u[4(|x (a'-b')| + |a b'| + |b a'|)/w + 3|v| + 2 max(|a'|,|b'|)] (covers the
  expanded formula and a' + t (b'-a')); all times C.
* cdf_getter: y_k = linspace(1/m, 1, m)[k-1] = fl(fl((k-1) step) + fl(1/m)),
  |y_k - k/m| <= 6u -> tolerance 32 EPS (C > 10); exactly 0 below the sample
  and exactly 1 from the maximum on.
"""
from fractions import Fraction

import numpy as np

from tvmon.ref import LD, EPS

PID = 'C18'
LEVEL = 'exploration'
EXHAUSTIVE = False
RULE = ('per (kind, n, box) ALL indices 0..n-1 are round-tripped, n in '
    '{2,3,4,5,7,10,33,100,257,1000,4097} plus every n in 2..300 (thorough: '
    '20 instances per descriptor, also n = 16385, 65537, 1000001 and random '
    'n in 301..20000); for n <= 4097 both sides of EVERY cell boundary are '
    'probed at distances 0..1e-2 cells; boxes of width 1e-6..1e6, offset/width '
    'K <= 1e4 restricted by K n^2 2^-52 < 1e-3 (cheb) / K n 2^-52 < 1e-3 '
    '(uni), styles symmetric / zero end / integer / dyadic / offset / '
    'straddling; d = 1..4 with per-dimension options; non-trivial = '
    'distinct (family, kind, n or shape, width decade, K decade, argument '
    'forms) where the box is not the reference box, n >= 3 and at least '
    'one tested point lies within 1e-3 cells of a cell boundary (grid '
    'families), points on both sides of the clipping limits (scale), >= 2 '
    'dimensions with different sizes (flat), a sample with ties (cdf), a '
    'mismatching option (opts)')
REQUIRED = {
    'roundtrip': {'quick': 40000, 'thorough': 800000},
    'endpoints': {'quick': 40000, 'thorough': 800000},
    'in-box': {'quick': 40000, 'thorough': 800000},
    'int-range': {'quick': 40000, 'thorough': 800000},
    'nearest': {'quick': 40000, 'thorough': 800000},
    'clamp-outside': {'quick': 40000, 'thorough': 800000},
    'separable': 5000, 'scalar-vs-vector': 2000, 'single-vs-batch': 5000,
    'scale-affine': 10000, 'scale-clip': 10000, 'scale-dyadic-exact': 2000,
    'scale-shape': 10000, 'grid-flat': 2000, 'prep-opt': 2000,
    'prep-reject': 2000, 'reject-public': 4000, 'cdf': 2000,
    'cdf-batch-forms': 1000,
}
REQUIRED_EVENTS = {'indices-roundtripped': {'quick': 20000000,
    'thorough': 400000000}, 'points-near-cell-boundary': 1000000,
    'grids-with-every-cell-boundary-probed': 40000,
    'grid-n4097': {'quick': 3000, 'thorough': 60000},
    'grid-n-large': {'quick': 0, 'thorough': 800}}
ASSUMPTIONS = ['numpy longdouble has a 64-bit mantissa (arccos / affine '
    'reference positions); python fractions are exact',
    'box restriction of DESIGN.md C18: K <= 1e4, K n^2 2^-52 < 1e-3 (cheb), '
    'K n 2^-52 < 1e-3 (uni)',
    'documented argument types only: a, b float or list/ndarray, n int, '
    'float or list/ndarray; numpy integer scalars as n are reported as an '
    'advisory event, not judged']
SHARDS = {'quick': 12, 'thorough': 16}
# caps only (idle 16 cores: quick ~ 200 CPU-s, thorough ~ 3800 CPU-s); generous
# because the machine is shared and a truncated shard is inconclusive
BUDGET_S = {'quick': 600, 'thorough': 3000}

C = 10.
U = EPS / 2
SLACK = 0.5e-6           # design: index within 0.5 (1 + 1e-6) of the parameter
PI = np.arccos(LD(-1))
NS = [2, 3, 4, 5, 7, 10, 33, 100, 257, 1000, 4097]
NS_BIG = [16385, 65537, 1000001]
STYLES = ['sym', 'left0', 'right0', 'int', 'pow2', 'offset', 'offset',
    'offset', 'straddle', 'unit']
CHUNK = 32768

_restriction_note = """
Chebyshev: nodes s_i = cos(i h), h = pi/(n-1).  The decision boundary next to
node 1 is at angle h/2, i.e. at distance cos(h/2) - cos(h) ~ 0.375 h^2 =
3.7/(n-1)^2 in s; the image of a node is off by <= (2+4K) u in s and a
backward-stable evaluation of s adds ~ (2K+4) u.  K n^2 2^-52 < 1e-3 gives
(6K+6) u (n-1)^2 / 3.7 < 1e-3 (K >= 1/2 always).
For index 0 the image may be a little inside the box: angle sqrt(2 (2K+4) u)
< 0.5 h needs (2K+4) u < 1.2/(n-1)^2, same margin.
Uniform: spacing 1/(n-1) in t against an error ~ (K+4) u: margin >= 500.
"""


# ---- case lists ---------------------------------------------------------------

def gen_cases(seed, tier):
    """Quick: one instance per descriptor.  Thorough: the same kind of list
    (plus large n) with `reps` = 20 instances per descriptor (sub-seeds
    [seed, j]) - keeps the descriptor list small in every shard."""
    q = tier == 'quick'
    reps = 1 if q else 20
    rng = np.random.default_rng([seed, 118])
    out = []

    def add(fam, **kw):
        kw.update({'fam': fam, 'seed': int(rng.integers(1 << 62)),
            'reps': kw.get('reps', reps)})
        out.append(kw)

    for n in NS:
        for kind in ('uni', 'cheb'):
            for j in range(2000):
                add('grid1d', kind=kind, n=n, style=STYLES[j % len(STYLES)])
    for n in range(2, 301):         # every n, not only the design's list
        for kind in ('uni', 'cheb'):
            for j in range(10):
                add('grid1d', kind=kind, n=n,
                    style=STYLES[int(rng.integers(len(STYLES)))])
    if not q:
        for n in NS_BIG:
            for kind in ('uni', 'cheb'):
                for j in range(60 if n > 100000 else 400):
                    add('grid1d', kind=kind, n=n, reps=1,
                        style=STYLES[j % len(STYLES)])
        for j in range(3000):
            add('grid1d', kind=('uni', 'cheb')[j % 2], reps=2,
                n=int(rng.integers(301, 20000)),
                style=STYLES[int(rng.integers(len(STYLES)))])
    for j in range(12000):
        add('gridnd', kind=('uni', 'cheb')[j % 2], d=1 + (j // 2) % 4,
            same=bool((j // 8) % 2), big=bool(not q and j % 7 == 0))
    for j in range(8000):
        add('scale', d=1 + j % 4, dyadic=bool(j % 5 == 0))
    for j in range(3000):
        add('flat')
    for j in range(3000):
        add('opts')
    for j in range(3000):
        add('cdf')
    perm = rng.permutation(len(out))
    return [out[i] for i in perm]


# ---- generators ---------------------------------------------------------------

def kmax_of(n, kind):
    """Largest offset/width ratio allowed by the design for this grid."""
    p = 2 if kind == 'cheb' else 1
    return min(1e4, 0.99e-3 / (float(n) ** p * EPS))


def ratio(a, b):
    return max(abs(a), abs(b)) / (b - a)


def gen_box(rng, style, kmax):
    """One box a < b (doubles) with max(|a|,|b|)/(b-a) <= kmax."""
    wexp = float(rng.uniform(-6, 6))
    if rng.random() < 0.15:
        wexp = float(rng.choice([-6., 0., 6.]))
    w = 10.0 ** wexp
    if style == 'unit':
        a, b = (0.0, 1.0) if rng.random() < 0.5 else (-1.0, 1.0)
    elif style == 'sym':
        a, b = -w / 2, w / 2
    elif style == 'left0':
        a, b = 0.0, w
    elif style == 'right0':
        a, b = -w, 0.0
    elif style == 'int':
        a = float(rng.integers(-20, 21))
        b = a + float(rng.integers(1, 41))
    elif style == 'pow2':
        w = 2.0 ** int(rng.integers(-20, 21))
        a = float(rng.integers(-64, 65)) * w / 8
        b = a + w
    elif style == 'straddle':
        a = -w * float(rng.uniform(0, 1))
        b = a + w
    else:
        K = float(np.exp(rng.uniform(np.log(0.5), np.log(kmax))))
        c = K * w * (1 if rng.random() < 0.5 else -1)
        a = c - w / 2
        b = a + w
    for _ in range(200):
        if a < b and np.isfinite(a) and np.isfinite(b) and \
                ratio(a, b) <= kmax:
            return float(a), float(b)
        c, h = (a + b) / 2 * 0.5, (b - a) / 2
        a, b = c - h, c + h
    raise RuntimeError('no admissible box')


def form(rng, v, kind, allow_scalar=False):
    """One of the documented representations of an option vector `v`."""
    v = np.asarray(v)
    conv = int if kind is int else float
    forms = ['list', 'array']
    if kind is int:
        forms += ['flist', 'farray', 'i32array']
    if allow_scalar:
        forms += ['scalar', 'scalar']
        if kind is int:
            forms += ['fscalar']
    f = forms[int(rng.integers(len(forms)))]
    if f == 'list':
        return [conv(x) for x in v], f
    if f == 'array':
        return np.array(v, dtype=conv), f
    if f == 'flist':
        return [float(x) for x in v], f
    if f == 'farray':
        return np.array(v, dtype=float), f
    if f == 'i32array':
        return np.array(v, dtype=np.int32), f
    if f == 'fscalar':
        return float(v[0]), f
    return conv(v[0]), f


def inside_points(rng, a, b, n, kind, k_rand, k_edge, nodes=None):
    """Doubles in [a, b]: random, next to cell boundaries, nodes +- 1 ulp,
    the box ends.  With k_edge >= 2 (n-1) both sides of every cell boundary
    are probed (distance 0 .. 1e-2 cells, inverted in longdouble)."""
    w = LD(b) - LD(a)
    pts = [a + (b - a) * rng.random(k_rand), np.array([a, b])]
    if n >= 2 and k_edge:
        if k_edge >= 2 * (n - 1):
            # every cell boundary, one point on each side
            i = np.repeat(np.arange(n - 1), 2)
            sign = np.tile([-1., 1.], n - 1)
        else:
            i = rng.integers(0, n - 1, size=k_edge)
            sign = rng.choice([-1., 1.], size=k_edge)
        delta = rng.choice([1e-2, 1e-4, 1e-5, 1e-6, 1e-8, 1e-10, 0.],
            size=len(i)) * sign
        pos = (i + 0.5 + delta).astype(LD)
        if kind == 'uni':
            x = LD(a) + pos / (n - 1) * w
        else:
            x = (LD(a) + LD(b)) / 2 + np.cos(PI * pos / (n - 1)) * w / 2
        pts.append(np.asarray(x, dtype=float))
    if nodes is not None and len(nodes):
        j = rng.integers(0, len(nodes), size=min(64, 2 * len(nodes)))
        z = np.asarray(nodes, dtype=float)[j]
        pts.append(np.nextafter(z, np.inf))
        pts.append(np.nextafter(z, -np.inf))
        pts.append(z)
    x = np.clip(np.concatenate(pts), a, b)
    return x


def outside_points(rng, a, b, k):
    """Doubles strictly below a (first half) and strictly above b."""
    w = b - a
    M = max(abs(a), abs(b), w)
    dl = np.concatenate([w * 10.0 ** rng.uniform(-17, 8, size=k),
        M * 10.0 ** rng.uniform(-16, 3, size=k // 2 + 1),
        [1e300, 1.7e308]])
    lo = np.concatenate([[np.nextafter(a, -np.inf)], a - dl])
    hi = np.concatenate([[np.nextafter(b, np.inf)], b + dl])
    lo = lo[lo < a]
    hi = hi[hi > b]
    return lo, hi


# ---- oracles --------------------------------------------------------------------

def pos_bounds(X, a, b, n, kind):
    """Exact grid-parameter position of X (longdouble) and the interval of
    indices that are 'a nearest node' for some coordinate within the backward
    error of the scaled coordinate (see the module docstring)."""
    X = np.asarray(X, dtype=LD)
    a = np.asarray(a, dtype=LD)
    b = np.asarray(b, dtype=LD)
    n1 = np.asarray(n, dtype=LD) - 1
    w = b - a
    g = C * 4 * U
    if kind == 'uni':
        t = np.clip((X - a) / w, 0, 1)
        pos = t * n1
        lo, hi = pos * (1 - 2 * g), pos * (1 + 2 * g)
    else:
        K = np.maximum(np.abs(a), np.abs(b)) / w
        e = C * (2 * K + 4) * U
        s = (2 * X - a - b) / w
        pos = np.arccos(np.clip(s, -1, 1)) / PI * n1
        lo = np.arccos(np.clip(s + e, -1, 1)) / PI * n1 * (1 - g)
        hi = np.arccos(np.clip(s - e, -1, 1)) / PI * n1 * (1 + g)
    return pos, lo - 0.5 - SLACK, hi + 0.5 + SLACK


def box_slack(a, b):
    """4 (1+K) ulp of the width = 4 EPS (w + M), per dimension."""
    a = np.asarray(a, dtype=LD)
    b = np.asarray(b, dtype=LD)
    return 4 * EPS * ((b - a) + np.maximum(np.abs(a), np.abs(b)))


def first_bad(mask):
    idx = np.argwhere(~np.asarray(mask))
    return [int(v) for v in idx[0]] if len(idx) else None


def is_int_array(J, shape):
    return isinstance(J, np.ndarray) and J.dtype.kind == 'i' and \
        J.shape == tuple(shape)


def hexf(x):
    return float(x).hex()


def check_points(ctx, teneva, Xin, a, b, n, kind, args, what):
    """Nearest-node and range oracles for points inside the box.
    Xin: (m, d) doubles within [a, b]; a, b, n: (d,) arrays; args: the option
    representations handed to teneva."""
    J = teneva.poi_to_ind(Xin, *args, kind)
    ok = is_int_array(J, Xin.shape)
    n_arr = np.asarray(n)
    if ok:
        ok = bool(np.all(J >= 0) and np.all(J <= n_arr - 1))
    if not ctx.check('int-range', ok, lambda: f'{what}: poi_to_ind returned '
            f'{type(J).__name__} dtype={getattr(J, "dtype", None)} shape='
            f'{getattr(J, "shape", None)} (expected ints in [0, n-1], shape '
            f'{Xin.shape})', n=n_arr, kind=kind):
        return None
    pos, lo, hi = pos_bounds(Xin, a, b, n, kind)
    Jl = J.astype(LD)
    good = (Jl >= lo) & (Jl <= hi)
    fb = first_bad(good)
    ctx.check('nearest', fb is None, lambda: f'{what}: point '
        f'{hexf(Xin[tuple(fb)])} = {Xin[tuple(fb)]!r} of dimension {fb[-1]} '
        f'has grid parameter position {float(pos[tuple(fb)])!r} but index '
        f'{int(J[tuple(fb)])} was returned (box [{np.ravel(a)[fb[-1]]!r}, '
        f'{np.ravel(b)[fb[-1]]!r}], n={int(np.ravel(n_arr)[fb[-1]])}, {kind})',
        at=fb, kind=kind)
    frac = np.abs(pos - np.round(pos))
    ctx.event('points-nearest', int(Xin.size))
    nb = int(np.sum(frac > 0.5 - 1e-3))
    ctx.event('points-near-cell-boundary', nb)
    return J, nb


def check_outside(ctx, teneva, lo_pts, hi_pts, a, b, n, kind, args, what):
    """lo_pts (m1, d) strictly below a, hi_pts (m2, d) strictly above b."""
    n_arr = np.asarray(n)
    allok = True
    for P, side in ((lo_pts, 'below'), (hi_pts, 'above')):
        if P.size == 0:
            continue
        J = teneva.poi_to_ind(P, *args, kind)
        if not is_int_array(J, P.shape):
            ctx.check('int-range', False, f'{what}: poi_to_ind of outside '
                f'points returned {type(J).__name__} '
                f'{getattr(J, "dtype", None)} {getattr(J, "shape", None)}')
            return
        low_end = (side == 'below') == (kind == 'uni')
        exp = np.zeros(P.shape, dtype=int) if low_end else \
            np.broadcast_to(n_arr - 1, P.shape)
        good = J == exp
        fb = first_bad(good)
        if fb is not None:
            allok = False
            ctx.check('clamp-outside', False, f'{what}: point '
                f'{P[tuple(fb)]!r} ({hexf(P[tuple(fb)])}) lies {side} the box '
                f'[{np.ravel(a)[fb[-1]]!r}, {np.ravel(b)[fb[-1]]!r}] but maps '
                f'to index {int(J[tuple(fb)])}, expected '
                f'{int(exp[tuple(fb)])} (n={int(np.ravel(n_arr)[fb[-1]])}, '
                f'{kind})', at=fb, side=side, kind=kind)
        ctx.event('points-outside', int(P.size))
    if allok:
        ctx.held('clamp-outside')


# ---- family grid1d ---------------------------------------------------------------

def run_exact_corners(ctx, teneva, rng):
    """(a) Dyadic boxes [0, 2^j] with n - 1 = 2^p nodes: the scaling is exact
    in binary, so the nearest node of a point one ulp next to a cell midpoint
    is decided exactly - no rounding slack applies.  (b) Very wide boxes
    (width up to 1e307): every index maps to a finite point of the box."""
    from fractions import Fraction as Fr
    j, pw = int(rng.integers(-3, 4)), int(rng.integers(0, 6))
    n, bnd = 2 ** pw + 1, 2.0 ** j
    h = bnd / 2 ** pw                              # node spacing, exact
    pts, want = [], []
    for c in rng.integers(0, 2 ** pw, size=min(6, 2 ** pw)):
        mid = (int(c) + 0.5) * h
        for x, w in ((np.nextafter(mid, -np.inf), int(c)),
                (np.nextafter(mid, np.inf), int(c) + 1)):
            pts.append(float(x))
            want.append(w)
    X = np.array(pts).reshape(-1, 1)
    J = teneva.poi_to_ind(X, 0., bnd, n, 'uni')
    ok = is_int_array(J, X.shape) and J[:, 0].tolist() == want
    ctx.check('nearest', ok, lambda: f'uniform grid on the dyadic box [0, '
        f'{bnd}] with n = {n}: points one ulp next to cell midpoints '
        f'{[float(x).hex() for x in pts[:4]]} -> {np.asarray(J)[:4, 0].tolist()}'
        f', the strictly nearest nodes are {want[:4]}')
    x1 = float(X[0, 0])
    J1 = teneva.poi_to_ind(np.array([x1]), 0., bnd, n, 'uni')
    ctx.check('nearest', int(np.asarray(J1).reshape(-1)[0]) == want[0],
        'single point one ulp below a cell midpoint (dyadic box)')
    # (b)
    wdt = float(10.0 ** rng.uniform(300, 307.5))
    a_ = [0., -wdt / 2, -wdt * 0.9][int(rng.integers(3))]
    b_ = a_ + wdt
    nn = int(rng.integers(2, 400))
    I = np.arange(nn).reshape(-1, 1)
    for kind in ('uni', 'cheb'):
        Xp = teneva.ind_to_poi(I, a_, b_, nn, kind)
        fin = isinstance(Xp, np.ndarray) and bool(np.all(np.isfinite(Xp)))
        inb = fin and bool(np.all(Xp >= a_ - 8 * EPS * wdt)
            and np.all(Xp <= b_ + 8 * EPS * wdt))
        ctx.check('in-box', inb, lambda: f'{kind} grid on the box [{a_!r}, '
            f'{b_!r}] (width {wdt:.3e}), n = {nn}: non-finite points or '
            f'points outside the box: {np.asarray(Xp)[~np.isfinite(Xp)][:3]}')
        if inb:
            Jb = teneva.poi_to_ind(Xp, a_, b_, nn, kind)
            ctx.check('roundtrip', is_int_array(Jb, I.shape) and
                np.array_equal(Jb, I), f'{kind} grid on a box of width '
                f'{wdt:.3e}: index -> point -> index is not the identity')
    ctx.event('exact-corner-cases')


def run_grid1d(case, ctx, teneva):
    rng = np.random.default_rng(case['seed'])
    if rng.random() < 0.03:
        run_exact_corners(ctx, teneva, rng)
    kind, n = case['kind'], int(case['n'])
    a, b = gen_box(rng, case['style'], kmax_of(n, kind))
    K = ratio(a, b)
    a_arg, fa = form(rng, [a], float, True)
    b_arg, fb_ = form(rng, [b], float, True)
    n_arg, fn = form(rng, [n], int, True)
    args = (a_arg, b_arg, n_arg)
    what = f'grid1d {kind} n={n} box=[{a!r}, {b!r}]'
    s = box_slack(a, b)

    rt_ok = box_ok = True
    first = last = None
    keep = []
    for lo in range(0, n, CHUNK):
        I = np.arange(lo, min(n, lo + CHUNK)).reshape(-1, 1)
        Iarg = I.tolist() if (n <= 100 and rng.random() < 0.3) else I
        if Iarg is I and rng.random() < 0.6:
            # indices stored in the narrowest integer type that holds them
            # (int8 for n <= 128, uint8 for n <= 256, ...): 2 * i or i + n
            # must not be formed in that type
            fits = [dt for dt in (np.int8, np.uint8, np.int16, np.uint16,
                np.int32, np.uint32) if int(I[-1, 0]) <= np.iinfo(dt).max]
            if fits:
                Iarg = I.astype(fits[int(rng.integers(min(2, len(fits))))])
                ctx.event('narrow-index-dtype:' + Iarg.dtype.name)
        X = teneva.ind_to_poi(Iarg, *args, kind)
        if not (isinstance(X, np.ndarray) and X.shape == I.shape
                and X.dtype == np.float64 and np.all(np.isfinite(X))):
            ctx.check('in-box', False, f'{what}: ind_to_poi returned '
                f'{type(X).__name__} {getattr(X, "dtype", None)} '
                f'{getattr(X, "shape", None)} or non-finite values')
            return
        if lo == 0:
            first = float(X[0, 0])
        last = float(X[-1, 0])
        if len(keep) < 4:
            keep.append(X[:, 0].copy())
        Xl = X.astype(LD)
        inb = (Xl >= LD(a) - s) & (Xl <= LD(b) + s)
        fbad = first_bad(inb)
        if fbad is not None and box_ok:
            box_ok = False
            ctx.check('in-box', False, f'{what}: index {lo + fbad[0]} maps to '
                f'{X[tuple(fbad)]!r} outside the box by more than '
                f'{float(s):.3g}', index=lo + fbad[0])
        J = teneva.poi_to_ind(X, *args, kind)
        good = is_int_array(J, I.shape) and bool(np.all(J >= 0)
            and np.all(J <= n - 1))
        if not good:
            ctx.check('int-range', False, f'{what}: poi_to_ind of the nodes '
                f'returned {type(J).__name__} {getattr(J, "dtype", None)} '
                f'{getattr(J, "shape", None)} / out of range')
            return
        eq = J == I
        fbad = first_bad(eq)
        if fbad is not None and rt_ok:
            rt_ok = False
            i0 = lo + fbad[0]
            ctx.check('roundtrip', False, f'{what}: index {i0} -> point '
                f'{X[tuple(fbad)]!r} ({hexf(X[tuple(fbad)])}) -> index '
                f'{int(J[tuple(fbad)])} (K={K:.3g}, K n^p eps='
                f'{K * n ** (2 if kind == "cheb" else 1) * EPS:.3g}, args '
                f'{fa}/{fb_}/{fn})', index=i0, a=hexf(a), b=hexf(b))
        ctx.event('indices-roundtripped', int(I.size))
    if rt_ok:
        ctx.held('roundtrip')
    if box_ok:
        ctx.held('in-box')
    ctx.held('int-range')
    if n == 4097:
        ctx.event('grid-n4097')
    if n > 4097:
        ctx.event('grid-n-large')

    # end points
    if kind == 'uni':
        ok = first == a and abs(LD(last) - LD(b)) <= s
        exp = (a, b)
    else:
        ok = abs(LD(first) - LD(b)) <= s and abs(LD(last) - LD(a)) <= s
        exp = (b, a)
    ctx.check('endpoints', bool(ok), f'{what}: index 0 -> {first!r}, index '
        f'n-1 -> {last!r}; expected {exp[0]!r} and {exp[1]!r} (slack '
        f'{float(s):.3g}, index 0 of the uniform grid exactly)', kind=kind)

    # points inside / outside
    nodes = np.concatenate(keep)
    heavy = n <= 4097
    xin = inside_points(rng, a, b, n, kind, 300 if heavy else 2000,
        2 * (n - 1) if heavy else 8192, nodes)
    if heavy:
        ctx.event('grids-with-every-cell-boundary-probed')
    an, bn, nn = np.array([a]), np.array([b]), np.array([n])
    r = check_points(ctx, teneva, xin.reshape(-1, 1), an, bn, nn, kind, args,
        what)
    lo_pts, hi_pts = outside_points(rng, a, b, 40)
    check_outside(ctx, teneva, lo_pts.reshape(-1, 1), hi_pts.reshape(-1, 1),
        an, bn, nn, kind, args, what)

    if len(ctx.samples) < 3:
        ctx.sample({'family': 'grid1d', 'kind': kind, 'n': n, 'a': a, 'b': b,
            'K': K, 'option_forms': [fa, fb_, fn],
            'nodes_ind_to_poi': nodes.tolist() if n <= 8 else
                {'first': nodes[:4].tolist(), 'last': last},
            'roundtrip_poi_to_ind': list(range(n)) if rt_ok else 'violated',
            'points_inside': xin[:6].tolist(),
            'their_indices': None if r is None else
                r[0][:6, 0].tolist(),
            'their_positions': [float(v) for v in pos_bounds(
                xin[:6], a, b, n, kind)[0]],
            'points_below_box': lo_pts[:3].tolist(),
            'points_above_box': hi_pts[:3].tolist()})
    trivial_box = (a, b) in ((0.0, 1.0), (-1.0, 1.0))
    if r is not None and r[1] > 0 and n >= 3 and not trivial_box:
        ctx.nontrivial(['grid1d', kind, n, int(np.floor(np.log10(b - a))),
            int(np.floor(np.log10(K))), fa, fb_, fn, case['style']])


# ---- family gridnd ---------------------------------------------------------------

def run_gridnd(case, ctx, teneva):
    rng = np.random.default_rng(case['seed'])
    kind, d, same = case['kind'], int(case['d']), case['same']
    pool = NS + [6, 8, 9, 16, 17, 64]
    if case.get('big'):
        pool = pool + [16385]
    if same:
        ns = [int(rng.choice(pool))] * d
        box = gen_box(rng, STYLES[int(rng.integers(len(STYLES)))],
            kmax_of(ns[0], kind))
        boxes = [box] * d
    else:
        ns = [int(rng.choice(pool)) for _ in range(d)]
        boxes = [gen_box(rng, STYLES[int(rng.integers(len(STYLES)))],
            kmax_of(nk, kind)) for nk in ns]
    n = np.array(ns)
    a = np.array([bx[0] for bx in boxes])
    b = np.array([bx[1] for bx in boxes])
    a_arg, fa = form(rng, a, float)
    b_arg, fb_ = form(rng, b, float)
    n_arg, fn = form(rng, n, int)
    args = (a_arg, b_arg, n_arg)
    what = f'gridnd {kind} d={d} n={ns} a={a.tolist()} b={b.tolist()}'
    m = max(ns)
    I = np.stack([rng.permutation(m) % nk for nk in ns], axis=1)
    s = box_slack(a, b)

    X = teneva.ind_to_poi(I if rng.random() < 0.7 else I.tolist(), *args, kind)
    if not ctx.check('in-box', isinstance(X, np.ndarray) and X.shape == I.shape
            and X.dtype == np.float64 and bool(np.all(np.isfinite(X))),
            f'{what}: ind_to_poi returned a malformed array'):
        return
    Xl = X.astype(LD)
    inb = (Xl >= a.astype(LD) - s) & (Xl <= b.astype(LD) + s)
    fbad = first_bad(inb)
    ctx.check('in-box', fbad is None, lambda: f'{what}: multi-index row '
        f'{I[fbad[0]].tolist()} dimension {fbad[1]} maps to '
        f'{X[tuple(fbad)]!r} outside the box', at=fbad)
    J = teneva.poi_to_ind(X, *args, kind)
    if not ctx.check('int-range', is_int_array(J, I.shape)
            and bool(np.all(J >= 0) and np.all(J <= n - 1)),
            f'{what}: poi_to_ind of nodes malformed / out of range'):
        return
    fbad = first_bad(J == I)
    ctx.check('roundtrip', fbad is None, lambda: f'{what}: index '
        f'{int(I[tuple(fbad)])} of dimension {fbad[1]} -> '
        f'{X[tuple(fbad)]!r} ({hexf(X[tuple(fbad)])}) -> '
        f'{int(J[tuple(fbad)])}', at=fbad)
    ctx.event('indices-roundtripped', int(sum(ns)))
    if 4097 in ns:
        ctx.event('grid-n4097')

    # end points through the multi-index interface (single multi-indices)
    e0 = teneva.ind_to_poi(np.zeros(d, dtype=int), *args, kind)
    e1 = teneva.ind_to_poi(n - 1, *args, kind)
    if isinstance(e0, np.ndarray) and isinstance(e1, np.ndarray) and \
            e0.shape == (d,) and e1.shape == (d,):
        if kind == 'uni':
            ok = np.array_equal(e0, a) and \
                np.all(np.abs(e1.astype(LD) - b) <= s)
        else:
            ok = np.all(np.abs(e0.astype(LD) - b) <= s) and \
                np.all(np.abs(e1.astype(LD) - a) <= s)
    else:
        ok = False
    ctx.check('endpoints', bool(ok), f'{what}: multi-index 0 -> '
        f'{np.asarray(e0).tolist()}, n-1 -> {np.asarray(e1).tolist()}')

    # per-dimension separability: column k with scalar options of dim k
    sep = True
    for k in range(d):
        Xk = teneva.ind_to_poi(I[:, k:k + 1], float(a[k]), float(b[k]),
            int(n[k]), kind)
        Jk = teneva.poi_to_ind(X[:, k:k + 1], float(a[k]), float(b[k]),
            int(n[k]), kind)
        if not (np.array_equal(Xk, X[:, k:k + 1])
                and np.array_equal(Jk, J[:, k:k + 1])):
            sep = False
            ctx.check('separable', False, f'{what}: dimension {k} evaluated '
                f'alone with scalar options differs from column {k} of the '
                f'{d}-dimensional call', k=k)
            break
    if sep:
        ctx.held('separable')

    # points
    mp = 120
    cols_in = [inside_points(rng, float(a[k]), float(b[k]), int(n[k]), kind,
        40, 40, X[:, k])[:mp] for k in range(d)]
    mp = min(len(c) for c in cols_in)
    P = np.stack([rng.permutation(c[:mp]) for c in cols_in], axis=1)
    r = check_points(ctx, teneva, P, a, b, n, kind, args, what)
    lows, highs = [], []
    for k in range(d):
        lo_pts, hi_pts = outside_points(rng, float(a[k]), float(b[k]), 12)
        lows.append(lo_pts)
        highs.append(hi_pts)
    ml = min(len(c) for c in lows)
    mh = min(len(c) for c in highs)
    Plo = np.stack([c[:ml] for c in lows], axis=1)
    Phi = np.stack([c[:mh] for c in highs], axis=1)
    check_outside(ctx, teneva, Plo, Phi, a, b, n, kind, args, what)
    if r is None:
        return
    Jp, nb = r

    # single vs batch, list vs array
    Pmix = np.concatenate([P, Plo, Phi], axis=0)
    Jmix = teneva.poi_to_ind(Pmix, *args, kind)
    cust = [float(rng.normal() * 3), None]
    cust[1] = cust[0] + float(10.0 ** rng.uniform(-2, 2))
    kinds = ['uni', 'cheb', cust]
    S = [teneva.poi_scale(Pmix, a_arg, b_arg, kd) for kd in kinds]
    rows = rng.integers(0, len(Pmix), size=5)
    ok = True
    msg = ''
    for r_ in rows:
        r_ = int(r_)
        p = Pmix[r_] if rng.random() < 0.5 else Pmix[r_].tolist()
        j1 = teneva.poi_to_ind(p, *args, kind)
        if not (is_int_array(j1, (d,)) and np.array_equal(j1, Jmix[r_])):
            ok, msg = False, f'poi_to_ind(single point {Pmix[r_].tolist()})' \
                f' = {np.asarray(j1).tolist()} but row of the batch = ' \
                f'{Jmix[r_].tolist()}'
            break
        for kd, Sk in zip(kinds, S):
            s1 = teneva.poi_scale(p, a_arg, b_arg, kd)
            if not (isinstance(s1, np.ndarray) and s1.shape == (d,)
                    and np.array_equal(s1, Sk[r_])):
                ok, msg = False, f'poi_scale(single point, {kd}) = ' \
                    f'{np.asarray(s1).tolist()} but batch row = ' \
                    f'{Sk[r_].tolist()}'
                break
        if not ok:
            break
        ri = int(rng.integers(0, m))
        x1 = teneva.ind_to_poi(I[ri] if rng.random() < 0.5
            else I[ri].tolist(), *args, kind)
        if not (isinstance(x1, np.ndarray) and x1.shape == (d,)
                and np.array_equal(x1, X[ri])):
            ok, msg = False, f'ind_to_poi(single multi-index ' \
                f'{I[ri].tolist()}) = {np.asarray(x1).tolist()} but batch ' \
                f'row = {X[ri].tolist()}'
            break
    if ok:
        # one-row batch and list-of-lists batch
        j2 = teneva.poi_to_ind(Pmix[:1], *args, kind)
        j3 = teneva.poi_to_ind(Pmix.tolist(), *args, kind)
        if not (np.array_equal(j2, Jmix[:1]) and j2.shape == (1, d)
                and np.array_equal(j3, Jmix)):
            ok, msg = False, 'one-row batch / list-of-lists batch differ ' \
                'from the ndarray batch'
    ctx.check('single-vs-batch', ok, lambda: f'{what}: {msg}')

    # scalar vs per-dimension options (only meaningful when all dims agree)
    if same:
        a0, b0, n0 = float(a[0]), float(b[0]), int(n[0])
        variants = [(a0, b0, n0), ([a0] * d, [b0] * d, [n0] * d),
            (np.full(d, a0), b0, float(n0)), (a0, np.full(d, b0),
            np.full(d, n0)), (int(a0) if a0 == int(a0) else a0, [b0] * d, n0)]
        ok, msg = True, ''
        base = None
        for v in variants:
            res = [teneva.ind_to_poi(I, *v, kind),
                teneva.poi_to_ind(Pmix, *v, kind),
                teneva.poi_scale(Pmix, v[0], v[1], 'uni'),
                teneva.poi_scale(Pmix, v[0], v[1], 'cheb'),
                teneva.poi_scale(Pmix, v[0], v[1], cust)]
            if base is None:
                base = res
                continue
            for nm, x, y in zip(('ind_to_poi', 'poi_to_ind', 'poi_scale uni',
                    'poi_scale cheb', 'poi_scale custom'), res, base):
                if not (x.shape == y.shape and x.dtype == y.dtype
                        and np.array_equal(x, y)):
                    ok, msg = False, f'{nm} with options ' \
                        f'{[type(o).__name__ for o in v]} differs from the ' \
                        f'all-scalar call'
                    break
            if not ok:
                break
        if ok and not (np.array_equal(base[0], X)
                and np.array_equal(base[1], Jmix)):
            ok, msg = False, 'all-scalar call differs from the call with ' \
                f'per-dimension options ({fa}/{fb_}/{fn})'
        ctx.check('scalar-vs-vector', ok, lambda: f'{what}: {msg}')
        # advisory only (numpy integer scalars are not a documented type)
        try:
            jn = teneva.poi_to_ind(Pmix, a0, b0, np.int64(n0), kind)
            ctx.event('advisory-np-int64-scalar-n-accepted'
                if np.array_equal(jn, Jmix) else
                'advisory-np-int64-scalar-n-differs')
        except Exception as ex:
            ctx.event(f'advisory-np-int64-scalar-n-raises-{type(ex).__name__}')

    if len(ctx.samples) < 3:
        ctx.sample({'family': 'gridnd', 'kind': kind, 'n': ns,
            'a': a.tolist(), 'b': b.tolist(), 'option_forms': [fa, fb_, fn],
            'multi_indices': I[:4].tolist(), 'points': X[:4].tolist(),
            'back': J[:4].tolist(), 'random_points': P[:3].tolist(),
            'their_indices': Jp[:3].tolist()})
    if nb > 0 and max(ns) >= 3:
        ctx.nontrivial(['gridnd', kind, sorted(ns), same, fa, fb_, fn,
            [int(np.floor(np.log10(ratio(*bx)))) for bx in boxes]])


# ---- family scale -----------------------------------------------------------------

def scale_ref(x, a, b, kind):
    """Exact rationals: (clipped value, unclipped value, lo, hi)."""
    x, a, b = Fraction(x), Fraction(a), Fraction(b)
    if kind == 'uni':
        v, lo, hi = (x - a) / (b - a), Fraction(0), Fraction(1)
    elif kind == 'cheb':
        v, lo, hi = (2 * x - a - b) / (b - a), Fraction(-1), Fraction(1)
    else:
        lo, hi = Fraction(kind[0]), Fraction(kind[1])
        v = lo + (x - a) * (hi - lo) / (b - a)
    return min(max(v, lo), hi), v, lo, hi


def scale_tol(x, a, b, kind, vc):
    """Rounding-model tolerance (float) for one element; vc = clipped ref."""
    w = b - a
    M = max(abs(a), abs(b))
    if kind == 'uni':
        return C * 4 * U * abs(vc) + 1e-300
    if kind == 'cheb':
        return C * U * (2 * M / w + 4)
    an, bn = float(kind[0]), float(kind[1])
    if not np.isfinite(x * (an - bn)):
        return np.inf
    # 2 max(|a'|,|b'|): an equally valid evaluation a' + t (b' - a') carries an
    # absolute error u max(|a'|,|b'|) where the expanded formula is exact
    return C * U * (4 * (abs(x * (an - bn)) + abs(a * bn) + abs(b * an)) / w
        + 3 * abs(vc) + 2 * max(abs(an), abs(bn))) + 1e-300


def run_scale(case, ctx, teneva):
    rng = np.random.default_rng(case['seed'])
    d = int(case['d'])
    dyadic = case['dyadic']
    if dyadic:
        q = int(rng.integers(-20, 21))
        w = 2.0 ** q
        a = np.array([float(rng.integers(-4096, 4097)) * w / 8
            for _ in range(d)])
        b = a + w
        mpts = 24
        X = a + rng.integers(-300, 1325, size=(mpts, d)) * (w / 1024)
        X[0], X[1] = a, b
        cust = [float(rng.integers(-64, 65)) / 8, None]
        cust[1] = cust[0] + float(rng.integers(1, 65)) / 8
    else:
        boxes = [gen_box(rng, STYLES[int(rng.integers(len(STYLES)))], 1e6)
            for _ in range(d)]
        if rng.random() < 0.3:
            boxes = [boxes[0]] * d
        a = np.array([bx[0] for bx in boxes])
        b = np.array([bx[1] for bx in boxes])
        mpts = 18
        cols = []
        for k in range(d):
            ak, bk = float(a[k]), float(b[k])
            lo_pts, hi_pts = outside_points(rng, ak, bk, 3)
            col = np.concatenate([ak + (bk - ak) * rng.random(8),
                [ak, bk, (ak + bk) / 2, np.nextafter(ak, np.inf),
                np.nextafter(bk, -np.inf)],
                rng.permutation(lo_pts)[:3], rng.permutation(hi_pts)[:3],
                [ak - 1e300 if k % 2 else bk + 1e300]])
            cols.append(rng.permutation(col)[:mpts])
        mpts = min(len(c) for c in cols)
        X = np.stack([c[:mpts] for c in cols], axis=1)
        if rng.random() < 0.5:
            cust = [float(rng.normal() * 10.0 ** rng.uniform(-3, 3)), None]
            cust[1] = cust[0] + float(10.0 ** rng.uniform(-3, 3))
        else:
            cust = [int(rng.integers(-9, 10)), None]
            cust[1] = cust[0] + int(rng.integers(1, 10))
    same = bool(np.all(a == a[0]) and np.all(b == b[0]))
    a_arg, fa = form(rng, a, float, allow_scalar=same)
    b_arg, fb_ = form(rng, b, float, allow_scalar=same)
    if rng.random() < 0.3:
        cust = tuple(cust)
    what = f'scale d={d} a={a.tolist()} b={b.tolist()}'
    n_in = n_out = 0
    for kd in ('uni', 'cheb', cust):
        Xarg = X if rng.random() < 0.6 else X.tolist()
        S = teneva.poi_scale(Xarg, a_arg, b_arg, kd)
        if not ctx.check('scale-shape', isinstance(S, np.ndarray)
                and S.shape == X.shape and S.dtype == np.float64,
                f'{what} kind={kd}: poi_scale returned '
                f'{type(S).__name__} {getattr(S, "dtype", None)} '
                f'{getattr(S, "shape", None)} for input shape {X.shape}'):
            continue
        ok_aff = ok_clip = ok_ex = True
        worst = None
        for r in range(X.shape[0]):
            for k in range(d):
                x, ak, bk = float(X[r, k]), float(a[k]), float(b[k])
                vc, v, lo, hi = scale_ref(x, ak, bk, kd)
                got = float(S[r, k])
                if not np.isfinite(got):
                    ok_aff = False
                    worst = worst or (r, k, got, float(vc), 0.)
                    continue
                tol = scale_tol(x, ak, bk, kd, float(vc))
                err = abs(Fraction(got) - vc)
                if not (np.isinf(tol) or err <= Fraction(tol)):
                    ok_aff = False
                    worst = worst or (r, k, got, float(vc), tol)
                # clipping: never outside the limits; exactly the limit for
                # points beyond the box by more than the tolerance
                if not (float(lo) <= got <= float(hi)):
                    ok_clip = False
                    worst = worst or (r, k, got, float(vc), tol)
                ftol = Fraction(tol) if np.isfinite(tol) else None
                if ftol is not None and v < lo - ftol and got != float(lo):
                    ok_clip = False
                    worst = worst or (r, k, got, float(lo), 0.)
                if ftol is not None and v > hi + ftol and got != float(hi):
                    ok_clip = False
                    worst = worst or (r, k, got, float(hi), 0.)
                if v < lo or v > hi:
                    n_out += 1
                else:
                    n_in += 1
                if dyadic and got != float(vc):
                    ok_ex = False
                    worst = worst or (r, k, got, float(vc), 0.)

        def msg(title):
            r, k, got, ref_, tol = worst
            return (f'{what} kind={kd}: {title}: point {X[r, k]!r} '
                f'({hexf(X[r, k])}) of dimension {k} scaled to {got!r}, exact '
                f'value {ref_!r}, tolerance {tol:.3g} (options {fa}/{fb_})')
        ctx.check('scale-affine', ok_aff, lambda: msg('not the affine map'))
        ctx.check('scale-clip', ok_clip, lambda: msg('clipping wrong'))
        if dyadic:
            ctx.check('scale-dyadic-exact', ok_ex, lambda: msg('dyadic box, '
                'all intermediates exact, result not bit-equal'))
    ctx.event('scale-points-inside', n_in)
    ctx.event('scale-points-clipped', n_out)
    if len(ctx.samples) < 3:
        ctx.sample({'family': 'scale', 'a': a.tolist(), 'b': b.tolist(),
            'dyadic': dyadic, 'custom_limits': list(cust),
            'points': X[:4].tolist(),
            'uni': teneva.poi_scale(X[:4], a_arg, b_arg, 'uni').tolist(),
            'cheb': teneva.poi_scale(X[:4], a_arg, b_arg, 'cheb').tolist(),
            'custom': teneva.poi_scale(X[:4], a_arg, b_arg, cust).tolist()})
    if n_in and n_out:
        ctx.nontrivial(['scale', d, dyadic, fa, fb_, type(cust).__name__,
            [int(np.floor(np.log10(bk - ak))) for ak, bk in zip(a, b)]])


# ---- family flat ------------------------------------------------------------------

def run_flat(case, ctx, teneva):
    rng = np.random.default_rng(case['seed'])
    if rng.random() < 0.2:
        n0 = int(rng.integers(1, 200))
        v = [n0, float(n0), np.int64(n0), np.int32(n0), np.float64(n0)][
            int(rng.integers(5))]
        G = teneva.grid_flat(v)
        ctx.check('grid-flat', isinstance(G, np.ndarray) and G.ndim == 1
            and G.dtype.kind == 'i' and np.array_equal(G, np.arange(n0)),
            f'grid_flat({v!r}) [{type(v).__name__}] is not arange({n0})')
        return
    d = int(rng.integers(1, 6))
    for _ in range(100):
        n = [int(rng.integers(1, 9)) for _ in range(d)]
        if rng.random() < 0.3:
            n[int(rng.integers(d))] = int(rng.integers(9, 40))
        if int(np.prod(n)) <= 5000:
            break
    else:
        n = [2] * d
    N = int(np.prod(n))
    f = int(rng.integers(4))
    arg = [n, np.array(n), tuple(n), [float(x) for x in n]][f]
    if f == 1 and rng.random() < 0.6:
        # mode sizes stored in the narrowest integer dtype that holds them
        fits = [dt for dt in (np.int8, np.uint8, np.int16, np.uint16, np.int32)
            if max(n) <= np.iinfo(dt).max]
        arg = np.array(n, dtype=fits[int(rng.integers(min(3, len(fits))))])
        ctx.event('flat-grid-sizes-dtype:' + arg.dtype.name)
    G = teneva.grid_flat(arg)
    j = np.arange(N)
    exp = np.empty((N, d), dtype=int)
    stride = 1
    for k in range(d):      # first index fastest
        exp[:, k] = (j // stride) % n[k]
        stride *= n[k]
    ok = isinstance(G, np.ndarray) and G.shape == (N, d) and \
        G.dtype.kind == 'i'
    distinct = ok and len({tuple(r) for r in G.tolist()}) == N
    ctx.check('grid-flat', bool(ok and distinct and np.array_equal(G, exp)),
        lambda: f'grid_flat({arg!r}): shape {getattr(G, "shape", None)}, '
        f'distinct rows: {distinct}; first rows {np.asarray(G)[:6].tolist()} '
        f'expected {exp[:6].tolist()} (first index fastest)', n=n)
    # history: the caller shuffles / shifts the grid it received in place
    # (the usual way to draw a training set from it) and asks again, with
    # the same sizes in the same or another accepted form
    if ok and G.flags.writeable:
        rng.shuffle(G)
        G[:, 0] += 1
        arg2 = [n, np.array(n), tuple(n)][int(rng.integers(3))]
        for a2 in (arg, arg2):
            G2 = teneva.grid_flat(a2)
            ctx.check('grid-flat', isinstance(G2, np.ndarray)
                and G2.shape == (N, d) and np.array_equal(G2, exp),
                lambda: f'grid_flat({a2!r}) after the result of an earlier '
                'call with the same sizes was edited in place: first rows '
                f'{np.asarray(G2)[:6].tolist()}, expected {exp[:6].tolist()}',
                n=n)
        ctx.event('flat-grid-requested-again-after-edit')
    if len(ctx.samples) < 3:
        ctx.sample({'family': 'flat', 'n': n, 'rows': N,
            'grid_flat_first_rows': exp[:12].tolist()})
    if d >= 2 and len(set(n)) >= 2:
        ctx.nontrivial(['flat', n, f])


# ---- family opts ------------------------------------------------------------------

def raises(fn, exc=ValueError):
    """'ok' if fn raises `exc`; 'other:<type>' for another exception;
    'returned' if it returns."""
    try:
        fn()
    except exc:
        return 'ok'
    except Exception as ex:
        return f'other:{type(ex).__name__}'
    return 'returned'


def run_opts(case, ctx, teneva):
    rng = np.random.default_rng(case['seed'])
    d = int(rng.integers(1, 6))
    reps = int(rng.integers(1, 5))
    av = rng.normal(size=d).round(3)
    bv = av + rng.uniform(0.1, 3, size=d).round(3)
    nv = rng.integers(2, 12, size=d)

    # grid_prep_opt
    ok, msg = True, ''
    if teneva.grid_prep_opt(None, d) is not None:
        ok, msg = False, 'grid_prep_opt(None) is not None'
    for val, kd in ((float(av[0]), float), (int(nv[0]), int),
            (float(nv[0]), int), (int(nv[0]), float)):
        r = teneva.grid_prep_opt(val, d, kd)
        if not (isinstance(r, np.ndarray) and r.shape == (d,)
                and r.dtype == np.dtype(kd) and np.all(r == kd(val))):
            ok, msg = False, f'grid_prep_opt({val!r}, d={d}, {kd.__name__})' \
                f' = {r!r}'
        r = teneva.grid_prep_opt(val, d, kd, reps)
        if not (isinstance(r, np.ndarray) and r.shape == (reps, d)
                and r.dtype == np.dtype(kd) and np.all(r == kd(val))):
            ok, msg = False, f'grid_prep_opt({val!r}, d={d}, ' \
                f'{kd.__name__}, reps={reps}) = {r!r}'
    for vec, kd in ((av, float), (nv, int), (nv.astype(float), int)):
        for arg in (list(vec.tolist()), np.array(vec)):
            r = teneva.grid_prep_opt(arg, None if rng.random() < .5 else d, kd)
            if not (isinstance(r, np.ndarray) and r.shape == (d,)
                    and r.dtype == np.dtype(kd) and np.array_equal(r, vec)):
                ok, msg = False, f'grid_prep_opt({arg!r}, {kd.__name__}) = ' \
                    f'{r!r}'
            r = teneva.grid_prep_opt(arg, d, kd, reps)
            if not (isinstance(r, np.ndarray) and r.shape == (reps, d)
                    and r.dtype == np.dtype(kd)
                    and all(np.array_equal(row, vec) for row in r)):
                ok, msg = False, f'grid_prep_opt({arg!r}, {kd.__name__}, ' \
                    f'reps={reps}) = {r!r}'
    # grid_prep_opts: any mix of scalar / list / ndarray / None
    for trial in range(4):
        sc = rng.random(3) < 0.4
        vecs = [np.full(d, av[0]) if sc[0] else av,
            np.full(d, bv[0]) if sc[1] else bv,
            np.full(d, nv[0]) if sc[2] else nv]
        raw = []
        for i, (v, s_) in enumerate(zip(vecs, sc)):
            if rng.random() < 0.15:
                raw.append(None)
            elif s_:
                raw.append(int(v[0]) if i == 2 else float(v[0]))
            else:
                raw.append(v.tolist() if rng.random() < 0.5 else np.array(v))
        has_vec = any(isinstance(x, (list, np.ndarray)) for x in raw)
        dd = d if (not has_vec or rng.random() < 0.5) else None
        rp = reps if rng.random() < 0.5 else None
        r = teneva.grid_prep_opts(raw[0], raw[1], raw[2], dd, rp)
        good = isinstance(r, tuple) and len(r) == 3
        if good:
            for i, (got, v, x) in enumerate(zip(r, vecs, raw)):
                if x is None:
                    good = good and got is None
                    continue
                shp = (d,) if rp is None else (rp, d)
                good = good and isinstance(got, np.ndarray) and \
                    got.shape == shp and \
                    got.dtype == np.dtype(int if i == 2 else float) and \
                    bool(np.all(got == v))
        if not good:
            ok, msg = False, f'grid_prep_opts({raw!r}, d={dd}, reps={rp}) ' \
                f'= {r!r}'
    ctx.check('prep-opt', ok, lambda: msg)

    # documented rejections (ValueError)
    d2 = d + int(rng.choice([-1, 1, 2])) if d > 1 else d + 1
    wrong = rng.normal(size=d2).tolist()
    wrong_n = rng.integers(2, 9, size=d2)
    tests = {
        'scalar without d': lambda: teneva.grid_prep_opt(1.5),
        'scalar with d=0': lambda: teneva.grid_prep_opt(2, 0, int),
        'scalar with d<0': lambda: teneva.grid_prep_opt(2.5, -d),
        'all scalars, no d': lambda: teneva.grid_prep_opts(0., 1., 5),
        'one scalar, no d': lambda: teneva.grid_prep_opts(n=7),
        'a vs b length': lambda: teneva.grid_prep_opts(av.tolist(), wrong, 5),
        'b vs n length': lambda: teneva.grid_prep_opts(0., bv,
            wrong_n.tolist()),
        'a vs n length': lambda: teneva.grid_prep_opts(np.array(wrong), 1.,
            nv),
        'd vs a length': lambda: teneva.grid_prep_opts(a=wrong, d=d),
        'd vs b length': lambda: teneva.grid_prep_opts(b=np.array(wrong),
            d=d),
        'd vs n length': lambda: teneva.grid_prep_opts(0., 1., wrong_n, d),
        'd vs n length with reps': lambda: teneva.grid_prep_opts(av, bv,
            wrong_n.tolist(), d, reps),
    }
    bad = {k: r for k, r in ((k, raises(f)) for k, f in tests.items())
        if r != 'ok'}
    ctx.check('prep-reject', not bad, lambda: f'no ValueError for: {bad} '
        f'(d={d}, mismatching length {d2})')

    # the same mismatches handed to the public functions must be rejected
    m = 3
    I = np.stack([rng.integers(0, k, size=m) for k in nv], axis=1)
    X = av + (bv - av) * rng.random((m, d))
    al, bl, nl = av.tolist(), bv.tolist(), nv.tolist()
    kd = ('uni', 'cheb')[int(rng.integers(2))]
    pub = {
        'ind_to_poi a': lambda: teneva.ind_to_poi(I, wrong, bl, nl, kd),
        'ind_to_poi b': lambda: teneva.ind_to_poi(I, al, wrong, 5, kd),
        'ind_to_poi n': lambda: teneva.ind_to_poi(I, 0., 1., wrong_n, kd),
        'ind_to_poi single n': lambda: teneva.ind_to_poi(I[0], al, bl,
            wrong_n.tolist(), kd),
        'poi_to_ind a': lambda: teneva.poi_to_ind(X, wrong, bl, nl, kd),
        'poi_to_ind b': lambda: teneva.poi_to_ind(X, 0., np.array(wrong), nl,
            kd),
        'poi_scale a': lambda: teneva.poi_scale(X, wrong, bl, kd),
        'poi_scale b single': lambda: teneva.poi_scale(X[0], al, wrong, kd),
    }
    res = {k: raises(f, Exception) for k, f in pub.items()}
    for k, f in pub.items():
        r2 = raises(f)
        if r2 != 'ok':
            ctx.event(f'reject-public-non-ValueError:{k}:{r2}')
    bad = {k: r for k, r in res.items() if r != 'ok'}
    ctx.check('reject-public', not bad, lambda: f'inconsistent option '
        f'length accepted by: {bad} (d={d}, wrong length {d2})')
    # n of the wrong length in poi_to_ind (defect of the pinned tree, repaired
    # by a fix commit: n went through grid_prep_opt, which has no length
    # validation, and broadcasting accepted it silently when d == 1)
    pn = {
        'batch': lambda: teneva.poi_to_ind(X, al, bl, wrong_n.tolist(), kd),
        'single': lambda: teneva.poi_to_ind(X[0], al, bl, wrong_n, kd),
        'scalar box': lambda: teneva.poi_to_ind(X, float(av.min()),
            float(bv.max()), wrong_n.tolist(), kd),
    }
    res = {k: raises(f, Exception) for k, f in pn.items()}
    bad = {k: r for k, r in res.items() if r != 'ok'}
    for k, f in pn.items():
        r2 = raises(f)
        if r2 not in ('ok', 'returned'):
            ctx.event(f'reject-n-non-ValueError:{r2}')
    ctx.check('reject-public', not bad, lambda: f'poi_to_ind accepts n of '
        f'length {d2} for {d}-dimensional points without an error: '
        f'X={X.tolist()}, a={al}, b={bl}, n={wrong_n.tolist()}, kind={kd}: '
        f'{bad}', d=d, n=wrong_n.tolist())
    ctx.sample({'family': 'opts', 'd': d, 'wrong_length': d2,
        'rejected_by_grid_prep_opts': sorted(tests),
        'poi_to_ind_with_wrong_n': res})
    ctx.nontrivial(['opts', d, d2, reps])


# ---- family cdf -------------------------------------------------------------------

def run_cdf(case, ctx, teneva):
    rng = np.random.default_rng(case['seed'])
    m = int(rng.integers(1, 61)) if rng.random() < 0.8 else \
        int(rng.integers(61, 400))
    mode = int(rng.integers(3))
    if mode == 0:
        x = rng.normal(size=m) * 10.0 ** rng.uniform(-3, 3)
    elif mode == 1:
        x = rng.integers(-3, 4, size=m).astype(float)      # many ties
    else:
        x = np.round(rng.normal(size=m), 1)                # some ties
    presorted = rng.random() < 0.3
    if presorted:
        x = np.sort(x)                   # the sample as it often arrives
    xs = np.sort(x)
    arg = x.tolist() if rng.random() < 0.4 else x.copy()
    cdf = teneva.cdf_getter(arg)
    if isinstance(arg, np.ndarray):
        # the getter is the step function of the sample it was built from:
        # the caller re-uses its buffer afterwards
        ctx.check('cdf', np.array_equal(arg, x), 'cdf_getter changed its '
            'argument')
        arg[...] = rng.normal(size=m) * 7 + 3
        ctx.event('cdf-sample-buffer-overwritten-after-construction')
    span = float(xs[-1] - xs[0]) + 1.0
    z = np.concatenate([xs, np.nextafter(xs, -np.inf),
        np.nextafter(xs, np.inf), (xs[1:] + xs[:-1]) / 2,
        [xs[0] - span, xs[-1] + span, -1e300, 1e300, -np.inf, np.inf]])
    z = rng.permutation(z)
    exp = np.array([LD(int(np.sum(x <= v))) / LD(m) for v in z])
    cnt = np.array([int(np.sum(x <= v)) for v in z])
    got = cdf(z)
    ok = isinstance(got, np.ndarray) and got.shape == z.shape
    msg = f'cdf(array of {len(z)}) returned {type(got).__name__} ' \
        f'{getattr(got, "shape", None)}'
    if ok:
        diff = np.abs(got.astype(LD) - exp)
        badm = ~(diff <= 32 * EPS) | ((cnt == 0) & (got != 0)) | \
            ((cnt == m) & (got != 1))
        if np.any(badm):
            i = int(np.argmax(badm))
            ok = False
            msg = f'cdf({z[i]!r}) = {got[i]!r}, expected #{{x_i <= z}}/m = ' \
                f'{cnt[i]}/{m} (sample {xs.tolist()[:12]}...)'
    if ok:
        for i in rng.integers(0, len(z), size=6):
            g1 = cdf(float(z[i]))
            if not (np.ndim(g1) == 0 and float(g1) == float(got[i])):
                ok = False
                msg = f'cdf(scalar {z[i]!r}) = {g1!r} but the array call ' \
                    f'gives {got[i]!r}'
                break
    ctx.check('cdf', ok, lambda: f'cdf_getter(m={m}): {msg}')
    # query batches of other sizes and dtypes (integers, float32, lists): the
    # value of the step function depends on the query VALUE only
    lo_, hi_ = int(np.clip(np.floor(xs[0]) - 2, -2**30, 2**30)), \
        int(np.clip(np.ceil(xs[-1]) + 3, -2**30, 2**30))
    K = int(rng.choice([5, 300, 513, 700, 3000]))
    dt = [np.int64, np.int32, np.int16, np.float32, np.float64, 'list'][
        int(rng.integers(6))]
    if dt is np.int16:
        lo_, hi_ = max(lo_, -30000), min(hi_, 30000)
    if dt in (np.float32, np.float64, 'list'):
        zq = rng.uniform(lo_, hi_, size=K)
        zq = zq.astype(np.float32) if dt is np.float32 else zq
        zarg = zq.tolist() if dt == 'list' else zq
    else:
        zq = rng.integers(lo_, max(hi_, lo_ + 1), size=K).astype(dt)
        zarg = zq
    zv = np.asarray(zq, dtype=float)
    want = np.array([np.sum(x <= v) for v in zv]) / LD(m)
    gq = cdf(zarg)
    okq = isinstance(gq, np.ndarray) and gq.shape == (K,) and \
        gq.dtype.kind == 'f' and gq.dtype.itemsize >= 8
    if okq:
        okq = bool(np.all(np.abs(gq.astype(LD) - want) <= 32 * EPS))
    ctx.check('cdf-batch-forms', okq, lambda: f'cdf_getter(m={m}): batch of '
        f'{K} queries as {dt if isinstance(dt, str) else dt.__name__}: '
        f'returned {getattr(gq, "dtype", type(gq).__name__)} '
        f'{np.asarray(gq)[:5].tolist()}, expected float64 '
        f'{np.asarray(want, dtype=float)[:5].tolist()}')
    if len(ctx.samples) < 3:
        ctx.sample({'family': 'cdf', 'sample': x.tolist()[:12], 'm': m,
            'z': z[:8].tolist(), 'cdf': np.asarray(got)[:8].tolist()
            if isinstance(got, np.ndarray) else repr(got),
            'counts': cnt[:8].tolist()})
    if len(set(x.tolist())) < m:
        ctx.nontrivial(['cdf', m, mode, isinstance(arg, list)])


# ---- dispatch ---------------------------------------------------------------------

FAMS = {'grid1d': run_grid1d, 'gridnd': run_gridnd, 'scale': run_scale,
    'flat': run_flat, 'opts': run_opts, 'cdf': run_cdf}


def run_case(case, ctx):
    import teneva
    reps = int(case.get('reps', 1))
    for j in range(reps):
        sub = case if reps == 1 else dict(case, seed=[case['seed'], j])
        FAMS[case['fam']](sub, ctx, teneva)
