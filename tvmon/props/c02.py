"""C02 — truncate: error <= e||Y||, rank caps, quasi-optimality; add_many.

Postcondition monitor interposed on teneva.truncate: it judges EVERY call,
the direct ones made by the workload and the nested ones made by add_many.
Reference: dense SVD of every unfolding of the call's own input.
"""
import hashlib
import inspect
import itertools

import numpy as np

from tvmon import core, gen, ref
from tvmon import docsig
from tvmon import sanit
from tvmon.ref import EPS
from tvmon.interpose import installed

PID = 'C02'
LEVEL = 'exploration'
RULE = ('TT families x spectra (flat, geometric, dominant, exactly low rank '
    'padded with duplicated columns) x one core scaled by 1e-6..1e6 x '
    'is_eigh x use_stab x caps; thresholds e PLACED just above/below every '
    'rank change of every unfolding plus log-uniform e; add_many lists of '
    '2-40 tensors/numbers with trunc_freq 1/2/15; non-trivial = distinct '
    '(shape, ranks, flags, e-bucket) calls that lowered at least one rank')
REQUIRED = {'trunc-structure': 500, 'trunc-error-bound': 300,
    'trunc-options-unchanged': 500,
    'trunc-quasi-optimal': 500, 'trunc-rank-minimal': 500,
    'addmany-final': 20, 'trunc-nested-in-add_many': 50,
    'addmany-cancel-cap': 40}
ASSUMPTIONS = ['dense SVD (LAPACK) of the unfoldings is the reference',
    'rounding floor: 50(d-1)eps||A|| in SVD mode, sqrt(50(d-1)eps)||A|| in '
    'eigen mode (Gram matrix squares the condition number)',
    'inputs with ||A|| = 0 belong to C11 and are not judged here']
COVER = ['transformation.truncate', 'svd.matrix_svd', 'svd.matrix_skeleton', 'act_many.add_many']
SHARDS = {'quick': 12, 'thorough': 16}
MAX_DENSE = 5000


def gen_cases(seed, tier):
    rng = np.random.default_rng([seed, 102])
    nt = 1500 if tier == 'quick' else 100000
    na = 240 if tier == 'quick' else 20000
    out = []
    spectra = ['flat', 'geom', 'dominant', 'lowrank', 'wide']
    for j in range(nt):
        out.append({'kind': 'trunc', 'seed': int(rng.integers(1 << 62)),
            'family': gen.FAMILIES[j % len(gen.FAMILIES)],
            'spectrum': spectra[(j // 3) % len(spectra)],
            'dmax': 5 if tier == 'quick' else 7})
    for j in range(60 if tier == 'quick' else 2000):
        out.append({'kind': 'cancel', 'seed': int(rng.integers(1 << 62))})
    for j in range(40 if tier == 'quick' else 1500):
        out.append({'kind': 'widebond', 'seed': int(rng.integers(1 << 62))})
    for j in range(na):
        out.append({'kind': 'add_many', 'seed': int(rng.integers(1 << 62)),
            'trunc_freq': [1, 2, 15][j % 3]})
    for j in range(90 if tier == 'quick' else 6000):
        out.append({'kind': 'add_many', 'seed': int(rng.integers(1 << 62)),
            'trunc_freq': [3, 5, 15][j % 3], 'cancel': True})
    for j in range(60 if tier == 'quick' else 4000):
        out.append({'kind': 'add_many', 'seed': int(rng.integers(1 << 62)),
            'trunc_freq': [1, 2, 15][j % 3], 'perturbed': True})
    return out


# ---- the monitor ---------------------------------------------------------------

_cache = {}


def input_facts(Y):
    key = hashlib.sha1(b''.join(np.ascontiguousarray(G).tobytes()
        + str(G.shape).encode() for G in Y)).hexdigest()
    f = _cache.get(key)
    if f is None:
        if len(_cache) > 64:
            _cache.clear()
        A = np.asarray(ref.dense_ld(Y), dtype=float)
        d = A.ndim
        sv = [ref.unfold_svals(A, k) for k in range(1, d)]
        f = _cache[key] = {'A': A, 'nrm': ref.fro(A), 'sv': sv,
            'nrm_ab': ref.fro(ref.absbound(Y))}
    return f


def judge_truncate(ctx, Y, Z, e, r, orth, use_stab, is_eigh, nested):
    n = ref.shape_of(Y)
    d = len(n)
    why = ref.wellformed(Z, n)
    if not ctx.check('trunc-structure', why is None,
            f'truncate returned a malformed tensor: {why}'):
        return
    rin, rout = ref.ranks_of(Y), ref.ranks_of(Z)
    cap = max(1, int(min(r, 1e15)))
    ok = all(b <= cap and b <= a for a, b in zip(rin, rout))
    ctx.check('trunc-structure', ok,
        f'ranks {rout} exceed cap {cap} or input ranks {rin}',
        e=e, r=r, flags=[orth, use_stab, is_eigh])
    if nested:
        ctx.held('trunc-nested-in-add_many')
    if not orth:
        ctx.event('orth-false-call-structure-only')
        return
    if int(np.prod(n)) > MAX_DENSE:
        ctx.skip('trunc-error-bound', 'too-big-for-dense-reference')
        return
    f = input_facts(Y)
    A, nrm, sv = f['A'], f['nrm'], f['sv']
    if not (nrm > 0) or not (0 < e < 1):
        ctx.skip('trunc-error-bound', 'zero-norm-or-e-outside-(0,1)')
        return
    err = ref.fro(np.asarray(ref.dense_ld(Z), dtype=float) - A)
    # rounding floor: c*eps relative to the norm of the abs-bound tensor (the
    # cores may represent A with cancellation, and every algorithm that reads
    # them inherits that), plus sqrt(c*eps)||A|| in eigen mode (Gram matrix)
    c = 50 * (d - 1) * EPS
    floor = c * f['nrm_ab'] + (np.sqrt(c) * nrm if is_eigh else 0.)
    mode = f'eigh={is_eigh} stab={use_stab}'
    # (2) error bound when the cap does not bind
    if all(b < cap for b in rout[1:-1]):
        ctx.check('trunc-error-bound', err <= e * nrm * (1 + 1e-9) + floor,
            lambda: f'||A-Z|| = {err:.6e} > e||A|| = {e * nrm:.6e} '
            f'(+floor {floor:.2e}) [{mode}]', e=e, ranks_in=rin,
            ranks_out=rout, shape=n, err_over_bound=err / (e * nrm))
    else:
        ctx.skip('trunc-error-bound', 'cap-binds')
    # (3) quasi-optimality at the returned ranks
    rss = np.sqrt(sum(ref.tail(s, q) ** 2 for s, q in zip(sv, rout[1:-1])))
    ctx.check('trunc-quasi-optimal',
        err <= rss * (1 + 1e-9) + floor,
        lambda: f'||A-Z|| = {err:.6e} > root-sum-square of best unfolding '
        f'errors {rss:.6e} (+floor {floor:.2e}) [{mode}]', e=e, cap=cap,
        ranks_in=rin, ranks_out=rout, shape=n)
    # (4) no rank above the smallest one that meets the per-unfolding budget
    budget = e * nrm / np.sqrt(d - 1)
    noise2 = 1e3 * EPS * nrm * nrm if is_eigh else (1e3 * EPS * nrm) ** 2
    # leniency goes towards a SMALLER budget: the routine sees tail energies
    # perturbed by at most `noise2`, so any q whose true tail energy is below
    # budget^2 - noise2 is certainly accepted by it
    lim2 = budget * budget * (1 - 1e-9) ** 2 - noise2
    ropt = []
    for s in sv:
        q = next((q for q in range(len(s) + 1)
            if ref.tail(s, q) ** 2 <= lim2), len(s))
        ropt.append(max(1, q))
    ctx.check('trunc-rank-minimal',
        all(b <= q for b, q in zip(rout[1:-1], ropt)),
        lambda: f'returned ranks {rout} exceed the minimal ranks {ropt} for '
        f'the budget e||A||/sqrt(d-1) = {budget:.4e} [{mode}]', e=e,
        ranks_in=rin, shape=n)
    if any(b < a for a, b in zip(rin, rout)):
        ctx.nontrivial([n, rin, rout, bool(use_stab), bool(is_eigh),
            int(np.floor(np.log10(e) * 4))])


_state = {'nested': 0}


def make_truncate(orig):
    sig = docsig.sig('truncate')

    def truncate(*args, **kwargs):
        ba = sig.bind(*args, **kwargs)
        ba.apply_defaults()
        a = ba.arguments
        Y_in = [np.array(G, copy=True) for G in a['Y']]
        e_in, r_in = float(a['e']), float(a['r'])   # read BEFORE the call
        Z = orig(*args, **kwargs)
        ctx = core.CUR
        if ctx is not None:
            judge_truncate(ctx, Y_in, Z, e_in, r_in,
                bool(a['orth']), bool(a['use_stab']), bool(a['is_eigh']),
                _state['nested'] > 0)
            if _state['nested'] == 0:
                Z = sanit.hand_out(Z)
        return Z
    return truncate


def setup_worker(ctx):
    installed({'truncate': make_truncate}).__enter__()


# ---- workloads -------------------------------------------------------------------

def shape_spectrum(Y, kind, rng):
    d = len(Y)
    if kind == 'flat':
        return
    if kind == 'geom':
        q = float(rng.choice([0.1, 0.3, 0.6]))
        for G in Y:
            G *= (q ** np.arange(G.shape[2]))[None, None, :]
    elif kind == 'wide':
        # singular values spanning up to 15 decades (e below 1e-8 must still
        # resolve them in SVD mode)
        q = float(rng.choice([1e-2, 1e-3, 3e-4]))
        for G in Y:
            G *= (q ** np.arange(G.shape[2]))[None, None, :]
    elif kind == 'dominant':
        for G in Y:
            if G.shape[2] > 1:
                G[:, :, 1:] *= 10.0 ** -int(rng.integers(1, 6))
    elif kind == 'lowrank':
        # exactly low rank, padded with duplicated / combined columns
        for k in range(d - 1):
            G = Y[k]
            r2 = G.shape[2]
            keep = int(rng.integers(1, r2 + 1))
            for j in range(keep, r2):
                G[:, :, j] = G[:, :, int(rng.integers(keep))] * \
                    float(rng.choice([1., -1., 0.5]))


def run_trunc(case, ctx):
    import teneva
    rng = np.random.default_rng(case['seed'])
    fam = case['family']
    if fam == 'int':
        fam = 'generic'
    Y, info = gen.make_tt(rng, fam, dmax=case['dmax'], nmax=5, rmax=6,
        max_entries=3000)
    if rng.random() < 0.15 and len(Y) <= 3:
        # an outer product A x B: an interior bond of rank 1 between two
        # compressible parts, whose norms are far from 1
        Y2, info2 = gen.make_tt(rng, 'generic', dmin=2, dmax=3, nmax=4, rmax=4,
            max_entries=max(4, 3000 // int(np.prod(info['n']))))
        Y2[0] = Y2[0] * 10.0 ** rng.uniform(-3, 3)
        Y = Y + Y2
        info = {'family': 'outer', 'n': info['n'] + info2['n'],
            'r': info['r'][:-1] + info2['r']}
        ctx.event('interior-rank-1-bond')
    shape_spectrum(Y, case['spectrum'], rng)
    if rng.random() < 0.6:
        Y[int(rng.integers(len(Y)))] *= 10.0 ** int(rng.integers(-6, 7))
    elif rng.random() < 0.3 and len(Y) >= 3:
        # the whole scale of a tiny tensor sitting in one LATE core
        # (1e-101..1e-140, below the threshold of the stabilised sweeps)
        Y[int(rng.integers(2, len(Y)))] *= 10.0 ** -int(rng.integers(101, 141))
        ctx.event('tiny-scale-in-a-late-core')
    n = info['n']
    d = len(n)
    if d >= 2 and rng.random() < 0.12:
        # one LATER core stored in float32 (values exactly representable)
        # among float64 cores: the rounding still works in double precision
        kq = int(rng.integers(1, d))
        Y[kq] = Y[kq].astype(np.float32)
        ctx.event('one-float32-core-among-float64')
    f = input_facts(Y)
    nrm, sv = f['nrm'], f['sv']
    if not nrm > 0:
        ctx.event('zero-norm-input-skipped')
        return
    # thresholds placed at every rank change of every unfolding
    ths = []
    for s in sv:
        for q in range(len(s)):
            t = ref.tail(s, q) * np.sqrt(d - 1) / nrm
            ths += [t * (1 + 1e-6), t * (1 - 1e-6)]
    ths = [t for t in ths if 1e-9 < t < 1]
    pick = list(rng.choice(ths, size=min(4, len(ths)), replace=False)) \
        if ths else []
    pick += [10.0 ** rng.uniform(-9, 0) for _ in range(2)]
    rmaxin = max(ref.ranks_of(Y))
    caps = [1e12, 1, 2, max(1, rmaxin // 2)]
    first = True
    for e in pick:
        for is_eigh, stab in itertools.product([True, False], [False, True]):
            cap = caps[0] if rng.random() < 0.6 else \
                caps[int(rng.integers(1, len(caps)))]
            if rng.random() < 0.5:
                Z = teneva.truncate(Y, e, cap, True, stab, is_eigh)
            else:
                Z = teneva.truncate(Y, e=float(e), r=cap, use_stab=stab,
                    is_eigh=is_eigh)
            if first:
                first = False
                ctx.sample({'case': case, 'shape': n,
                    'ranks_in': ref.ranks_of(Y), 'e': float(e), 'cap': cap,
                    'is_eigh': is_eigh, 'use_stab': stab,
                    'ranks_out': ref.ranks_of(Z), 'norm': nrm,
                    'rel_error': ref.fro(np.asarray(ref.dense_ld(Z),
                        dtype=float) - f['A']) / nrm})
    ctx.event('truncate-direct-calls', len(pick) * 4)
    # option OBJECTS (0-d / 1-element arrays, numpy scalars) reused over
    # several calls: every call must see the accuracy the caller wrote down
    if pick:
        e0 = float(pick[int(rng.integers(len(pick)))])
        form = int(rng.integers(4))
        eo = [np.array(e0), np.array([e0]), np.float64(e0),
            np.array(e0, dtype=np.float32)][form]
        e_want = float(np.asarray(eo).reshape(-1)[0])
        ro = np.array(caps[int(rng.integers(len(caps)))])
        r_want = float(ro)
        for rep in range(2):
            stab, is_eigh = bool(rng.random() < .5), bool(rng.random() < .5)
            if form == 1:
                # a 1-element array is not a scalar for every numpy
                # operation inside; a clean rejection is acceptable
                try:
                    teneva.truncate(Y, eo, ro, True, stab, is_eigh)
                except (TypeError, ValueError):
                    ctx.event('one-element-array-accuracy-rejected')
            else:
                teneva.truncate(Y, eo, ro, True, stab, is_eigh)
            ok = float(np.asarray(eo).reshape(-1)[0]) == e_want and \
                float(ro) == r_want
            ctx.check('trunc-options-unchanged', ok, lambda: 'truncate '
                f'overwrote its option objects: e {e_want!r} -> '
                f'{np.asarray(eo).reshape(-1)[0]!r}, r {r_want!r} -> '
                f'{float(ro)!r} (call {rep + 1}, {type(eo).__name__} '
                f'shape {np.shape(eo)})')


def run_add_many(case, ctx):
    import teneva
    rng = np.random.default_rng(case['seed'])
    n = gen.rand_shape(rng, 2, 4, 1, 4)
    d = len(n)
    m = int(rng.integers(2, 41 if rng.random() < 0.3 else 9))
    items, dense = [], []
    for _ in range(m):
        if rng.random() < 0.15:
            v = float(np.round(rng.normal(), 2)) if rng.random() < 0.7 \
                else int(rng.integers(-3, 4))
            items.append(v)
            dense.append(np.full(n, v, dtype=float))
        else:
            Y = gen.cores(rng, n, gen.rand_ranks(rng, d, 3), 'normal')
            if rng.random() < 0.3:
                Y[0] *= 10.0 ** int(rng.integers(-3, 4))
            items.append(Y)
            dense.append(np.asarray(ref.dense_ld(Y), dtype=float))
    if d >= 3 and isinstance(items[0], list) and rng.random() < 0.3:
        # the first summand stored in a narrower dtype than the others
        # (integer counts, float32 data): the sum is formed in double
        if rng.random() < 0.5:
            items[0] = [np.rint(2 * G).astype([np.int64, np.int32][int(
                rng.integers(2))]) for G in items[0]]
        else:
            items[0] = [G.astype(np.float32) for G in items[0]]
        dense[0] = np.asarray(ref.dense_ld([np.asarray(G, dtype=float)
            for G in items[0]]), dtype=float)
        ctx.event('add_many-first-summand-narrow-dtype')
    e = float(10.0 ** rng.uniform(-8, -0.5))
    tf = case['trunc_freq']
    cap = 1e12 if rng.random() < 0.7 else int(rng.integers(1, 5))
    if case.get('cancel'):
        # P_1 .. P_k, T, -P_1 .. -P_k: the partial sums have high ranks, the
        # complete sum is T; a cap above the ranks of T does not bind for the
        # result and must not be applied to the partial sums
        n = gen.rand_shape(rng, 3, 4, 3, 4)
        d = len(n)
        k = int(rng.integers(tf + 1, tf + 4))
        P = [gen.cores(rng, n, gen.rand_ranks(rng, d, 2), 'normal')
            for _ in range(k)]
        rT = int(rng.integers(1, 3))
        T = gen.cores(rng, n, [1] + [rT] * (d - 1) + [1], 'normal')
        neg = []
        for Q in P:
            Qm = [G.copy() for G in Q]
            Qm[int(rng.integers(d))] *= -1.
            neg.append(Qm)
        order = list(rng.permutation(k))
        items = P + [T] + [neg[int(i)] for i in order]
        dense = [np.asarray(ref.dense_ld(Y), dtype=float) for Y in items]
        m = len(items)
        e = float(10.0 ** rng.uniform(-9, -4))
        cap = rT + int(rng.integers(1, 3))
        ctx.event('add_many-cancelling-summands')
    elif case.get('perturbed'):
        # -A, A + dB (the second summand is NOT exactly of low rank and is far
        # larger than the sum): the rounding steps are relative to the partial
        # sums, a summand is never rounded on its own
        n = gen.rand_shape(rng, 3, 4, 3, 4)
        d = len(n)
        A_ = gen.cores(rng, n, gen.rand_ranks(rng, d, 2), 'normal')
        B_ = gen.cores(rng, n, gen.rand_ranks(rng, d, 3, 2), 'normal')
        e = float(10.0 ** rng.uniform(-4, -2))
        B_[0] *= e * float(10.0 ** rng.uniform(-1.5, -0.5))
        Am = [G.copy() for G in A_]
        Am[int(rng.integers(d))] *= -1.
        AB_ = teneva.add(A_, B_)
        items = [Am, AB_] if rng.random() < 0.5 else [AB_, Am]
        for _ in range(int(rng.integers(0, 3))):
            Z_ = gen.cores(rng, n, gen.rand_ranks(rng, d, 2), 'normal')
            Z_[0] *= float(np.linalg.norm(B_[0])) * 0.1
            items.insert(int(rng.integers(len(items) + 1)), Z_)
        dense = [np.asarray(ref.dense_ld(Y), dtype=float) for Y in items]
        m = len(items)
        cap = 1e12
        ctx.event('add_many-large-summands-small-sum')
    eo = np.array(e) if rng.random() < 0.3 else e
    _state['nested'] += 1
    try:
        if cap == 1e12 and rng.random() < 0.5:
            Z = teneva.add_many(items, eo, trunc_freq=tf)
        else:
            Z = teneva.add_many(items, eo, cap, tf)
    finally:
        _state['nested'] -= 1
    if isinstance(eo, np.ndarray):
        ctx.check('trunc-options-unchanged', float(eo) == e, lambda: 'add_many '
            f'overwrote its accuracy object: {e!r} -> {float(eo)!r}')
    if all(not isinstance(x, list) for x in items):
        ctx.check('addmany-final', not isinstance(Z, list)
            and abs(Z - sum(items)) <= 1e-12 * (1 + sum(abs(x) for x in items)),
            f'add_many of numbers returned {Z!r}')
        return
    why = ref.wellformed(Z, n)
    if not ctx.check('addmany-final', why is None, f'add_many malformed: {why}'):
        return
    # recursion over exact dense partial sums
    S = dense[0].copy()
    E = 0.
    is_num = not isinstance(items[0], list)
    for j, T in enumerate(dense[1:]):
        S = S + T
        is_num = is_num and not isinstance(items[j + 1], list)
        if not is_num and (j + 1) % tf == 0:
            E = E + e * (ref.fro(S) + E)
    bound_no_cap = E + e * (ref.fro(S) + E)
    err = ref.fro(np.asarray(ref.dense_ld(Z), dtype=float) - S)
    floor = np.sqrt(50 * d * EPS) * max(ref.fro(x) for x in dense) * m
    rout = ref.ranks_of(Z)
    ctx.check('addmany-final', all(q <= max(1, int(cap)) for q in rout),
        f'add_many ranks {rout} exceed cap {cap}')
    if case.get('cancel'):
        # the exact sum T has ranks < cap, so the best rank-cap approximation
        # of (T + N), N the accumulated intermediate rounding error (<= E),
        # is at most ||N|| away in every unfolding: the final rounding adds
        # at most sqrt(d-1) ||N|| + e ||T + N|| whether or not its cap binds
        bound = (1 + np.sqrt(d - 1)) * E + e * (ref.fro(S) + E)
        ctx.check('addmany-cancel-cap', err <= bound * (1 + 1e-9) + floor,
            lambda: f'add_many of {m} summands that cancel to a rank-{rT} '
            f'tensor, cap {cap}: error {err:.4e} exceeds {bound:.4e} (cap '
            'applied to partial sums?)', e=e, trunc_freq=tf, shape=n,
            ranks_out=rout)
    if all(q < cap for q in rout[1:-1]):
        ctx.check('addmany-final', err <= bound_no_cap * (1 + 1e-9) + floor,
            f'add_many error {err:.4e} exceeds the accumulated bound '
            f'{bound_no_cap:.4e}', e=e, trunc_freq=tf, m=m, shape=n)
    else:
        ctx.skip('addmany-final', 'cap-binds')
    ctx.nontrivial(['add_many', n, m, tf, rout])
    ctx.sample({'case': case, 'shape': n, 'terms': m, 'e': e,
        'trunc_freq': tf, 'cap': cap, 'ranks_out': rout, 'error': err,
        'bound': bound_no_cap})


def run_cancel(case, ctx):
    """A small tensor stored as a difference of large terms, (X + dW) - X with
    |dW| ~ 1e-9..1e-6 |X|: the threshold must refer to the norm of the tensor,
    not to a cancellation-ridden scalar product of the stored cores."""
    import teneva
    rng = np.random.default_rng(case['seed'])
    n = gen.rand_shape(rng, 3, 4, 2, 4)
    d = len(n)
    X = gen.cores(rng, n, gen.rand_ranks(rng, d, 2), 'normal')
    dW = gen.cores(rng, n, gen.rand_ranks(rng, d, 4), 'normal')
    for G in dW:
        G *= (0.2 ** np.arange(G.shape[2]))[None, None, :]
    dW[0] *= 10.0 ** rng.uniform(-9, -6)
    Y = teneva.sub(teneva.add(X, dW), X)
    for e in (0.3, 0.03, float(10.0 ** rng.uniform(-3, -1))):
        for is_eigh in (True, False):
            for stab in (False, True):
                teneva.truncate(Y, e, 1e12, True, stab, is_eigh)
    ctx.event('cancelling-inputs')


def run_widebond(case, ctx):
    """A bond of rank 32..56 with a few dominant singular values and a long
    flat tail, a finite cap well above the rank that is needed, and e placed so
    that the needed rank depends on the energy of the WHOLE tail (every call is
    judged by the interposed monitor)."""
    import teneva
    rng = np.random.default_rng(case['seed'])
    R = int(rng.integers(32, 57))
    n1, n2 = int(rng.integers(R, 70)), int(rng.integers(R, 70))
    q0 = int(rng.integers(1, 5))
    t = float(10.0 ** rng.uniform(-3, -1.3))
    sv = np.concatenate([np.geomspace(1., 0.3, q0), np.full(R - q0, t)])
    U, _ = np.linalg.qr(rng.normal(size=(n1, R)))
    W, _ = np.linalg.qr(rng.normal(size=(n2, R)))
    cap = int(rng.integers(q0 + 4, R // 2 + 1))
    qs = int(rng.integers(q0 + 1, cap - 1))         # the rank that is needed
    e = t * np.sqrt(R - qs + 0.5) / float(np.sqrt(np.sum(sv ** 2)))
    if rng.random() < 0.4:
        # the same bond inside a longer train (d = 3)
        m = int(rng.integers(2, 4))
        n1 = (n1 // m) * m
        U = U[:n1]
        Q, Rm = np.linalg.qr(U.reshape(n1 // m, m * R))
        k = Q.shape[1]
        Y = [Q.reshape(1, n1 // m, k), Rm.reshape(k, m, R),
            (W * sv).T.reshape(R, n2, 1)]
    else:
        Y = [U.reshape(1, n1, R), (W * sv).T.reshape(R, n2, 1)]
    for is_eigh in (True, False):
        for stab in (False, True):
            teneva.truncate(Y, e, cap, True, stab, is_eigh)
    teneva.truncate(Y, e, float(cap), is_eigh=True)
    ctx.event('wide-bond-flat-tail-finite-cap')


def run_case(case, ctx):
    if case['kind'] == 'cancel':
        return run_cancel(case, ctx)
    if case['kind'] == 'widebond':
        return run_widebond(case, ctx)
    if case['kind'] == 'trunc':
        run_trunc(case, ctx)
    else:
        run_add_many(case, ctx)
