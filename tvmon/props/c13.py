"""C13 -- TT-ANOVA cores encode exactly the additive model estimated from the data.

Every case builds a sample set (I, y), recomputes the ANOVA model (sample mean,
conditional means per mode, pair means) independently in longdouble with
scatter-adds, drives the real `teneva.ANOVA` / `teneva.anova` (and
`teneva.ANOVA_func` / `teneva.anova_func`) and compares

* the class's f0 / f1 / domain / __call__ with the recomputation,
* the dense export of the returned TT with the model at EVERY multi-index of
  the observed domain (order 1: elementwise; order 2: Frobenius norm, because
  the library rounds the sum with `add_many`),
* mode sizes and TT-ranks (== r for order 1, <= r for order 2).

noise > 0 is checked exactly: the object passed as `seed` is an auditing
subclass of numpy.random.Generator that records every `normal` draw; the
expected cores are rebuilt from the documented pattern (docstring of `anova`:
"noise added to formally zero elements of TT-cores") plus those draws.

Rounding model (u = 2^-52, safety factor C = 10 on every term):

* a mean of c numbers has error <= u (sum|y_i| + |mean|) for ANY summation
  order (sequential worst case (c-1) u sum|y| / c, one division);
  f1 = mean_x - f0 adds the error of f0 and one subtraction; f2 likewise with
  three subtractions.  These per-entry bounds D are propagated to the dense
  tensor to first order by contracting the chain of |cores| with D in one core.
* order 2: `_second_order_2_tt` uses `matrix_skeleton(A)` with its default
  absolute accuracy 1e-10, `add_many` rounds once (d <= 5: fewer than 15
  terms) with relative accuracy 1e-10 and the rank cap r.  TT rounding is
  quasi-optimal: error^2 <= sum_k max(e_k, tail_k(T, r))^2.  teneva's
  `truncate` takes the singular values from `eigh` of the Gram matrix
  G G^T; forming and diagonalising it perturbs the eigenvalues by
  ||E||_2 <= (K + m) u ||G||_F^2 (K inner, m outer dimension), so directions
  with sigma^2 <~ m ||E|| can be lost or kept at random; trace argument:
  step error^2 <= max(e_k, tail_k)^2 + 3 m ||E||_2.  This sqrt(u)-sized term
  (1e-7 .. 1e-5 relative) is part of the tolerance of the end-to-end order-2
  oracle; the summands handed to `add_many` are additionally checked one by
  one with the tight (1e-10 + rounding) tolerance through interposition.
* functional variant: backward-error bound of the ridge normal equations
  (Gram product m u, QR solve ~n^2 u, basis/scaling perturbation p^2 dx) and
  `truncate(A, e)`: ||A^ - A||_F <= (e + eigh term) ||A||_F, propagated to a
  point by Cauchy-Schwarz with prod_k ||T(x_k)||_2.  `delta` stores
  |v|^(1/d) in each core, so a coefficient is reproduced with relative error
  <= (2d+2) u, not bit-exactly.
"""
import math

import numpy as np

from tvmon import ref, interpose
from tvmon.ref import LD, EPS

PID = 'C13'
LEVEL = 'exploration'
RULE = ('generated sample sets: full grids (shuffled, repeated), full grid '
    '+ duplicates with conflicting values, sparse random subsets with '
    'replacement (unobserved indices, gaps and offsets in the index values, '
    'a mode of size 1), d=2..6 (order 2: 2..5), observed mode sizes 1..6 (8 '
    'thorough), r=2..8 (12 thorough), orders 1 and 2, noise in {0, 1e-10, '
    '1e-3, 0.5}, up to 3000 (6000) samples, seed = auditing '
    'Generator / int / None, values: normal, integers, constants, zero, '
    'scaled 1e-6..1e6 (order 2: 1e-2..1e3), shifted (cancellation), additive '
    'functions, additive + low-rank pair interactions (also of relative size '
    '1e-5..1e-11); functional variant: random / few / '
    'duplicated / boundary points in scalar and per-dimension boxes, n=2..8 '
    '(12 thorough), lamb in {0, 1e-7, 1e-3, 1, 10}, e in {None, 1e-8, 1e-4, '
    '1e-2}. non-trivial = non-constant data, some mode size >= 2 and the '
    'dense/interpolant oracle judged; distinct by (kind, observed shape, m, '
    'r, order, noise, families)')
REQUIRED = {
    'class-f0': 100, 'class-f1': 100, 'class-domain': 100, 'call-model': 100,
    'wellformed': 150, 'ranks': 150, 'o1-model': 40, 'o1-noise-exact': 40,
    'noise-bound': 40, 'additive-exact': 10, 'o2-first-order': 40,
    'quadratic-exact': 60,
    'o2-pair-terms': 40, 'o2-dense': 30, 'o2-dense-noise': 30,
    'o2-vs-call': 30, 'object-history': 100,
    'func-normal-eq': 50, 'func-const': 50, 'func-layout': 30,
    'func-interp': 50, 'func-wellformed': 50,
}
REQUIRED_EVENTS = {'audit-draws': 100, 'o2-rank-large-enough': 30,
    'add_many-intercepted': 40}
ASSUMPTIONS = [
    'numpy longdouble (64-bit mantissa) scatter-adds are the reference for '
    'means; tolerances = 10 x first-order propagation of u(sum|y|+|mean|)',
    'order-2 end-to-end tolerance contains the sqrt(u) loss of the '
    'eigh-of-Gram rounding used by teneva.truncate (derived in the module '
    'docstring); the summands of add_many are checked tightly by interposition',
    'int seeds (no audit possible): |N(0,1)| <= 8.5 for every draw '
    '(probability of a false alarm < 1e-9 per run)',
    'draws are mapped to core entries by position (documented pattern); if '
    'the recorded draw shapes do not match the core shapes the exact noise '
    'oracle is not judged and only the bound with max|draw| decides',
]
SHARDS = {'quick': 8, 'thorough': 12}
BUDGET_S = {'quick': 300, 'thorough': 2400}

C = 10.
U = EPS
ULD = 2.0 ** -63
GMAX_BLIND = 8.5


# ---- cases ---------------------------------------------------------------------

IFAMS = ['full', 'fullx2', 'full+dups', 'sparse', 'sparse', 'sparse-small',
    'cover']
VFAMS = ['normal', 'normal', 'int', 'const', 'scaled', 'shifted', 'additive',
    'additive-int', 'pair', 'pair+res', 'pair-tiny', 'smooth', 'zero']
XFAMS = ['many', 'many', 'few', 'dups', 'boundary']
FVFAMS = ['normal', 'smooth', 'smooth', 'const', 'shifted', 'cheb-additive',
    'zero', 'int']


def gen_cases(seed, tier):
    quick = tier == 'quick'
    rng = np.random.default_rng([seed, 113])
    out = []
    n_an = 18000 if quick else 300000
    n_fn = 6000 if quick else 100000
    rmax = 8 if quick else 12
    nmx = 6 if quick else 8
    for j in range(n_an):
        order = 1 if rng.random() < 0.45 else 2
        vf = VFAMS[j % len(VFAMS)]
        if vf == 'zero' and rng.random() < 0.7:
            vf = 'normal'
        out.append({'kind': 'anova', 'seed': int(rng.integers(1 << 62)),
            'd': int(rng.integers(2, 8 if order == 1 else 7)),
            'nmax': int(rng.integers(2, nmx + 1)),
            'mmax': 3000 if quick else 6000,
            'order': order,
            'r': int(rng.integers(2, rmax + 1)),
            'noise': [0., 0., 0., 1e-10, 1e-10, 1e-3, 1e-3,
                0.5][int(rng.integers(8))],
            'ifam': IFAMS[int(rng.integers(len(IFAMS)))],
            'vfam': vf,
            'seedmode': ['audit', 'audit', 'audit', 'audit', 'int',
                'none'][int(rng.integers(6))],
            'aslist': bool(rng.random() < 0.25),
            'via': ['func', 'func', 'class'][int(rng.integers(3))]})
    for j in range(n_fn):
        vf = FVFAMS[j % len(FVFAMS)]
        if vf == 'zero' and rng.random() < 0.7:
            vf = 'normal'
        out.append({'kind': 'func', 'seed': int(rng.integers(1 << 62)),
            'd': int(rng.integers(2, 6)),
            'n': int(rng.integers(2, (8 if quick else 12) + 1)),
            'xfam': XFAMS[int(rng.integers(len(XFAMS)))],
            'vfam': vf,
            'lamb': [1e-7, 1e-7, 0., 1e-3, 1., 10.][int(rng.integers(6))],
            'e': [1e-8, 1e-8, None, 1e-4, 1e-2][int(rng.integers(5))],
            'box': ['default', 'scalar', 'list'][int(rng.integers(3))],
            'aslist': bool(rng.random() < 0.25)})
    for j in range(120 if quick else 3000):
        out.append({'kind': 'quad', 'seed': int(rng.integers(1 << 62))})
    # interleave so that every shard gets both kinds
    perm = np.random.default_rng([seed, 114]).permutation(len(out))
    # 16 showcase cases first (one per shard for any shard count <= 16): small
    # non-trivial instances of the three oracles, written out in the evidence
    head = [{'kind': 'showcase', 'seed': int(rng.integers(1 << 62))}
        for _ in range(16)]
    return head + [out[int(i)] for i in perm]


# ---- the auditing generator ----------------------------------------------------

class AuditGen(np.random.Generator):
    """A genuine numpy Generator that records what is drawn from it."""

    def __init__(self, seed):
        super().__init__(np.random.PCG64(seed))
        self.draws = []       # arrays returned by normal(), in call order
        self.other = []       # names of other drawing methods used

    def normal(self, *a, **k):
        v = super().normal(*a, **k)
        self.draws.append(np.array(v, dtype=float, copy=True))
        return v


def _other(name):
    def f(self, *a, **k):
        self.other.append(name)
        return getattr(np.random.Generator, name)(self, *a, **k)
    f.__name__ = name
    return f


for _n in ('standard_normal', 'random', 'uniform', 'integers', 'choice',
        'permutation', 'shuffle'):
    setattr(AuditGen, _n, _other(_n))


# ---- data ----------------------------------------------------------------------

def make_samples(rng, case):
    """Positions P [m, d] in a nominal grid of sizes n, then index values."""
    d, nmax, ifam = case['d'], case['nmax'], case['ifam']
    for _ in range(200):
        n = [int(rng.integers(1, nmax + 1)) for _ in range(d)]
        if max(n) >= 2 and int(np.prod(n)) <= 5000:
            break
    else:
        n = [2] * d
    N = int(np.prod(n))
    G = ref.all_indices(n)
    if ifam == 'full':
        P = G[rng.permutation(N)]
    elif ifam == 'fullx2':
        P = np.vstack([G, G])
        P = P[rng.permutation(len(P))]
    elif ifam == 'full+dups':
        k = int(rng.integers(1, N + 2))
        P = np.vstack([G, G[rng.integers(N, size=k)]])
        P = P[rng.permutation(len(P))]
    elif ifam == 'sparse':
        m = int(rng.integers(1, min(3 * N, case.get('mmax', 3000)) + 1))
        P = np.stack([rng.integers(0, k, size=m) for k in n], axis=1)
    elif ifam == 'sparse-small':
        m = int(rng.integers(1, max(3, sum(n)) + 1))
        P = np.stack([rng.integers(0, k, size=m) for k in n], axis=1)
    else:   # 'cover': every index of every mode occurs, otherwise random
        m = int(rng.integers(max(n), max(n) * 4 + 1))
        P = np.stack([np.concatenate([rng.permutation(k),
            rng.integers(0, k, size=m - k)]) for k in n], axis=1)
    # index values: offset and stride per mode (observed domain != 0..n-1)
    if rng.random() < 0.35:
        off = [int(rng.integers(0, 4)) for _ in n]
        st = [int(rng.integers(1, 4)) for _ in n]
    else:
        off, st = [0] * d, [1] * d
    I = P * np.array(st) + np.array(off)
    return n, P, I


def make_values(rng, vfam, P, n, order):
    m, d = P.shape
    equal_on_dups = True
    if vfam == 'normal':
        y = rng.normal(size=m)
        equal_on_dups = False
    elif vfam == 'int':
        y = rng.integers(-5, 6, size=m).astype(float)
        equal_on_dups = False
    elif vfam == 'const':
        y = np.full(m, [1., 2.5, -0.1, 1e3, 1. / 3, -7.][int(rng.integers(6))])
    elif vfam == 'zero':
        y = np.zeros(m)
    elif vfam == 'scaled':
        # order 2 goes through absolute 1e-10 thresholds of the library:
        # keep the scale moderate there (see the module docstring)
        s = int(rng.integers(-6, 7)) if order == 1 else int(rng.integers(-2, 4))
        y = rng.normal(size=m) * 10. ** s
        equal_on_dups = False
    elif vfam == 'shifted':
        y = 10. ** int(rng.integers(1, 5)) + rng.normal(size=m)
        equal_on_dups = False
    else:
        integer = vfam == 'additive-int'
        g = [rng.integers(-4, 5, size=k).astype(float) if integer
            else rng.normal(size=k) for k in n]
        c = float(rng.integers(-3, 4)) if integer else float(rng.normal())
        y = c + sum(g[k][P[:, k]] for k in range(d))
        if vfam in ('pair', 'pair+res', 'pair-tiny') and d >= 2:
            # 'pair-tiny': interaction of relative size 1e-5..1e-11, the
            # regime in which the eigh-of-Gram rounding loses directions
            amp = 10. ** -rng.uniform(5, 11) if vfam == 'pair-tiny' else 1.
            for _ in range(int(rng.integers(1, 3))):
                a, b = sorted(rng.choice(d, size=2, replace=False))
                y = y + amp * rng.normal(size=n[a])[P[:, a]] * \
                    rng.normal(size=n[b])[P[:, b]]
        if vfam == 'pair+res':
            y = y + 1e-3 * rng.normal(size=m)
            equal_on_dups = False
        if vfam == 'smooth':
            y = np.sin(0.7 * P.sum(axis=1) + 0.3) + 0.1 * P[:, 0]
    return np.asarray(y, dtype=float), equal_on_dups


# ---- independent ANOVA model ---------------------------------------------------

class Model:
    """f0, f1, f2 and their rounding bounds D*, from scatter-adds in longdouble."""

    def __init__(self, I, y, order):
        I = np.asarray(I)
        self.m, self.d = I.shape
        d = self.d
        yl = np.asarray(y, dtype=float).astype(LD)
        ya = np.abs(yl)
        self.dom = [sorted(set(int(v) for v in I[:, k])) for k in range(d)]
        self.pos = [np.searchsorted(np.array(self.dom[k]), I[:, k])
            for k in range(d)]
        self.n = [len(x) for x in self.dom]
        self.f0 = yl.sum() / LD(self.m)
        self.D0 = U * (ya.sum() + abs(self.f0))
        self.f1, self.D1 = [], []
        for k in range(d):
            s = np.zeros(self.n[k], dtype=LD)
            a = np.zeros(self.n[k], dtype=LD)
            np.add.at(s, self.pos[k], yl)
            np.add.at(a, self.pos[k], ya)
            c = np.bincount(self.pos[k], minlength=self.n[k])
            mean = s / c.astype(LD)
            f1 = mean - self.f0
            self.f1.append(f1)
            self.D1.append(U * (a + np.abs(mean)) + self.D0 + U * np.abs(f1))
        self.pairs = [(i, j) for i in range(d) for j in range(i + 1, d)]
        self.f2, self.D2 = {}, {}
        if order >= 2:
            for (i, j) in self.pairs:
                sh = (self.n[i], self.n[j])
                s = np.zeros(sh, dtype=LD)
                a = np.zeros(sh, dtype=LD)
                c = np.zeros(sh, dtype=np.int64)
                np.add.at(s, (self.pos[i], self.pos[j]), yl)
                np.add.at(a, (self.pos[i], self.pos[j]), ya)
                np.add.at(c, (self.pos[i], self.pos[j]), 1)
                has = c > 0
                mean = np.where(has, s / np.where(has, c, 1).astype(LD), 0)
                fa, fb = self.f1[i][:, None], self.f1[j][None, :]
                f2 = np.where(has, mean - self.f0 - fa - fb, LD(0))
                D = np.where(has, U * (a + np.abs(mean)) + self.D0
                    + self.D1[i][:, None] + self.D1[j][None, :]
                    + 3 * U * (np.abs(mean) + abs(self.f0) + np.abs(fa)
                    + np.abs(fb)), LD(0))
                self.f2[i, j] = f2
                self.D2[i, j] = D

    def bcast(self, v, axes):
        """Array over modes `axes` broadcast to the full observed shape."""
        sh = [1] * self.d
        for t, ax in enumerate(axes):
            sh[ax] = v.shape[t]
        return np.broadcast_to(np.reshape(v, sh), self.n)

    def dense1(self, what='f'):
        f0, f1 = (self.f0, self.f1) if what == 'f' else (self.D0, self.D1)
        T = np.full(self.n, f0, dtype=LD)
        for k in range(self.d):
            T = T + self.bcast(f1[k], [k])
        return T

    def dense2(self, what='f'):
        f2 = self.f2 if what == 'f' else self.D2
        T = np.zeros(self.n, dtype=LD)
        for (i, j) in self.pairs:
            T = T + self.bcast(np.abs(f2[i, j]) if what == 'abs'
                else f2[i, j], [i, j])
        return T


def chain_with(cores, k=None, repl=None):
    """dense contraction of `cores` with core k replaced by `repl`."""
    cs = list(cores)
    if k is not None:
        cs[k] = repl
    return ref.dense_ld(cs)


def pattern_cores(M, r, draws, noise):
    """Expected first-order cores: documented pattern + noise * draws.

    Returns (E, Dc, mask): expected cores (longdouble), elementwise rounding
    bounds of the data entries, 0/1 masks of the non-pattern (noise) entries.
    """
    d, n = M.d, M.n
    E, Dc, mask = [], [], []
    for k in range(d):
        sh = (1 if k == 0 else r, n[k], 1 if k == d - 1 else r)
        if draws is None:
            G = np.zeros(sh, dtype=LD)
        else:
            G = np.asarray(noise * draws[k], dtype=float).astype(LD)
        D = np.zeros(sh, dtype=LD)
        mk = np.ones(sh, dtype=LD)
        if k == 0:
            G[0, :, 0] = 1
            G[0, :, 1] = M.f1[0]
            D[0, :, 1] = M.D1[0]
            mk[0, :, 0] = mk[0, :, 1] = 0
        elif k < d - 1:
            G[0, :, 0] = 1
            G[1, :, 1] = 1
            G[0, :, 1] = M.f1[k]
            D[0, :, 1] = M.D1[k]
            mk[0, :, 0] = mk[1, :, 1] = mk[0, :, 1] = 0
        else:
            v = M.f1[k] + M.f0
            G[0, :, 0] = v
            G[1, :, 0] = 1
            D[0, :, 0] = M.D1[k] + M.D0 + U * np.abs(v)
            mk[0, :, 0] = mk[1, :, 0] = 0
        E.append(G)
        Dc.append(D)
        mask.append(mk)
    return E, Dc, mask


def first_order_tol(E, Dc):
    """C x first-order propagation of the data-entry bounds + longdouble term."""
    AE = [np.abs(G) + D for G, D in zip(E, Dc)]
    tol = np.zeros([G.shape[1] for G in E], dtype=LD)
    for k in range(len(E)):
        if np.any(Dc[k] != 0):
            tol = tol + chain_with(AE, k, Dc[k])
    return C * tol + 8 * ref.nterms(E) * ULD * ref.dense_ld(AE)


def draws_match(draws, n, r):
    d = len(n)
    if len(draws) != d:
        return False
    for k in range(d):
        sh = (1 if k == 0 else r, n[k], 1 if k == d - 1 else r)
        if tuple(draws[k].shape) != sh:
            return False
    return True


def fro(A):
    return ref.fro(A)


def show(ctx, case, cat, obj):
    """Written-out sample: only for the showcase cases at the head of the list."""
    if case.get('show') and ctx.case_viol == 0:
        obj = dict(obj)
        obj['category'] = cat
        ctx.sample(obj)


# ---- ANOVA cases ---------------------------------------------------------------

def run_case(case, ctx):
    import teneva
    if case['kind'] == 'showcase':
        sd = np.random.default_rng(case['seed']).integers(1 << 62, size=3)
        run_anova({'kind': 'anova', 'seed': int(sd[0]), 'd': 3, 'nmax': 3,
            'order': 1, 'r': 3, 'noise': 1e-3, 'ifam': 'sparse',
            'vfam': 'normal', 'seedmode': 'audit', 'aslist': False,
            'via': 'func', 'show': True}, ctx, teneva)
        run_anova({'kind': 'anova', 'seed': int(sd[1]), 'd': 3, 'nmax': 3,
            'order': 2, 'r': 8, 'noise': 0., 'ifam': 'full+dups',
            'vfam': 'pair', 'seedmode': 'audit', 'aslist': False,
            'via': 'func', 'show': True}, ctx, teneva)
        run_func({'kind': 'func', 'seed': int(sd[2]), 'd': 2, 'n': 4,
            'xfam': 'many', 'vfam': 'smooth', 'lamb': 1e-7, 'e': 1e-8,
            'box': 'list', 'aslist': False, 'show': True}, ctx, teneva)
        return
    if case['kind'] == 'quad':
        return run_quad(case, ctx, teneva)
    if case['kind'] == 'func':
        return run_func(case, ctx, teneva)
    return run_anova(case, ctx, teneva)


def run_quad(case, ctx, teneva):
    """A function with pair interactions only and exact TT-rank 3 on a full
    grid, (sum_k w_k x_k - c)^2: its order-2 ANOVA model is the function
    itself, so the requested rank 3 (or more) is large enough, while the
    partial sums of the pair terms have higher ranks than the model."""
    rng = np.random.default_rng(case['seed'])
    d = int(rng.integers(4, 7))
    n = [int(rng.integers(3, 5)) for _ in range(d)]
    while int(np.prod(n)) > 1500:
        n[int(np.argmax(n))] -= 1
        if max(n) < 3:
            break
    xs = [rng.normal(size=k) for k in n]
    wv = rng.uniform(0.5, 1.5, size=d) * rng.choice([-1., 1.], size=d)
    c = float(rng.normal())
    I = np.array(list(np.ndindex(*n)), dtype=np.int64)
    I = I[rng.permutation(len(I))]
    lin = sum(LD(wv[k]) * xs[k].astype(LD)[I[:, k]] for k in range(d)) - LD(c)
    y = np.asarray(lin * lin, dtype=float)
    F = np.zeros(n, dtype=LD)
    F[tuple(I.T)] = y.astype(LD)
    r = int(rng.integers(3, 6))
    if rng.random() < 0.5:
        Y = teneva.anova(I.copy(), y.copy(), r, 2, 0., seed=int(rng.integers(
            1 << 30)))
    else:
        Y = teneva.ANOVA(I.copy(), y.copy(), 2, seed=int(rng.integers(
            1 << 30))).cores(r, 0.)
    why = ref.wellformed(Y, n, finite=True)
    if not ctx.check('wellformed', why is None, f'order-2 ANOVA of a '
            f'quadratic form: {why}'):
        return
    ctx.check('ranks', all(q <= r for q in ref.ranks_of(Y)), f'order-2 ANOVA: '
        f'ranks {ref.ranks_of(Y)} exceed r = {r}')
    err = fro(ref.dense_ld(Y) - F)
    tol = 1e-7 * fro(F)      # two 1e-10 roundings, skeletons of the pair terms
    ctx.close('quadratic-exact', err, 0., tol, f'order-2 ANOVA (r = {r}) of '
        f'(sum w x - c)^2 on a full {n} grid: the model is the function '
        '(TT-ranks 3), result differs', d=d)
    ctx.nontrivial(['quad', n, r])


def run_anova(case, ctx, teneva):
    rng = np.random.default_rng(case['seed'])
    order, r, noise = case['order'], case['r'], case['noise']
    n_nom, P, I = make_samples(rng, case)
    y, equal_on_dups = make_values(rng, case['vfam'], P, n_nom, order)
    m, d = I.shape
    gseed = int(rng.integers(1 << 31))
    idt = [np.int64, np.int64, np.int32][int(rng.integers(3))]
    I = I.astype(idt)
    I_arg = I.tolist() if case['aslist'] else I.copy()
    y_arg = y.tolist() if case['aslist'] else y.copy()
    rounded32 = False
    if not case['aslist'] and rng.random() < 0.2:
        # the values as measured data often arrive: float32 (the model is of
        # those exact values and is formed in double precision)
        y32 = np.asarray(y, dtype=np.float32)
        if np.all(np.isfinite(y32)):
            rounded32 = not np.array_equal(y32.astype(float), y)
            y = y32.astype(float)
            y_arg = y32.copy()
            ctx.event('values-given-as-float32')

    M = Model(I, y, order)
    n = M.n
    N = int(np.prod(n))

    # ---- the class: f0, f1, domain, __call__
    A = teneva.ANOVA(I_arg, y_arg, order, seed=gseed)
    ctx.close('class-f0', A.f0, M.f0, C * M.D0, 'ANOVA.f0 vs sample mean')
    okdom = len(A.domain) == d and all(
        [int(v) for v in A.domain[k]] == M.dom[k] for k in range(d)) and \
        [int(v) for v in A.shapes] == n
    ctx.check('class-domain', okdom, 'ANOVA.domain/shapes differ from the '
        'distinct observed indices', domain=[list(map(int, x))
        for x in A.domain], expected=M.dom)
    okf1 = len(A.f1) == d and all(sorted(int(x) for x in A.f1[k]) == M.dom[k]
        for k in range(d))
    if ctx.check('class-f1', okf1, 'ANOVA.f1 keys are not the observed indices'):
        for k in range(d):
            got = np.array([A.f1[k][x] for x in M.dom[k]])
            ctx.close('class-f1', got, M.f1[k], C * M.D1[k],
                f'ANOVA.f1[{k}] vs conditional mean - f0')
    if not okdom:
        return
    Gpos = ref.all_indices(n)
    Ival = np.stack([np.array(M.dom[k])[Gpos[:, k]] for k in range(d)], axis=1)
    M1 = M.dense1()
    T0 = M1 + (M.dense2() if order == 2 else 0)
    Dm = M.dense1('D') + (M.dense2('D') if order == 2 else 0)
    absm = abs(M.f0) + sum(M.bcast(np.abs(M.f1[k]), [k]) for k in range(d)) \
        + (M.dense2('abs') if order == 2 else 0)
    tol_call = C * Dm + C * (len(M.pairs) + d + 1) * U * absm
    sel = np.arange(N) if N <= 600 else rng.choice(N, size=600, replace=False)
    call = np.asarray(A(Ival[sel].astype(idt)), dtype=float)
    ctx.close('call-model', call, T0.reshape(-1)[sel],
        np.reshape(tol_call, -1)[sel],
        'ANOVA.__call__ vs independently recomputed model')
    one = A(Ival[sel[0]].astype(idt))
    ctx.close('call-model', one, T0.reshape(-1)[sel[0]],
        np.reshape(tol_call, -1)[sel[0]], 'ANOVA.__call__ on one multi-index')

    # ---- history on one fitted object: repeated cores() calls must agree and
    # must not change the model (the cores are a pure function of the model)
    if N <= 3000:
        try:
            reps = [A.cores(r, 0.)]
            # the same request in other words: a relative noise of 0 (it
            # overrides the absolute one), before and after a request with
            # other options (noise, only_near) on the same object
            reps.append(A.cores(r, 1., False, 0))
            if order == 2 and d >= 3 and r >= 2:
                try:
                    A.cores(r, 0., True)      # neighbouring pairs only
                    ctx.event('only_near-request-in-between')
                except Exception:
                    ctx.event('only_near-request-raised')
            A.cores(r, 1e-3)
            reps.append(A.cores(r, noise=0.))
            if order == 2 and d >= 3 and r >= 2:
                # a second fitted object whose FIRST request is the restricted
                # one: its later default request is the full model again
                A2 = teneva.ANOVA(I_arg, y_arg, order, seed=gseed)
                try:
                    A2.cores(r, 0., True)
                except Exception:
                    pass
                reps.append(A2.cores(r, 0.))
        except Exception as ex:
            reps = None
            ctx.viol('object-history', f'repeated ANOVA.cores(r={r}, noise=0) '
                f'raised {type(ex).__name__}: {ex}',
                kf='svd-zero-matrix-nan' if order == 2 and not np.any(T0)
                else None)
        if reps is not None:
            same = all(len(R) == len(reps[0]) and all(a.shape == b.shape
                and np.array_equal(a, b, equal_nan=True) for a, b in
                zip(R, reps[0])) for R in reps[1:])
            ctx.check('object-history', same, 'ANOVA.cores(noise=0) called '
                'three times on one fitted object returned different tensors',
                order=order, r=r, f0=float(M.f0))
            call2 = np.asarray(A(Ival[sel].astype(idt)), dtype=float)
            ctx.check('object-history', np.array_equal(call, call2,
                equal_nan=True) and A.f0 == A.f0, 'ANOVA.__call__ changed '
                'after cores() was called (the fitted model was modified)')

    # ---- the TT
    mode = case['seedmode']
    if mode == 'audit':
        gen = AuditGen(gseed)
        seed_arg = gen
    elif mode == 'int':
        gen, seed_arg = None, gseed
    else:
        gen, seed_arg = None, None
        if noise != 0:
            mode = 'int'      # blind: same treatment as an int seed
    seen = {}

    def mk(orig):
        def add_many(Y_many, *a, **k):
            seen['terms'] = [[np.array(G, copy=True) for G in Y]
                for Y in Y_many]
            seen['n'] = seen.get('n', 0) + 1
            return orig(Y_many, *a, **k)
        return add_many

    with interpose.installed({'add_many': mk}):
        if case['via'] == 'class':
            Y = teneva.ANOVA(I_arg, y_arg, order, seed=seed_arg).cores(r, noise)
        else:
            Y = teneva.anova(I_arg, y_arg, r, order, noise, seed_arg)

    if gen is not None:
        ctx.event('audit-draws', len(gen.draws))
        if gen.other:
            ctx.event('audit-other-methods', len(gen.other))

    # expected first-order cores
    draws = None
    exact_noise = True
    if noise != 0:
        if gen is not None and draws_match(gen.draws, n, r):
            draws = gen.draws
        else:
            exact_noise = False
    E, Dc, mask = pattern_cores(M, r, draws, noise)
    T1 = ref.dense_ld(E)
    tol1 = first_order_tol(E, Dc)

    # mechanism key of the known defect of the pinned tree (D6): the tensor to
    # be rounded is exactly zero -> matrix_svd divides by a zero singular value
    # (zero model and no noise path: noise == 0, or r == 2 where the noise
    # entries of the pattern never connect, or the audited draws say so)
    kf = 'svd-zero-matrix-nan' if order == 2 and not np.any(T0) and (
        noise == 0 or r == 2 or (exact_noise and not np.any(T1))) else None
    why = ref.wellformed(Y, n, finite=True)
    if not ctx.check('wellformed', why is None, f'anova returned a malformed '
            f'tensor or wrong mode sizes (observed {n}): {why}', kf=kf):
        return
    ranks = ref.ranks_of(Y)[1:-1]
    if order == 1:
        ctx.check('ranks', all(q == r for q in ranks),
            f'order 1: TT-ranks {ranks} != requested {r}')
    else:
        ctx.check('ranks', all(q <= r for q in ranks),
            f'order 2: TT-ranks {ranks} exceed requested {r}')
    got = ref.dense_ld(Y)
    # bound on the contribution of the noise entries (pattern P, |N| <= nu)
    if noise != 0:
        gmax = max((float(np.max(np.abs(g))) for g in gen.draws),
            default=0.) if gen is not None else GMAX_BLIND
        nu = abs(noise) * gmax * (1 + 8 * U)
        Pc, Dp, _ = pattern_cores(M, r, None, 0.)
        AP = [np.abs(G) for G in Pc]
        APN = [np.abs(G) + C * D + nu * mk_ for G, D, mk_ in zip(Pc, Dp, mask)]
        full_b = ref.dense_ld(APN)
        nbound = full_b - ref.dense_ld(AP) + 16 * ref.nterms(Pc) * ULD * full_b
    else:
        nbound = None

    # (values rounded to float32 are no longer an exactly additive table)
    additive = case['vfam'] in ('additive', 'additive-int') and \
        case['ifam'] in ('full', 'fullx2') and not rounded32
    if additive:
        F = np.zeros(n, dtype=LD)
        F[tuple(np.stack(M.pos, axis=1).T)] = y.astype(LD)
        tol_add = 4 * (d + 2) * ULD * float(np.sum(np.abs(y)))

    smp = {'case': case, 'observed_shape': n, 'samples': m,
        'distinct_cells': int(len(set(map(tuple, I.tolist())))),
        'index_domain': M.dom, 'ranks': ref.ranks_of(Y),
        'f0_observed': float(A.f0), 'f0_reference': float(M.f0),
        'f1_mode0_observed': [float(A.f1[0][x]) for x in M.dom[0]],
        'f1_mode0_reference': [float(v) for v in M.f1[0]],
        'tensor_at_origin_observed': float(got.reshape(-1)[0])}
    if case.get('show'):
        smp['I_trn'] = I.tolist()
        smp['y_trn'] = y.tolist()

    if order == 1:
        if noise == 0:
            tolm = C * (2 * M.D0 + sum(M.bcast(M.D1[k], [k]) for k in range(d))
                + U * np.abs(M.bcast(M.f1[d - 1] + M.f0, [d - 1]))) \
                + 8 * ref.nterms(Y) * ULD * ref.dense_ld([np.abs(G) for G in E])
            ctx.close('o1-model', got, M1, tolm,
                'order 1, noise 0: dense tensor vs f0 + sum_k f1_k')
            smp['tensor_at_origin_reference'] = float(M1.reshape(-1)[0])
        else:
            ctx.close('noise-bound', got, M1, nbound, 'order 1: deviation '
                'from f0 + sum_k f1_k exceeds what noise * max|draw| in the '
                'formally-zero core entries can produce')
            if exact_noise:
                ctx.close('o1-noise-exact', got, T1, tol1, 'order 1: dense '
                    'tensor vs pattern + noise * recorded normal draws')
                smp['tensor_at_origin_reference'] = float(T1.reshape(-1)[0])
                smp['noise_part_at_origin'] = float((T1 - M1).reshape(-1)[0])
            else:
                ctx.skip('o1-noise-exact', 'int-seed' if gen is None
                    else 'draw-pattern-differs')
        if additive and (noise == 0 or exact_noise):
            ctx.close('additive-exact', got, F + (T1 - M1), tol1 + tol_add,
                'additive function on a full grid is not reproduced')
        if np.ptp(y) > 0 and max(n) >= 2:
            ctx.nontrivial(['anova', n, m, r, order, noise, case['ifam'],
                case['vfam'], case['seedmode']])
        show(ctx, case, 'order-1, noise audited', smp)
        return

    # ---- order 2
    T2 = M.dense2()
    Tstar = T1 + T2
    D2d = M.dense2('D')
    tolpair = np.zeros(n, dtype=LD)
    tolpairF = 0.
    for (i, j) in M.pairs:
        t = 1e-10 + C * (n[i] + n[j]) ** 2 * U * fro(M.f2[i, j])
        tolpair = tolpair + t
        tolpairF += t * math.sqrt(N / (n[i] * n[j]))
    tolpair = tolpair + C * D2d
    tolpairF += fro(C * D2d)

    # summands handed to add_many (tight, before the rounding)
    if seen.get('n', 0) == 1 and len(seen['terms']) >= 1:
        ctx.event('add_many-intercepted')
        terms = seen['terms']
        ok = all(ref.wellformed(Z, n, finite=True) is None for Z in terms)
        if ctx.check('o2-first-order', ok, 'a summand of add_many is '
                'malformed'):
            g1 = ref.dense_ld(terms[0])
            if noise == 0 or exact_noise:
                ctx.close('o2-first-order', g1, T1, tol1, 'order 2: first '
                    'summand vs first-order pattern (+ recorded draws)')
            else:
                ctx.close('o2-first-order', g1, M1, nbound, 'order 2: first '
                    'summand vs first-order model within the noise bound')
            gp = np.zeros(n, dtype=LD)
            for Z in terms[1:]:
                gp = gp + ref.dense_ld(Z)
            ctx.close('o2-pair-terms', gp, T2, tolpair, 'order 2: sum of the '
                'pair summands vs recomputed pair means (skeleton 1e-10)')
    else:
        ctx.event('add_many-not-seen')

    # "requested rank large enough": r >= 2 + sum of pair ranks across the bond
    prank = {}
    for (i, j) in M.pairs:
        s = np.linalg.svd(np.asarray(M.f2[i, j], dtype=float),
            compute_uv=False)
        prank[i, j] = int(np.sum(s > max(1e-10, max(n[i], n[j]) * U * s[0])))
    req = max(2 + sum(prank[i, j] for (i, j) in M.pairs if i < k <= j)
        for k in range(1, d))
    smp['rank_required'] = req
    if r < req:
        ctx.event('o2-rank-insufficient')
        return
    ctx.event('o2-rank-large-enough')
    npairs = len(M.pairs)
    # add_many rounds once at the end, and once more (accuracy only, no rank
    # cap) after every 15th addition: with exactly 15 pairs (d = 6) that extra
    # rounding also acts on the complete sum
    assert npairs <= 15
    n_round = 2 if npairs == 15 else 1

    def tails(T):
        Tf = np.asarray(T, dtype=float)
        out = []
        for k in range(1, d):
            s = np.linalg.svd(Tf.reshape(int(np.prod(n[:k])), -1),
                compute_uv=False)
            out.append(ref.tail(s, r))
        return float(np.sqrt(np.sum(np.square(out))))

    def trunc_tol(T, absT):
        """Frobenius tolerance of one add_many rounding of the tensor T."""
        normT = fro(T)
        Rk = [1] + [r + sum(min(n[i], n[j]) for (i, j) in M.pairs
            if i < k <= j) for k in range(1, d)] + [1]
        eig2 = 0.
        nt = 0
        for k in range(d - 1, 0, -1):
            r2 = 1 if k == d - 1 else min(r, Rk[k + 1])
            a, b = Rk[k], n[k] * r2
            mm, K = min(a, b), max(a, b)
            eig2 += C * C * mm * (K + mm) * U
            nt += Rk[k] * n[k]
        return (tails(T) * (1 + 1e-8) + 1e-10 * normT * (1 + 1e-8)
            + math.sqrt(eig2) * normT + C * (nt + d) * U * fro(absT))

    absT = ref.dense_ld([np.abs(G) + D for G, D in zip(E, Dc)]) + M.dense2('abs')
    base = trunc_tol(Tstar, absT) + tolpairF + fro(tol1)
    if n_round == 2:
        base += trunc_tol(Tstar, absT) - tails(Tstar) * (1 + 1e-8)
        ctx.event('o2-two-roundings')
    if noise == 0 or exact_noise:
        tolF = base
        # two monitor names so that the evidence shows the margin of the
        # rounding model (noise 0) separately from the tail-dominated cases
        ctx.close('o2-dense' if noise == 0 else 'o2-dense-noise',
            fro(got - Tstar), 0., tolF, 'order 2, rank '
            'large enough: ||dense - (first order [+ noise draws] + pair '
            'terms)||_F beyond rounding', required_rank=req)
        callD = np.asarray(A(Ival.astype(idt)), dtype=float).reshape(n) \
            if N <= 1500 and noise == 0 else None
        if callD is not None:
            ctx.close('o2-vs-call', fro(got - (callD + (T1 - M1))), 0.,
                tolF + fro(tol_call), 'order 2: ||dense - ANOVA.__call__ '
                'model||_F beyond rounding')
        # telemetry: how often the library misses the model by more than
        # the 1e-9 ||T|| a pure "two 1e-10 roundings" model would allow
        if fro(got - Tstar) > 1e-9 * fro(Tstar) + tails(Tstar) + tolpairF:
            ctx.event('o2-deviation-above-1e-9-relative')
        smp['fro_deviation_observed'] = float(fro(got - Tstar))
        smp['fro_tolerance'] = float(tolF)
        smp['fro_norm_reference'] = float(fro(Tstar))
        smp['tensor_at_origin_reference'] = float(Tstar.reshape(-1)[0])
        if additive:
            ctx.close('additive-exact', fro(got - (F + (T1 - M1))), 0.,
                tolF + fro(np.full(n, tol_add)),
                'order 2: additive function on a full grid not reproduced')
    else:
        # blind noise: T* = T0 + Nz with |Nz| <= nbound elementwise;
        # tails(T*) <= ||Nz||_F because T0 has unfolding ranks <= r
        nb = fro(nbound)
        tolF = base + (1 + math.sqrt(d - 1) + 1e-3) * nb
        ctx.close('noise-bound', fro(got - T0), 0., tolF, 'order 2: '
            'deviation from the model exceeds rounding + noise bound')
        ctx.skip('o2-dense-noise', 'int-seed' if gen is None
            else 'draw-pattern-differs')
    if np.ptp(y) > 0 and max(n) >= 2:
        ctx.nontrivial(['anova', n, m, r, order, noise, case['ifam'],
            case['vfam'], case['seedmode']])
    show(ctx, case, 'order-2, rank large enough', smp)


# ---- functional variant ----------------------------------------------------------

def chebvander_ld(x, n):
    """T_0..T_{n-1} at x (longdouble), numpy.polynomial recurrence."""
    from numpy.polynomial import chebyshev
    return chebyshev.chebvander(np.asarray(x, dtype=LD), n - 1)


def run_func(case, ctx, teneva):
    rng = np.random.default_rng(case['seed'])
    d, n, lamb, e = case['d'], case['n'], case['lamb'], case['e']
    while n ** d > 5000:
        d -= 1
    # box
    if case['box'] == 'default':
        a, b = -1., 1.
        av, bv = np.full(d, -1.), np.full(d, 1.)
        kwbox = {}
    elif case['box'] == 'scalar':
        a = float(np.round(rng.uniform(-3, 2), 2))
        b = a + float(np.round(rng.uniform(0.5, 4), 2))
        av, bv = np.full(d, a), np.full(d, b)
        kwbox = {'a': a, 'b': b}
    else:
        av = np.round(rng.uniform(-3, 2, size=d), 2)
        bv = av + np.round(rng.uniform(0.5, 4, size=d), 2)
        a, b = (av.tolist(), bv.tolist()) if rng.random() < 0.5 else \
            (av.copy(), bv.copy())
        kwbox = {'a': a, 'b': b}
    # points
    xf = case['xfam']
    if xf == 'many':
        m = int(rng.integers(n, 40 * n + 1))
    elif xf == 'few':
        m = int(rng.integers(1, n + 1))
    else:
        m = int(rng.integers(2, 12 * n + 1))
    Uu = rng.uniform(0, 1, size=(m, d))
    if xf == 'dups':
        Uu = Uu[rng.integers(0, max(1, m // 3), size=m)]
    if xf == 'boundary':
        Uu[rng.random(size=(m, d)) < 0.3] = 0.
        Uu[rng.random(size=(m, d)) < 0.3] = 1.
    X = np.clip(av + (bv - av) * Uu, av, bv)
    vf = case['vfam']
    S = (X - (av + bv) / 2) * (2 / (bv - av))
    if vf == 'normal':
        y = rng.normal(size=m)
    elif vf == 'int':
        y = rng.integers(-5, 6, size=m).astype(float)
    elif vf == 'const':
        y = np.full(m, [1., 2.5, -0.1, 1e3, 1. / 3][int(rng.integers(5))])
    elif vf == 'zero':
        y = np.zeros(m)
    elif vf == 'shifted':
        y = 10. ** int(rng.integers(1, 5)) + rng.normal(size=m)
    elif vf == 'cheb-additive':
        y = float(rng.normal()) + sum(np.polynomial.chebyshev.chebval(
            S[:, k], rng.normal(size=n)) for k in range(d))
    else:
        y = np.sin(1.3 * S.sum(axis=1) + 0.2) + 0.5 * S[:, 0] ** 2
    y = np.asarray(y, dtype=float)
    X_arg = X.copy()
    y_arg = y.tolist() if case['aslist'] else y.copy()
    if not case['aslist'] and rng.random() < 0.2:
        y32 = np.asarray(y, dtype=np.float32)
        if np.all(np.isfinite(y32)):
            y = y32.astype(float)
            y_arg = y32.copy()
            ctx.event('values-given-as-float32')

    # ---- reference quantities
    Xl = X.astype(LD)
    mid = (bv.astype(LD) + av.astype(LD)) / 2
    sc = 2 / (bv.astype(LD) - av.astype(LD))
    Sl = np.clip((Xl - mid) * sc, -1, 1)
    Kx = float(np.max(4 * (np.abs(X) + np.abs((av + bv) / 2)) / (bv - av))) + 4
    yl = y.astype(LD)
    y0 = yl.sum() / LD(m)
    D0 = U * (np.abs(yl).sum() + abs(y0))
    yc = yl - y0
    Ey = U * (np.abs(yl) + abs(y0)) + D0      # error of the centred data

    # ---- the class: coefficients
    Af = teneva.ANOVA_func(X_arg, y_arg, n, lamb=lamb, **kwbox)
    cfs = Af.coeffs
    okc = isinstance(cfs, list) and len(cfs) == d + 1 and np.ndim(cfs[0]) == 0 \
        and all(np.shape(c) == (n - 1,) for c in cfs[1:])
    if not ctx.check('func-normal-eq', okc, 'coeffs has the wrong structure'):
        return
    finite = np.isfinite(cfs[0]) and all(np.all(np.isfinite(c))
        for c in cfs[1:])
    if not ctx.check('func-normal-eq', bool(finite), 'coefficients not finite'):
        return
    c0s, taus = [], []
    Vs = []
    pp = np.arange(n, dtype=LD)
    for k in range(d):
        V = chebvander_ld(Sl[:, k], n)            # [m, n]
        Vs.append(V)
        Mx = V.T @ V + LD(lamb) * np.eye(n, dtype=LD)
        bx = V.T @ yc
        chi = np.asarray(cfs[k + 1], dtype=LD)
        c0 = (bx[0] - Mx[0, 1:] @ chi) / Mx[0, 0]
        cfull = np.concatenate([[c0], chi])
        res = Mx @ cfull - bx
        absM = np.abs(V).T @ np.abs(V) + abs(lamb) * np.eye(n, dtype=LD)
        cab = np.abs(cfull)
        tau = U * ((m + 10 * n * n) * (np.max(np.sum(absM, axis=1))
            * np.max(cab) + np.max(np.abs(V).T @ np.abs(yc)))
            + np.max(np.abs(V).T @ (Ey / U))
            + m * (n - 1) ** 2 * (Kx + 4) * (2 * np.sum(cab)
            + np.max(np.abs(yc))))
        ctx.close('func-normal-eq', res[1:], np.zeros(n - 1), 2 * C * tau,
            f'dimension {k}: ridge normal equations (A^T A + lamb I) c = '
            f'A^T (y - mean) not satisfied', lamb=lamb, m=m)
        c0s.append(c0)
        taus.append(tau)
    ctot = y0 + sum(c0s)
    tol_c = C * (D0 + sum(2 * t / (m + lamb) for t in taus)
        + (d + 1) * U * (abs(y0) + sum(abs(c) for c in c0s)))
    ctx.close('func-const', cfs[0], ctot, tol_c, 'constant coefficient vs '
        'mean + sum of the fitted constant terms')

    cmax = max(abs(float(cfs[0])), max(float(np.max(np.abs(c))) if n > 1
        else 0. for c in cfs[1:]))
    Lay = np.zeros([n] * d, dtype=LD)
    Lay[(0,) * d] = cfs[0]
    for k in range(d):
        for p in range(1, n):
            ix = [0] * d
            ix[k] = p
            Lay[tuple(ix)] = cfs[k + 1][p - 1]
    tol_lay = C * (2 * d + 2) * U * np.abs(Lay) + C * U * cmax

    # ---- cores(e=None): the layout
    Yn = Af.cores(e=None)
    # history on the object: a COARSE rounding requested in between (and its
    # result edited in place) must not degrade later, finer requests
    Yc = Af.cores(e=float(rng.choice([1e-1, 3e-1, 1e-2])))
    for G in Yc:
        G *= 1.5
    Yn2 = Af.cores(e=None)
    ctx.check('func-object-history', len(Yn) == len(Yn2) and all(
        np.array_equal(a, b, equal_nan=True) for a, b in zip(Yn, Yn2)),
        'ANOVA_func.cores(e=None) called twice on one object returned '
        'different tensors')
    why = ref.wellformed(Yn, [n] * d, finite=True)
    if ctx.check('func-wellformed', why is None,
            f'cores(e=None) malformed: {why}'):
        F = ref.dense_ld(Yn)
        ctx.close('func-layout', F, Lay, tol_lay, 'full(cores(e=None)) is not '
            'the constant at index 0 plus the 1-D expansions on the axes')
        if np.array_equal(np.asarray(F != 0), np.asarray(Lay != 0)):
            ctx.event('layout-same-support')

    # ---- the function, with rounding
    Yc = teneva.anova_func(X_arg, y_arg, n, lamb=lamb, e=e, **kwbox)
    why = ref.wellformed(Yc, [n] * d, finite=True)
    # known defect of the pinned tree (D6): rounding an exactly zero tensor
    kf = 'svd-zero-matrix-nan' if e is not None and not np.any(Lay) else None
    if not ctx.check('func-wellformed', why is None,
            f'anova_func malformed: {why}', kf=kf):
        return
    normA = fro(Lay)
    if e is None:
        rel = 0.
    else:
        R = 1 + d * (n - 1)
        eig2 = (d - 1) * C * C * min(R, n * R) * (n * R + R) * U
        rel = e * (1 + 1e-8) + math.sqrt(eig2) + C * (d * R * n) * U
    # points: the training points, fresh points, corners
    mt = min(m, 40)
    Xt = np.vstack([X[:mt], np.clip(av + (bv - av) * rng.uniform(0, 1,
        size=(30, d)), av, bv), av[None, :], bv[None, :]])
    St = np.clip((Xt.astype(LD) - mid) * sc, -1, 1)
    Vt = [chebvander_ld(St[:, k], n) for k in range(d)]
    want = LD(cfs[0]) + sum(Vt[k][:, 1:] @ np.asarray(cfs[k + 1], dtype=LD)
        for k in range(d))
    tnorm = np.ones(len(Xt), dtype=LD)
    for k in range(d):
        tnorm = tnorm * np.sqrt(np.sum(Vt[k] * Vt[k], axis=1))
    # rounding of func_get: contraction of |cores| with |T|
    B = np.ones((len(Xt), 1), dtype=LD)
    for k in range(d):
        Gk = np.abs(np.asarray(Yc[k], dtype=LD))
        W = np.einsum('rjq,tj->trq', Gk, np.abs(Vt[k]))
        B = np.einsum('tr,trq->tq', B, W)
    B = B.reshape(-1)
    pw = (np.arange(1, n, dtype=LD)) ** 2
    cabs = abs(LD(cfs[0])) + sum(np.sum(np.abs(np.asarray(cfs[k + 1],
        dtype=LD)) * (1 + pw * (Kx + 4))) for k in range(d))
    tol_pt = rel * normA * tnorm + C * (ref.nterms(Yc) + d * n) * U * B \
        + C * (2 * d + 2 + n * d) * U * cabs
    val = teneva.func_get(Xt, Yc, **({'a': a, 'b': b} if kwbox else
        {'a': -1., 'b': 1.}))
    ctx.close('func-interp', val, want, tol_pt, 'func_get(anova_func cores) '
        'vs c0 + sum_k sum_p c_kp T_p(x_k)', e=e)
    if np.ptp(y) > 0 and m >= 2:
        ctx.nontrivial(['func', d, n, m, lamb, e, case['xfam'], case['vfam'],
            case['box']])
    show(ctx, case, 'functional variant', {'case': case, 'd': d, 'n': n,
        'points': m, 'box_a': av, 'box_b': bv, 'lamb': lamb, 'e': e,
        'X_trn': X, 'y_trn': y,
        'ranks': ref.ranks_of(Yc),
        'const_observed': float(cfs[0]), 'const_reference': float(ctot),
        'coeffs_dim0': [float(c) for c in cfs[1]],
        'point': Xt[0], 'value_observed': float(np.asarray(val)[0]),
        'value_reference': float(want[0]),
        'tolerance': float(tol_pt[0])})


# ---- coverage of the anchored functions ----------------------------------------

_COV = {}


def setup_worker(ctx):
    import sys
    an = sys.modules['teneva.anova']
    af = sys.modules['teneva.anova_func']
    funcs = {'ANOVA.build_1': an.ANOVA.build_1, 'ANOVA.build_2': an.ANOVA.build_2,
        'ANOVA.cores': an.ANOVA.cores, 'ANOVA.cores_1': an.ANOVA.cores_1,
        'ANOVA.cores_2': an.ANOVA.cores_2, 'ANOVA.calc_2': an.ANOVA.calc_2,
        '_second_order_2_tt': an._second_order_2_tt,
        'ANOVA_func.coeffs': af.ANOVA_func.coeffs.fget,
        'ANOVA_func.cores': af.ANOVA_func.cores}
    try:
        cov = interpose.LineCov(funcs)
        cov.__enter__()
        _COV['cov'] = cov
    except Exception as ex:     # coverage is evidence only
        ctx.event(f'linecov-unavailable {type(ex).__name__}')


def finish_worker(ctx):
    cov = _COV.pop('cov', None)
    if cov is None:
        return
    for name, (hit, tot) in cov.report().items():
        ctx.event(f'lines {name} {hit}/{tot}')
    cov.__exit__(None, None, None)
