"""C14 - samplers draw from exactly the distribution their TT-tensor defines.

Deciding monitor (sample-dist / square-dist): a *scripted auditing generator*
(duck-typed object passed as `seed`) records every probability vector the
sampler offers to `choice` and answers with a scripted index, so that sample s
is driven down a chosen multi-index.  With m = N samples every multi-index of
the tensor is followed once; the product of the recorded conditional
probabilities along path j must equal Y[j]/sum(Y) (`sample`; with `unsert`
against the model "first-mode marginal + unsert") resp. Y[j]^2/sum(Y^2)
(`sample_square`).  The audit understands any sampler that performs exactly
M*d weighted `choice` draws in mode-major order (however batched); anything
else makes the audit *inconclusive* and a protocol-independent statistical
fallback decides: 2*10^4 real draws with a fixed seed, every cell count and
every mode marginal tested by exact binomial tails (the Pearson quantile is
only asymptotic; exact tails with a union bound give a guaranteed false-alarm
level <= 1e-9 per run).  The fallback also always runs on a fixed subset of
the tensors.

sample-unsert-null: `unsert > 0` makes an all-zero first-mode slice
reachable; whatever distribution is used below it, the vectors offered to the
generator must be distributions and real draws must return an index array.

Structural contracts (real int seeds and Generator objects, arbitrary sizes):
integer dtype / shape / bounds for all samplers, distinct rows for
sample_square(unique=True), balance of sample_lhs, bounds of sample_rand and
sample_rand_poi, block layout of sample_tt.
"""
import itertools

import numpy as np

from tvmon import gen, ref, sanit
from tvmon.ref import LD, EPS

PID = 'C14'
LEVEL = 'exploration'
RULE = ('dist cases: random TT-tensors with N <= 300 entries (d=2..5, mode '
    'sizes 1..4, ranks 1..4; families generic/rank1/overrank/deficient/mode1/'
    'int/d2/decay/scaled plus zero slices, peaked, and a non-negative tensor '
    'with mixed-sign cores); every multi-index is audited through the '
    'scripted generator (m = N) and again for a random m in 1..N (thorough: '
    'a third of the tensors with N <= 600, ranks <= 5); '
    'non-trivial = distinct (shape, ranks, family, flags) with max rank >= 2, '
    'N >= 4 and max/min positive probability >= 2.  struct cases: random '
    'shapes (d=2..6, n=1..12), m=1..300 (int and float), r=1..6, int seeds '
    'and Generator objects; non-trivial = some mode with m % n != 0')
REQUIRED = {
    'sample-dist': 40, 'square-dist': 40,
    'sample-fallback': 4, 'square-fallback': 4,
    'sample-pvec': 40, 'square-pvec': 40,
    'sample-struct': 40, 'square-struct': 40, 'square-unique': 40,
    'sample-support': 40, 'square-support': 40, 'sample-unsert-null': 10,
    'lhs-struct': 40, 'lhs-balance': 40, 'rand-struct': 40,
    'rand-poi-struct': 40, 'tt-idx': 40, 'tt-layout': 40,
    'long-support': 40, 'wide-support': 30,
}
REQUIRED_EVENTS = {'audit-multi-indices': 2000, 'square-unique-restart': 1,
    'unsert-null-rows-drawn': 1}
ASSUMPTIONS = [
    'numpy longdouble dense contraction is the reference distribution',
    'sample: componentwise running-error model, tol_j = 2*g*amp*(sum_k '
    'B_k(j_<=k) + P_j*B_total)/S with g = 10*(sum r_k r_{k+1} + sum n_k + d)'
    '*2^-52, B = marginals of the |cores| tensor, amp = 1 + unsert/M_0(j_0)',
    'sample_square: normwise backward-error model of the Householder '
    'orthogonalisation, |P^_j - P_j| <= g(2 sqrt(P_j) + (d+2) P_j) + g^2, '
    'g = 10*(sum core sizes + sum r_k r_{k+1} + d)*2^-52*prod||G_k||_F/||Y||_F'
    ' (not judged when the last factor exceeds 1e6)',
    'fallback: exact binomial tails (scipy.stats.binom) per cell and per '
    'mode marginal, level 1e-18 per one-sided test: <= 1e-9 per run for up '
    'to 5e8 tests (union bound); draws use a fixed seed',
    'paths whose prefix probability is below 1e-9 are treated as never '
    'taken when judging the validity of later probability vectors',
    'sample_square(unique=True) is only asked for m <= number of entries '
    'with probability >= 1/(2N), so that an honest failure to find m '
    'distinct rows has negligible probability',
]
SHARDS = {'quick': 12, 'thorough': 16}
BUDGET_S = {'quick': 240, 'thorough': 2400}

C = 10.                  # safety factor of the rounding models
ALPHA = 1e-18            # one-sided level of every exact binomial test
REACH = 1e-9             # prefix probability below which a path is "never taken"
NDRAW = 20000            # real draws of the statistical fallback
FAMS = ['generic', 'generic', 'rank1', 'overrank', 'deficient', 'mode1',
    'int', 'd2', 'decay', 'scaled', 'zero', 'zero', 'peaked', 'kron2',
    'unsert-null', 'zero-scaled', 'signgauge', 'signgauge', 'narrowint']


# ---- cases ------------------------------------------------------------------------

def gen_cases(seed, tier):
    quick = tier == 'quick'
    nd, ns = (640, 640) if quick else (20000, 20000)
    every = 10 if quick else 16     # always-on fallback subset
    rng = np.random.default_rng([seed, 1414])
    out = []
    for j in range(nd):
        case = {'kind': 'dist', 'seed': int(rng.integers(1 << 62)),
            'family': FAMS[j % len(FAMS)],
            # rotates through the families from block to block
            'fallback': bool((j // len(FAMS) + j) % every == 0)}
        if not quick and j % 3 == 0:
            case.update({'maxN': 600, 'rmax': 5})
        out.append(case)
    for j in range(ns):
        out.append({'kind': 'struct', 'seed': int(rng.integers(1 << 62)),
            'big': bool(j % 4 == 0)})
    for j in range(24 if quick else 600):
        out.append({'kind': 'long', 'seed': int(rng.integers(1 << 62))})
    for j in range(12 if quick else 120):
        out.append({'kind': 'wide', 'seed': int(rng.integers(1 << 62))})
    # interleave so that every shard gets both kinds and all families
    order = np.random.default_rng([seed, 77]).permutation(len(out))
    return [out[int(i)] for i in order]


def run_long(case, ctx, teneva):
    """Long thin tensors (50..70 binary / ternary modes: more than 2^53 and
    up to 2^110 multi-indices) whose support is known in closed form: the
    first index is carried through the chain and must equal the last one, so
    every multi-index with i_0 != i_last has entry exactly 0.  Several
    samples per call: a sampler that mixes up the states of different samples
    returns rows outside the support."""
    rng = np.random.default_rng(case['seed'])
    nm = int(rng.integers(2, 4))
    d = int(rng.integers(50, 71)) if nm == 2 else int(rng.integers(36, 50))
    n = [nm] * d
    Y = []
    peaked = rng.random() < 0.7     # most samples share long stretches
    for k in range(d):
        w = rng.uniform(0.5, 1.5, size=nm)
        if peaked and 0 < k < d - 1:
            w = rng.uniform(0.03, 0.08, size=nm)
            w[int(rng.integers(nm)) if rng.random() < 0.2 else nm - 1] = 1.
        if k == 0:
            G = np.zeros((1, nm, nm))
            G[0, np.arange(nm), np.arange(nm)] = w
        elif k == d - 1:
            G = np.zeros((nm, nm, 1))
            G[np.arange(nm), np.arange(nm), 0] = w
        else:
            G = np.einsum('ab,i->aib', np.eye(nm), w)
            if rng.random() < 0.1:
                G = G * rng.uniform(0.9, 1.1, size=nm)[:, None, None]
        Y.append(G)
    if rng.random() < 0.5:
        # mixed-sign gauge for the squared sampler
        for k in range(1, d):
            sg = rng.choice([-1., 1.], size=nm)
            Y[k - 1] = Y[k - 1] * sg[None, None, :]
            Y[k] = Y[k] * sg[:, None, None]
    m = int(rng.integers(50, 301))
    seed = int(rng.integers(1 << 30))
    for name, fn, kw in (('sample_square', teneva.sample_square,
            {'unique': False}), ('sample_square', teneva.sample_square,
            {'unique': True}), ('sample', teneva.sample, {})):
        mm = m if kw.get('unique') is not True else min(m, 40)
        I = call(ctx, 'long-support', fn, Y, mm, seed=seed if rng.random()
            < 0.5 else np.random.default_rng(seed), **kw)
        if I is None:
            continue
        why = index_array_ok(I, mm, n)
        if not ctx.check('long-support', why is None, f'{name}(m={mm}, '
                f'{kw}) on a tensor of shape [{nm}]*{d}: {why}'):
            continue
        bad = int(np.sum(I[:, 0] != I[:, -1]))
        ctx.check('long-support', bad == 0, lambda: f'{name}(m={mm}, {kw}) on '
            f'a tensor of shape [{nm}]*{d} (2^{d * np.log2(nm):.0f} '
            f'multi-indices): {bad} of {mm} rows have i_0 != i_last, i.e. '
            'entry exactly 0', first_bad=I[I[:, 0] != I[:, -1]][:1])
    ctx.nontrivial(['long', nm, d])


def run_wide(case, ctx, teneva):
    """A wide middle mode (1024..2048) with right rank 8..16 and more than a
    thousand samples per call (rows x mode size x rank > 2^24): T[i0, i1, i2] =
    u[i0] w[i1] v[i2] [i2 == i1 mod R], so that the last index of every drawn
    row is determined by ITS OWN middle index; a row that continues with the
    state of another sample has entry exactly 0."""
    rng = np.random.default_rng(case['seed'])
    R = int(rng.choice([8, 16]))
    N1 = 2048 if R == 8 or rng.random() < 0.3 else 1024
    n0 = int(rng.integers(2, 6))
    u = rng.uniform(0.5, 1.5, size=n0) * rng.choice([-1., 1.], size=n0)
    w = rng.uniform(0.2, 1.5, size=N1)
    v = rng.uniform(0.5, 1.5, size=R)
    G1 = np.zeros((1, N1, R))
    G1[0, np.arange(N1), np.arange(N1) % R] = w
    G2 = np.zeros((R, R, 1))
    G2[np.arange(R), np.arange(R), 0] = v
    Y = [u.reshape(1, n0, 1), G1, G2]
    n = [n0, N1, R]
    rows = (1 << 24) // (N1 * R) + int(rng.integers(60, 400))
    seed = int(rng.integers(1 << 30))
    for name, fn, mm, kw in (
            ('sample_square', teneva.sample_square, rows, {'unique': False}),
            ('sample_square', teneva.sample_square, rows // 5 + 30,
                {'unique': True}),
            ('sample', teneva.sample, rows, {})):
        Yc = [np.abs(G) for G in Y] if name == 'sample' else Y
        I = call(ctx, 'wide-support', fn, Yc, mm, seed=seed, **kw)
        if I is None:
            continue
        why = index_array_ok(I, mm, n)
        if not ctx.check('wide-support', why is None, f'{name}(m={mm}, {kw}) '
                f'on a tensor of shape {n}: {why}'):
            continue
        bad = int(np.sum(I[:, 2] != I[:, 1] % R))
        ctx.check('wide-support', bad == 0, lambda: f'{name}(m={mm}, {kw}) on '
            f'a tensor of shape {n}, rank {R}: {bad} of {mm} rows have '
            f'i_2 != i_1 mod {R}, i.e. entry exactly 0 (first at row '
            f'{int(np.argmax(I[:, 2] != I[:, 1] % R))})')
    ctx.nontrivial(['wide', N1, R])


def run_case(case, ctx):
    import teneva
    if case['kind'] == 'long':
        return run_long(case, ctx, teneva)
    if case['kind'] == 'wide':
        return run_wide(case, ctx, teneva)
    if case['kind'] == 'dist':
        run_dist(case, ctx, teneva)
    else:
        run_struct(case, ctx, teneva)


# ---- the scripted auditing generator --------------------------------------------

class AuditGen:
    """Duck-typed generator: records probability vectors, returns a script.

    Understood protocol: exactly M*d weighted draws (`choice(a, size, p=p)`
    with any batching) in mode-major order, i.e. draw number t belongs to
    sample t % M and mode t // M, with len(p) == n[mode].  Everything else
    (unweighted choice, uniform, normal, shuffle, permutation, random,
    integers) is delegated to a real inner generator and logged.
    """

    def __init__(self, paths, n, inner_seed):
        self.paths = np.asarray(paths, dtype=int)
        self.M, self.d = self.paths.shape
        self.n = [int(k) for k in n]
        self.inner = np.random.default_rng(inner_seed)
        self.t = 0
        self.bad = None
        self.vecs = []        # distinct probability vectors offered
        self.rec = []         # (sample, mode, vec id, returned index)
        self.other = {}

    def _log(self, name):
        self.other[name] = self.other.get(name, 0) + 1

    def choice(self, a, size=None, replace=True, p=None, axis=0, shuffle=True):
        if p is None:
            self._log('choice-unweighted')
            return self.inner.choice(a, size=size, replace=replace, axis=axis,
                shuffle=shuffle)
        arr = None if np.ndim(a) == 0 else np.asarray(a)
        na = int(a) if arr is None else len(arr)
        vec = np.array(p, dtype=float).reshape(-1)
        self.vecs.append(vec)
        vid = len(self.vecs) - 1
        k = 1 if size is None else int(np.prod(size))
        out = np.zeros(k, dtype=int)
        for q in range(k):
            t = self.t
            self.t += 1
            s, mode = t % self.M, t // self.M
            if mode >= self.d:
                self.bad = self.bad or 'more than M*d weighted draws'
                continue
            if na != self.n[mode] or len(vec) != self.n[mode]:
                self.bad = self.bad or (f'draw {t}: population {na} / vector '
                    f'of length {len(vec)} for a mode of size {self.n[mode]}')
                out[q] = min(int(self.paths[s, mode]), max(na - 1, 0))
                continue
            out[q] = self.paths[s, mode]
            self.rec.append((s, mode, vid, int(out[q])))
        if not replace and k > 1:
            self.bad = self.bad or 'weighted draw without replacement'
        res = out if arr is None else arr[out]
        return res[0] if size is None else res.reshape(size)

    def shuffle(self, x, axis=0):
        self._log('shuffle')
        return self.inner.shuffle(x, axis=axis)

    def permutation(self, x, axis=0):
        self._log('permutation')
        return self.inner.permutation(x, axis=axis)

    def permuted(self, x, axis=None, out=None):
        self._log('permuted')
        return self.inner.permuted(x, axis=axis, out=out)

    def random(self, size=None, *a, **k):
        self._log('random')
        return self.inner.random(size, *a, **k)

    def uniform(self, low=0., high=1., size=None):
        self._log('uniform')
        return self.inner.uniform(low, high, size)

    def normal(self, loc=0., scale=1., size=None):
        self._log('normal')
        return self.inner.normal(loc, scale, size)

    def standard_normal(self, size=None, *a, **k):
        self._log('standard_normal')
        return self.inner.standard_normal(size, *a, **k)

    def integers(self, low, high=None, size=None, *a, **k):
        self._log('integers')
        return self.inner.integers(low, high, size, *a, **k)

    def why_inconclusive(self, res):
        """None if the run followed the understood protocol."""
        if self.bad:
            return self.bad
        if self.t != self.M * self.d:
            return f'{self.t} weighted draws, expected M*d = {self.M * self.d}'
        for name in ('random', 'uniform', 'integers', 'choice-unweighted',
                'normal', 'standard_normal'):
            if self.other.get(name):
                return f'sampler also used {name}()'
        if not (isinstance(res, np.ndarray) and res.shape == self.paths.shape
                and np.array_equal(res, self.paths)):
            return 'returned rows differ from the scripted draws'
        return None

    def factors(self):
        """f[s, k] = recorded probability of the scripted index; vector ids."""
        f = np.full((self.M, self.d), np.nan)
        v = np.full((self.M, self.d), -1, dtype=int)
        for s, mode, vid, i in self.rec:
            f[s, mode] = self.vecs[vid][i]
            v[s, mode] = vid
        return f, v


# ---- reference distributions and rounding models --------------------------------

def marg(A):
    """[M_{-1}, M_0, ..., M_{d-1}]: M_k = A summed over the modes after k."""
    out = [np.asarray(A, dtype=LD)]
    for _ in range(out[0].ndim):
        out.append(out[-1].sum(axis=-1))
    return out[::-1]


def at(Mk, idx, k):
    """M_k evaluated at the prefixes idx[:, :k+1]."""
    return Mk[tuple(idx[:, :k + 1].T)]


class RefSample:
    """Reference for `sample`: P_j = (M_0+u)/(S) * Y_j/M_0 (u = unsert)."""

    def __init__(self, Y):
        self.n = ref.shape_of(Y)
        self.d = len(self.n)
        r = ref.ranks_of(Y)
        self.M = marg(ref.dense_ld(Y))
        self.B = marg(ref.absbound(Y))
        nt = sum(r[k] * r[k + 1] + self.n[k] for k in range(self.d)) + self.d
        self.g = C * nt * EPS
        self.total = self.M[0]
        # quantifier: a non-negative tensor that defines a distribution
        self.nonneg = bool(np.all(self.M[-1] >= -self.g * self.B[-1]))
        self.defined = bool(self.total > 1e3 * self.g * self.B[0]
            and self.total > 1e-250)
        self.null_first = np.asarray(self.M[1] <= 0)

    def model(self, idx, u):
        """P, tol, judged mask, pref[s, k] = P(prefix through mode k)."""
        d, M, B = self.d, self.M, self.B
        N = len(idx)
        u = LD(u)
        S = M[0] + self.n[0] * u
        M0 = np.maximum(at(M[1], idx, 0), 0)
        pos = M0 > 0
        M0s = np.where(pos, M0, 1)
        first = (M0 + u) / S
        amp = np.where(pos, 1 + u / M0s, LD(1) if u == 0 else LD(np.inf))
        pref = np.zeros((N, d), dtype=LD)
        pref[:, 0] = first
        for k in range(1, d):
            Mk = np.maximum(at(M[k + 1], idx, k), 0)
            pref[:, k] = np.where(pos, first * Mk / M0s, 0)
        P = pref[:, d - 1].copy()
        bs = sum(at(B[k + 1], idx, k) for k in range(d))
        with np.errstate(all='ignore'):
            tol = 2 * self.g * np.where(pos, amp, 1) * (bs + P * B[0]) / S
        # with u > 0 the chain below a null first-mode slice is undefined
        judged = pos | (u == 0)
        return P, tol, judged, pref


class RefSquare:
    """Reference for `sample_square`: P_j = Y_j^2 / ||Y||^2."""

    def __init__(self, Y):
        self.n = ref.shape_of(Y)
        self.d = len(self.n)
        r = ref.ranks_of(Y)
        A = ref.dense_ld(Y)
        self.M = marg(A * A)
        self.total = self.M[0]
        fro = np.sqrt(self.total)
        pf = LD(1)
        for G in Y:
            pf = pf * np.sqrt(np.sum(np.asarray(G, dtype=LD) ** 2))
        self.kappa = float(pf / fro) if fro > 0 else np.inf
        K = sum(G.size for G in Y) + sum(r[k] * r[k + 1]
            for k in range(self.d)) + self.d
        self.g = C * K * EPS * self.kappa
        self.defined = bool(fro > 1e-140 and np.isfinite(self.kappa)
            and self.kappa <= 1e6 and np.isfinite(float(pf)))

    def model(self, idx, u=0):
        d, M = self.d, self.M
        pref = np.zeros((len(idx), d), dtype=LD)
        for k in range(d):
            pref[:, k] = at(M[k + 1], idx, k) / M[0]
        P = pref[:, d - 1].copy()
        tol = self.g * (2 * np.sqrt(P) + (d + 2) * P) + self.g ** 2
        return P, tol, np.ones(len(idx), dtype=bool), pref


def path_products(f, tol):
    """Product of the recorded conditionals along each path.

    A non-finite factor (0/0 inside the sampler) is tolerated only when the
    running product is already <= the tolerance of the entry: the path is then
    numerically a null event, later conditionals are conditioned on it and are
    undefined, and the running product is an upper bound of the path
    probability.  A non-finite factor on a live path leaves NaN (= violation).
    """
    M, d = f.shape
    cum = np.ones(M, dtype=LD)
    alive = np.ones(M, dtype=bool)
    tol = np.asarray(tol, dtype=LD)
    for k in range(d):
        fk = f[:, k].astype(LD)
        alive &= ~(~np.isfinite(fk) & (cum <= tol))
        cum = np.where(alive, cum * fk, cum)
    return cum


def call(ctx, mon, fn, *a, **k):
    """Run a sampler; an exception is a violation of `mon` (None returned)."""
    try:
        return fn(*a, **k)
    except Exception as ex:
        import traceback
        ctx.viol(mon, f'{fn.__name__} raised {type(ex).__name__}: {ex}',
            traceback=traceback.format_exc()[-1500:])
        return None


def index_array_ok(I, m, n):
    """None if I is an integer array [m, d] inside the bounds, else a reason."""
    if not isinstance(I, np.ndarray):
        return f'returned {type(I).__name__}'
    if I.ndim != 2 or I.shape != (m, len(n)):
        return f'shape {I.shape} != {(m, len(n))}'
    if not np.issubdtype(I.dtype, np.integer):
        return f'dtype {I.dtype} is not an integer type'
    if I.size and (I.min() < 0 or np.any(I >= np.asarray(n)[None, :])):
        return 'index outside the tensor bounds'
    return None


# ---- audit ----------------------------------------------------------------------------

def audit(ctx, name, sampler, Yt, R, paths, u, inner_seed, kw, note):
    """One scripted run.  Returns 'ok' | 'violated' | reason (inconclusive)."""
    n, d = R.n, R.d
    g = AuditGen(paths, n, inner_seed)
    try:
        res = sampler(Yt, len(paths), seed=g, **kw)
    except Exception as ex:
        return f'sampler raised under the scripted generator: ' \
            f'{type(ex).__name__}: {ex}'
    if g.bad == 'weighted draw without replacement':
        # not a protocol deviation but a wrong law: the rows of one call are
        # independent draws; without replacement neither the joint nor the
        # marginal distribution of a row is proportional to the entries
        ctx.viol(f'{name}-audit', f'{name}: several indices are drawn from '
            f'one probability vector WITHOUT replacement ({note})', n=n,
            samples=len(paths))
        return 'violated'
    why = g.why_inconclusive(res)
    if why:
        return why
    P, tol, judged, pref = R.model(paths, u)
    f, vid = g.factors()
    got = path_products(f, tol)
    ctx.event('audit-multi-indices', int(judged.sum()))
    ok = ctx.close(f'{name}-audit', got[judged], P[judged], tol[judged],
        f'{name}: product of the recorded conditional probabilities differs '
        f'from the tensor distribution ({note})',
        n=n, ranks=ref.ranks_of(Yt), unsert=float(u))
    # every probability vector offered on a path that is actually taken must
    # be a distribution (a real generator raises on NaN / negative / sum != 1).
    # Below a null first-mode slice (reachable through unsert > 0) any
    # distribution is acceptable; the probability of such a prefix is taken
    # from the recorded chain itself.
    badvec = None
    nullvec = None
    nullreach = 0.
    seen = set()
    for s in range(len(paths)):
        for k in range(d):
            v = int(vid[s, k])
            if k == 0:
                reach = LD(1)
            elif judged[s]:
                reach = pref[s, k - 1]
            else:
                reach = pref[s, 0] * np.prod(f[s, 1:k].astype(LD))
                nullreach = max(nullreach, float(np.nan_to_num(reach)))
            if v in seen or not reach >= REACH:
                continue
            seen.add(v)
            vec = g.vecs[v]
            valid = bool(np.all(np.isfinite(vec)) and np.all(vec >= 0)
                and abs(float(np.sum(vec.astype(LD))) - 1)
                <= C * (len(vec) + 2) * EPS)
            if valid:
                continue
            info = {'path': paths[s, :k].tolist(), 'mode': k, 'vector': vec,
                'prefix_probability': float(reach)}
            if not judged[s]:
                nullvec = nullvec or info
            else:
                badvec = badvec or info
    ctx.check(f'{name}-pvec', badvec is None,
        f'{name}: an invalid probability vector is offered to the generator '
        f'on a path of probability >= {REACH} ({note})', witness=badvec)
    if name == 'sample' and u > 0 and np.any(~judged) and nullreach >= REACH:
        # unsert > 0 makes an all-zero first-mode slice reachable; the vectors
        # offered below it must still be distributions (else a real generator
        # raises "Probabilities contain NaN" and no array is returned).
        ctx.check('sample-unsert-null', nullvec is None,
            'sample(unsert>0) enters an all-zero first-mode slice with '
            f'probability {float(np.max(pref[~judged, 0])):.3g} per draw and '
            'then offers an invalid (NaN) probability vector: ValueError in a '
            'real generator', witness=nullvec, n=n, total=float(R.total),
            unsert=float(u))
    return 'ok' if ok and badvec is None else 'violated'


# ---- statistical fallback --------------------------------------------------------

def fallback(ctx, mon, I, n, idx, P, tol, note):
    """Exact binomial tests of the cell counts and of the mode marginals."""
    from scipy.stats import binom
    m = len(I)
    N = len(idx)
    flat = np.ravel_multi_index(tuple(I.T), n)
    cnt = np.bincount(flat, minlength=N)
    P = np.asarray(P, dtype=LD)
    tol = np.asarray(tol, dtype=LD)
    tests = [('cell', cnt, P, tol)]
    shape = tuple(n)
    for k in range(len(n)):
        axes = tuple(a for a in range(len(n)) if a != k)
        tests.append((f'mode{k}', np.bincount(I[:, k], minlength=n[k]),
            P.reshape(shape).sum(axis=axes), tol.reshape(shape).sum(axis=axes)))
    worst = None
    ntests = 0
    for what, c, p, t in tests:
        lo = np.clip(np.asarray(p - t, dtype=float), 0., 1.)
        hi = np.clip(np.asarray(p + t, dtype=float), 0., 1.)
        up = binom.sf(c - 1, m, hi)      # P(X >= c) under the largest p
        dn = binom.cdf(c, m, lo)         # P(X <= c) under the smallest p
        pv = np.minimum(up, dn)
        ntests += 2 * len(c)
        j = int(np.argmin(pv))
        if worst is None or pv[j] < worst[0]:
            worst = (float(pv[j]), what, j, int(c[j]), float(p[j]) * m)
    ctx.event('binomial-tests', ntests)
    # evidence: distance of the smallest tail from the rejection level
    with np.errstate(all='ignore'):
        ratio = float(np.log10(max(worst[0], 1e-300)) / np.log10(ALPHA))
    ctx.margins[mon] = max(ctx.margins.get(mon, 0.), ratio)
    return ctx.check(mon, worst[0] >= ALPHA,
        f'{note}: {m} real draws are incompatible with the tensor '
        f'distribution (exact binomial tail {worst[0]:.3g} < {ALPHA}): '
        f'{worst[1]} #{worst[2]} observed {worst[3]} expected {worst[4]:.2f}',
        n=n, tail=worst[0], which=worst[1], at=worst[2], observed=worst[3],
        expected=worst[4])


# ---- tensors -----------------------------------------------------------------------

def kron_square(Y):
    """Cores of the elementwise square (non-negative tensor, mixed signs)."""
    out = []
    for G in Y:
        r1, n, r2 = G.shape
        out.append(np.ascontiguousarray(np.einsum('aib,cid->acibd', G, G)
            .reshape(r1 * r1, n, r2 * r2)))
    return out


def zero_slices(rng, Y, first=None):
    """Set 1..2 random slices G[:, i, :] to zero (modes of size >= 2)."""
    cand = [k for k, G in enumerate(Y) if G.shape[1] >= 2]
    if first is True:
        cand = [0] if Y[0].shape[1] >= 2 else []
    done = []
    for _ in range(int(rng.integers(1, 3))):
        if not cand:
            break
        k = int(cand[int(rng.integers(len(cand)))])
        i = int(rng.integers(Y[k].shape[1]))
        if np.count_nonzero(np.any(Y[k] != 0, axis=(0, 2))) <= 1:
            continue
        Y[k][:, i, :] = 0.
        done.append([k, i])
    return done


def build(rng, family, max_entries=300, rmax=4):
    """(Y0 arbitrary sign, Ypos non-negative tensor, info)."""
    base = {'zero': 'generic', 'peaked': 'generic', 'kron2': 'generic',
        'unsert-null': 'generic', 'zero-scaled': 'generic'}.get(family, family)
    if family == 'signgauge':
        base = ['generic', 'rank1', 'd2', 'generic'][int(rng.integers(4))]
    if family == 'narrowint':
        base = 'generic'
    rmax = 3 if family == 'kron2' else rmax
    nmin = 1
    for _ in range(50):
        Y0, info = gen.make_tt(rng, base, dmin=2, dmax=5, nmin=nmin, nmax=4,
            rmax=rmax, max_entries=max_entries)
        if family in ('unsert-null', 'zero-scaled') and info['n'][0] < 2:
            continue
        if family == 'kron2' and max(info['r']) > 3:
            continue      # overrank variants: keep the squared ranks <= 9
        break
    flags = {}
    if family == 'peaked':
        # a few dominant entries: unique sampling has to restart
        for G in Y0:
            G *= (10.0 ** (-1.5 * rng.permutation(G.shape[1])))[None, :, None]
    if family in ('zero', 'zero-scaled') or (family not in ('unsert-null',
            'kron2') and rng.random() < 0.15):
        flags['zero'] = zero_slices(rng, Y0)
    if family in ('unsert-null', 'zero-scaled'):
        flags['zero'] = flags.get('zero', []) + zero_slices(rng, Y0, first=True)
        k = int(rng.integers(len(Y0)))
        Y0[k] *= 10.0 ** int(rng.integers(-9, -5))
        flags['scaled'] = k
    if family == 'kron2':
        Ypos = kron_square(Y0)
    else:
        Ypos = [np.abs(G) for G in Y0]
    if family == 'narrowint':
        # count tensors stored in a narrow integer dtype; sums over a mode
        # exceed the range of that dtype (marginals must be formed in double)
        dt, hi = [(np.int8, 61), (np.uint8, 121), (np.int16, 9001)][
            int(rng.integers(3))]
        Ypos = [rng.integers(0, hi, size=G.shape).astype(dt) for G in Ypos]
        for G in Ypos:
            if not np.any(G):
                G.flat[0] = 1
        flags['dtype'] = np.dtype(dt).name
    if family == 'signgauge':
        # the same non-negative tensor in another gauge: G_k S, S G_{k+1} with
        # a random sign matrix S at every bond (exact in floating point), and
        # some bonds cut to rank 1 so that a lone factor -1 sits on them
        d = len(Ypos)
        cut = [k for k in range(1, d) if rng.random() < 0.35]
        for k in cut:
            Ypos[k - 1] = np.ascontiguousarray(Ypos[k - 1][:, :, :1])
            Ypos[k] = np.ascontiguousarray(Ypos[k][:1, :, :])
            Y0[k - 1] = np.ascontiguousarray(Y0[k - 1][:, :, :1])
            Y0[k] = np.ascontiguousarray(Y0[k][:1, :, :])
        for k in range(1, d):
            sg = rng.choice([-1., 1.], size=Ypos[k].shape[0])
            if Ypos[k].shape[0] == 1 and rng.random() < 0.7:
                sg = np.array([-1.])
            Ypos[k - 1] = Ypos[k - 1] * sg[None, None, :]
            Ypos[k] = Ypos[k] * sg[:, None, None]
        info = dict(info, r=ref.ranks_of(Ypos))
        flags['sign-gauge'] = True
    info = dict(info, family=family, flags=flags)
    return Y0, Ypos, info


# ---- dist case ---------------------------------------------------------------------

def run_dist(case, ctx, teneva):
    rng = np.random.default_rng(case['seed'])
    Y0, Ypos, info = build(rng, case['family'], case.get('maxN', 300),
        case.get('rmax', 4))
    n = info['n']
    d = len(n)
    N = int(np.prod(n))
    idx = ref.all_indices(n)
    s_int = int(rng.integers(1 << 31))

    def seed_obj(j):
        """Alternate int seeds and Generator objects."""
        s = s_int + j
        return s if (case['seed'] + j) % 2 == 0 else np.random.default_rng(s)

    written = {'case': case, 'n': n, 'ranks': info['r'],
        'family': info['family'], 'flags': info['flags'], 'N': N}

    # ================= sample =================
    RS = RefSample(Ypos)
    if not (RS.nonneg and RS.defined):
        ctx.skip('sample-dist', 'no-distribution-defined')
    else:
        default_u = 1.E-10
        runs = [('unsert=0', {'unsert': 0.}, 0.), ('default unsert', {},
            default_u)]
        if rng.random() < 0.3:
            ue = float(10.0 ** int(rng.integers(-6, -1)))
            runs.append((f'unsert={ue}', {'unsert': ue}, ue))
        status = []
        for note, kw, u in runs:
            st = audit(ctx, 'sample', teneva.sample, Ypos, RS, idx, u,
                s_int, kw, f'm = N = {N}, {note}')
            status.append(st)
        # a second pass with a random sample count (m = 1 included)
        m2 = 1 if rng.random() < 0.25 else int(rng.integers(1, N + 1))
        paths2 = idx[rng.integers(0, N, size=m2)]
        status.append(audit(ctx, 'sample', teneva.sample, Ypos, RS, paths2, 0.,
            s_int, {'unsert': 0.}, f'm = {m2} random paths, unsert=0'))
        # history: one list object, sampled, then one of its cores edited in
        # place, then sampled again (marginals memoised per object identity
        # would be stale).  Done on a private copy so that the rest of the
        # case still sees the original tensor.
        if d >= 2 and all(s_ == 'ok' for s_ in status):
            Yh = [np.asarray(G, dtype=float).copy() for G in Ypos]
            k_ed = int(rng.integers(1, d))
            pat = 1. + 0.5 * (np.arange(Yh[k_ed].size).reshape(
                Yh[k_ed].shape) % 2)
            Ytest = [G.copy() for G in Yh]
            np.multiply(Ytest[k_ed], pat, out=Ytest[k_ed])
            RSh = RefSample(Ytest)
            if RSh.nonneg and RSh.defined:
                st0 = audit(ctx, 'sample', teneva.sample, Yh, RS, paths2, 0.,
                    s_int, {'unsert': 0.}, 'history copy, first contact')
                np.multiply(Yh[k_ed], pat, out=Yh[k_ed])
                status.append(audit(ctx, 'sample', teneva.sample, Yh, RSh,
                    paths2, 0., s_int, {'unsert': 0.}, f'after an in-place '
                    f'edit of core {k_ed} of the same list object'))
                ctx.event('sample-after-inplace-edit')
        if np.any(RS.null_first):
            # real draws with the default unsert that do enter the null slice
            # (probability 1 - exp(-30)): an index array must come back
            q = float(np.sum(RS.null_first) * default_u
                / (RS.total + n[0] * default_u))
            if q >= 2e-3:
                m = int(min(NDRAW, np.ceil(30 / q)))
                I = call(ctx, 'sample-unsert-null', teneva.sample, Ypos, m,
                    seed=seed_obj(30))
                if I is not None:
                    why = index_array_ok(I, m, n)
                    ctx.check('sample-unsert-null', why is None,
                        f'sample(m={m}, default unsert): {why}', n=n)
                    if why is None:
                        ctx.event('unsert-null-rows-drawn',
                            int(np.sum(RS.null_first[I[:, 0]])))
        incon = [s for s in status if s not in ('ok', 'violated')]
        run_fb = case['fallback'] or bool(incon)
        if incon:
            ctx.event('sample-audit-inconclusive', len(incon))
            written['sample_audit_inconclusive'] = incon[0]
        fb_ok = None
        if run_fb:
            # null first-mode slice: default unsert would leave the model
            kw, u = ({}, default_u) if not np.any(RS.null_first) else \
                ({'unsert': 0.}, 0.)
            I = call(ctx, 'sample-fallback', teneva.sample, Ypos, NDRAW,
                seed=20140 + s_int % 7, **kw)
            if I is not None:
                why = index_array_ok(I, NDRAW, n)
                if ctx.check('sample-struct', why is None,
                        f'sample(m={NDRAW}): {why}'):
                    P, tol, judged, _ = RS.model(idx, u)
                    fb_ok = fallback(ctx, 'sample-fallback', I, n, idx, P, tol,
                        f'sample, {"default unsert" if u else "unsert=0"}')
                else:
                    fb_ok = False
            else:
                fb_ok = False
        if incon:
            # the fallback decides
            ctx.check('sample-dist', bool(fb_ok), 'sample: audit inconclusive '
                f'({incon[0]}) and the statistical fallback rejects')
        else:
            ctx.check('sample-dist', all(s == 'ok' for s in status),
                'sample: the audited chain of conditionals is not the tensor '
                'distribution (see sample-audit / sample-pvec)')
            if fb_ok is False:
                ctx.check('sample-dist', False, 'sample: audit passed but '
                    'real draws reject (see sample-fallback)')

        # structural contracts with real seeds / Generator objects
        for j, m in enumerate([1, int(rng.integers(1, N + 1)),
                float(int(rng.integers(2, 3 * N + 2)))]):
            kw = {'unsert': 0.} if j != 1 else {}
            if np.any(RS.null_first):
                kw = {'unsert': 0.}
            I = call(ctx, 'sample-struct', teneva.sample, Ypos, m,
                seed=seed_obj(j), **kw)
            if I is None:
                continue
            why = index_array_ok(I, int(m), n)
            if ctx.check('sample-struct', why is None, f'sample(m={m!r}): {why}',
                    n=n) and 'unsert' in kw:
                Pr = RS.M[-1][tuple(I.T)] / RS.total
                ctx.check('sample-support', bool(np.all(Pr > 0)),
                    'sample(unsert=0) returned a multi-index whose entry is '
                    'zero', row=I[int(np.argmin(Pr))], n=n)

    # ================= sample_square =================
    RQ = RefSquare(Y0)
    if not RQ.defined:
        ctx.skip('square-dist', 'ill-conditioned-or-zero-tensor')
    else:
        status = [audit(ctx, 'square', teneva.sample_square, Y0, RQ, idx, 0.,
            s_int, {'unique': False}, f'm = N = {N}, unique=False')]
        m2 = 1 if rng.random() < 0.25 else int(rng.integers(1, N + 1))
        paths2 = idx[rng.integers(0, N, size=m2)]
        status.append(audit(ctx, 'square', teneva.sample_square, Y0, RQ,
            paths2, 0., s_int, {'unique': False},
            f'm = {m2} random paths, unique=False'))
        # a handful of samples (2 .. first mode size, often with repeated
        # first indices in the script): every row is an independent draw
        if n[0] >= 2:
            m3 = int(rng.integers(2, n[0] + 1))
            p3 = idx[rng.integers(0, N, size=m3)]
            if rng.random() < 0.6:
                p3[:, 0] = p3[0, 0]
            status.append(audit(ctx, 'square', teneva.sample_square, Y0, RQ,
                p3, 0., s_int, {'unique': False},
                f'm = {m3} <= first mode size, unique=False'))
            ctx.event('square-audit-few-samples')
        incon = [s for s in status if s not in ('ok', 'violated')]
        run_fb = case['fallback'] or bool(incon)
        if incon:
            ctx.event('square-audit-inconclusive', len(incon))
            written['square_audit_inconclusive'] = incon[0]
        P, tol, _, _ = RQ.model(idx)
        fb_ok = None
        if run_fb:
            I = call(ctx, 'square-fallback', teneva.sample_square, Y0, NDRAW,
                unique=False, seed=20141 + s_int % 7)
            if I is not None:
                why = index_array_ok(I, NDRAW, n)
                if ctx.check('square-struct', why is None,
                        f'sample_square(m={NDRAW}, unique=False): {why}'):
                    fb_ok = fallback(ctx, 'square-fallback', I, n, idx, P, tol,
                        'sample_square, unique=False')
                else:
                    fb_ok = False
            else:
                fb_ok = False
        if incon:
            ctx.check('square-dist', bool(fb_ok), 'sample_square: audit '
                f'inconclusive ({incon[0]}) and the statistical fallback '
                'rejects or the sampler raises')
        else:
            ctx.check('square-dist', all(s == 'ok' for s in status),
                'sample_square: the audited chain of conditionals is not the '
                'squared-tensor distribution (see square-audit / square-pvec)')
            if fb_ok is False:
                ctx.check('square-dist', False, 'sample_square: audit passed '
                    'but real draws reject (see square-fallback)')

        Pf = np.asarray(P, dtype=float)
        # structural contracts, unique=False
        for j, m in enumerate([1, float(int(rng.integers(2, 3 * N + 2)))]):
            I = call(ctx, 'square-struct', teneva.sample_square, Y0, m,
                unique=False, seed=seed_obj(10 + j))
            if I is None:
                continue
            why = index_array_ok(I, int(m), n)
            if ctx.check('square-struct', why is None,
                    f'sample_square(m={m!r}, unique=False): {why}', n=n):
                pr = Pf[np.ravel_multi_index(tuple(I.T), n)]
                ctx.check('square-support', bool(np.all(pr >= 1e-20)),
                    'sample_square returned a multi-index whose entry is '
                    '(numerically) zero', row=I[int(np.argmin(pr))], n=n)
        # unique=True (also the default): distinct rows.  m is limited to the
        # number of entries that are easy to find.
        easy = int(np.sum(Pf >= 0.5 / N))
        ms = sorted({1, easy, int(rng.integers(1, easy + 1))}) if easy else []
        for j, m in enumerate(ms):
            kw = {'unique': [True, np.True_, 1, np.bool_(m <= N)][int(
                rng.integers(4))]} if j % 2 == 0 else {}
            g0 = sanit.global_rng_bytes()
            with CountRestarts(ctx):
                I = call(ctx, 'square-unique', teneva.sample_square, Y0, m,
                    seed=seed_obj(20 + j), **kw)
            if sanit.global_rng_bytes() != g0:
                # telemetry only (hidden state is the subject of C10)
                ctx.event('square-unique-touched-global-rng')
            if I is None:
                continue
            why = index_array_ok(I, m, n)
            if not ctx.check('square-struct', why is None,
                    f'sample_square(m={m}, unique=True): {why}', n=n):
                continue
            nu = len(np.unique(I, axis=0))
            ctx.check('square-unique', nu == m, f'sample_square(unique=True, '
                f'm={m}) returned only {nu} distinct rows', n=n, rows=I)
            pr = Pf[np.ravel_multi_index(tuple(I.T), n)]
            ctx.check('square-support', bool(np.all(pr >= 1e-20)),
                'sample_square(unique=True) returned a multi-index whose '
                'entry is (numerically) zero', row=I[int(np.argmin(pr))], n=n)

        # m = N distinct rows of a tensor with exact zeros do not exist: a
        # ValueError is the documented outcome (few restarts requested, the
        # default would take very long); rows of probability 0 never are
        nz = int(np.sum(Pf <= 0))
        if 0 < nz and N <= 80 and RQ.defined:
            try:
                I = teneva.sample_square(Y0, N, True, seed_obj(40), 5, 2)
            except ValueError:
                ctx.held('square-support')
                ctx.event('square-unique-m=N-with-zeros-rejected')
            else:
                ok = index_array_ok(I, N, n) is None and bool(np.all(
                    Pf[np.ravel_multi_index(tuple(np.asarray(I).T), n)] > 0))
                ctx.check('square-support', ok, f'sample_square(m = N = {N}, '
                    f'unique=True) on a tensor with {nz} exact zeros returned '
                    'rows of probability 0 instead of raising ValueError')

    # ---- evidence: one written-out multi-index
    if RS.nonneg and RS.defined and RQ.defined:
        j = int(rng.integers(N))
        g = AuditGen(idx[j:j + 1], n, s_int)
        try:
            teneva.sample(Ypos, 1, seed=g, unsert=0.)
            f, _ = g.factors()
            Pm, tolm, _, _ = RS.model(idx[j:j + 1], 0.)
            written.update({'multi_index': idx[j].tolist(),
                'sample_recorded_conditionals': f[0].tolist(),
                'sample_product': float(np.prod(f[0])),
                'sample_reference_Yj_over_sum': float(Pm[0]),
                'sample_tolerance': float(tolm[0])})
        except Exception as ex:
            written['sample_written_case_failed'] = repr(ex)[:200]
        ctx.sample(written)
    P, _, _, _ = (RS.model(idx, 0.) if RS.nonneg and RS.defined
        else RQ.model(idx) if RQ.defined else (np.ones(1), 0, 0, 0))
    Pp = np.asarray(P, dtype=float)
    Pp = Pp[Pp > 0]
    if max(info['r']) >= 2 and N >= 4 and len(Pp) and Pp.max() >= 2 * Pp.min():
        ctx.nontrivial(['dist', n, info['r'], info['family'],
            sorted(info['flags'])])


class CountRestarts:
    """Counts the recursive restarts of sample_square(unique=True)."""

    def __init__(self, ctx):
        self.ctx = ctx

    def __enter__(self):
        from tvmon import interpose
        ctx = self.ctx
        depth = [0]

        def make(orig):
            def w(*a, **k):
                if depth[0] > 0:
                    ctx.event('square-unique-restart')
                depth[0] += 1
                try:
                    return orig(*a, **k)
                finally:
                    depth[0] -= 1
            return w
        self.cm = interpose.installed({'sample_square': make})
        self.cm.__enter__()
        return self

    def __exit__(self, *exc):
        return self.cm.__exit__(*exc)


# ---- struct case (shape-based samplers) ---------------------------------------

def lhs_balance(I, n, m):
    """None if every index of every mode occurs floor(m/k) or ceil(m/k) times."""
    for k, nk in enumerate(n):
        c = np.bincount(I[:, k], minlength=nk)
        lo, hi = m // nk, -(-m // nk)
        if len(c) != nk or c.min() < lo or c.max() > hi:
            return (f'mode {k} (size {nk}, m={m}): counts {c.tolist()} not all '
                f'in {{{lo}, {hi}}}')
    return None


def run_struct(case, ctx, teneva):
    rng = np.random.default_rng(case['seed'])
    big = case['big']
    d = int(rng.integers(2, 7))
    n = [int(rng.integers(1, 13 if big else 6)) for _ in range(d)]
    u = rng.random()
    m = 1 if u < 0.1 else int(rng.integers(1, 301 if big else 40))
    if u > 0.8:
        m = int(n[int(rng.integers(d))]) * int(rng.integers(1, 4))  # exact multiple
    s_int = int(rng.integers(1 << 31))

    def seed_obj(j):
        s = s_int + j
        return s if (case['seed'] + j) % 2 == 0 else np.random.default_rng(s)

    def variants(j):
        """n as list / int array / float array, m as int / float."""
        nn = [list(n), np.array(n), np.array(n, dtype=float)][j % 3]
        mm = m if j % 2 == 0 else float(m)
        return nn, mm

    # ---- sample_lhs
    for j in range(2):
        nn, mm = variants(j + case['seed'] % 3)
        I = call(ctx, 'lhs-struct', teneva.sample_lhs, nn, mm, seed=seed_obj(j))
        if I is None:
            continue
        why = index_array_ok(I, m, n)
        if ctx.check('lhs-struct', why is None,
                f'sample_lhs(n={n}, m={mm!r}): {why}'):
            why = lhs_balance(I, n, m)
            ctx.check('lhs-balance', why is None, f'sample_lhs: {why}', n=n, m=m)
    # scripted generator object (inner real generator, calls logged)
    g = AuditGen(np.zeros((1, d), dtype=int), n, s_int)
    I = call(ctx, 'lhs-struct', teneva.sample_lhs, n, m, seed=g)
    if I is not None:
        why = index_array_ok(I, m, n) or lhs_balance(I, n, m)
        ctx.check('lhs-balance', why is None,
            f'sample_lhs with a generator object: {why}', n=n, m=m)

    # ---- sample_rand
    for j in range(2):
        nn, mm = variants(j + 1 + case['seed'] % 3)
        I = call(ctx, 'rand-struct', teneva.sample_rand, nn, mm,
            seed=seed_obj(5 + j))
        if I is None:
            continue
        why = index_array_ok(I, m, n)
        ctx.check('rand-struct', why is None,
            f'sample_rand(n={n}, m={mm!r}): {why}')

    # ---- sample_rand_poi
    a = np.round(rng.uniform(-5, 5, size=d), 3)
    b = a + np.round(10.0 ** rng.uniform(-3, 1, size=d), 4)
    for j in range(2):
        aa, bb = (a.tolist(), b.tolist()) if j == 0 else (a, b)
        mm = m if j == 0 else float(m)
        X = call(ctx, 'rand-poi-struct', teneva.sample_rand_poi, aa, bb, mm,
            seed=seed_obj(8 + j))
        if X is None:
            continue
        ok = isinstance(X, np.ndarray) and X.shape == (m, d) and \
            np.issubdtype(X.dtype, np.floating) and \
            bool(np.all(X >= a[None, :]) and np.all(X <= b[None, :]))
        ctx.check('rand-poi-struct', ok, f'sample_rand_poi: array '
            f'{getattr(X, "shape", None)} {getattr(X, "dtype", None)} not '
            f'inside [a, b] with shape {(m, d)}', a=a, b=b)

    # ---- sample_tt
    dt = min(d, 5)
    nt = n[:dt]
    if int(np.prod(nt)) > 0:
        r = int(rng.integers(1, 7))
        for j in range(2):
            nn = list(nt) if j == 0 else np.array(nt)
            out = call(ctx, 'tt-idx', teneva.sample_tt, nn, r,
                seed=seed_obj(12 + j))
            if out is None:
                continue
            check_tt(ctx, out, nt, r)
    if any(m % k for k in n):
        ctx.nontrivial(['struct', n, m])
    if case['seed'] % 16 == 0:
        c0 = np.bincount(teneva.sample_lhs(n, m, seed=s_int)[:, 0],
            minlength=n[0])
        ctx.sample({'case': case, 'n': n, 'm': m,
            'lhs_counts_mode0': c0.tolist(),
            'allowed': [m // n[0], -(-m // n[0])]})


def check_tt(ctx, out, n, r):
    """Block layout of sample_tt: block i = (prefix, index, suffix) triples."""
    d = len(n)
    if not ctx.check('tt-idx', isinstance(out, tuple) and len(out) == 3,
            'sample_tt does not return a triple'):
        return
    I, idx, idx_many = out
    L1 = [1 if i == 0 else r for i in range(d)]
    L2 = [1 if i == d - 1 else r for i in range(d)]
    sizes = [n[i] * L1[i] * L2[i] for i in range(d)]
    exp_idx = np.concatenate([[0], np.cumsum(sizes)])
    ok = isinstance(idx, np.ndarray) and isinstance(idx_many, np.ndarray) \
        and idx.shape == (d + 1,) and idx_many.shape == (d,) \
        and np.array_equal(idx, exp_idx) and np.array_equal(idx_many, L2)
    if not ctx.check('tt-idx', ok, 'sample_tt: block offsets / numbers of '
            'suffix points differ from the advertised layout', n=n, r=r,
            idx=idx, idx_many=idx_many, expected_idx=exp_idx,
            expected_idx_many=L2):
        return
    why = index_array_ok(I, int(exp_idx[-1]), n)
    if not ctx.check('tt-layout', why is None, f'sample_tt(n={n}, r={r}): {why}'):
        return
    bad = None
    for i in range(d):
        blk = I[exp_idx[i]:exp_idx[i + 1]].reshape(n[i], L1[i], L2[i], d)
        # index of mode i slowest
        if not np.array_equal(blk[..., i],
                np.broadcast_to(np.arange(n[i])[:, None, None], blk.shape[:3])):
            bad = f'block {i}: the index of mode {i} is not the slowest'
            break
        pre, suf = blk[..., :i], blk[..., i + 1:]
        if not (np.array_equal(pre, np.broadcast_to(pre[:1, :, :1], pre.shape))
                and np.array_equal(suf, np.broadcast_to(suf[:1, :1, :],
                suf.shape))):
            bad = (f'block {i}: rows are not (prefix, index, suffix) triples '
                'with the suffix running fastest')
            break
        if i > 0:
            why = lhs_balance(pre[0, :, 0, :], n[:i], r)
            if why:
                bad = f'block {i}: prefixes are not a Latin hypercube set: {why}'
                break
        if i < d - 1:
            why = lhs_balance(suf[0, 0, :, :], n[i + 1:], r)
            if why:
                bad = f'block {i}: suffixes are not a Latin hypercube set: {why}'
                break
    ctx.check('tt-layout', bad is None, f'sample_tt(n={n}, r={r}): {bad}')
