"""C19 — explicit constructors build exactly the tensor they describe.

Every case calls one real constructor and compares the *dense export* of the
returned cores (own longdouble contraction, `ref.dense_ld`, never
`teneva.full`) with the closed form written in the property statement:

* const(n, v[, I_zero, i_non_zero])   v everywhere / values in {0, v}, zero at
  every listed index, v at the protected index, ValueError iff a listed zero
  index equals the protected index;
* delta(n, i, v)                      v at i (negative i_k counted from the
  end), exactly 0 elsewhere;
* vector_delta(q, i, v)               EXHAUSTIVE over i in [-2^q, 2^q) for
  q <= 10 (quick) / q <= 14 (thorough); out-of-range i -> ValueError;
  sampled positions for 33 <= q <= 64 (observed on the rank-1 cores);
* matrix_delta(q, i, j, v)            EXHAUSTIVE over (i, j) in [-2^q, 2^q)^2
  for q <= 5 (quick) / q <= 7 (thorough); position = little-endian bits of i
  and j on the interleaved export T[a_0, b_0, a_1, b_1, ...];
  teneva.full_matrix only as a secondary observer;
* poly(n, shift, power, scale)        scale * sum_k (i_k + shift_k)^power with
  an exact rational reference (fractions);
* rand / rand_norm / rand_custom / rand_stab under an AUDITING generator that
  records every draw (method, arguments, returned values).

Rounding models (all tolerances are a-priori bounds, none is tuned):

  const / delta.  The cores hold y = fl(|v|^fl(1/d)), the value is y^d.  With
  u = 2^-53: fl(1/d) has relative error <= u, which moves |v|^(1/d) by the
  factor |v|^(u/d), i.e. y^d by <= |ln|v|| u; pow itself <= 4u (libm / numpy
  are below 1 ulp, 4u is the allowance), taken d times; d-1 products <= d u.
  Worst case (5 d + |ln|v||) u = (2.5 d + 0.5 |ln|v||) 2^-52.  The monitor
  allows 4 (d + |ln|v||) 2^-52 |v|  — the "4 d 2^-52" of the design, extended
  by the |ln|v|| term which the design forgot and which matters for v = 1e20
  (ln = 46).  For |v| <= 1e-16 the code takes a special branch (cores of ones,
  last core times v); the statement still says "equals v everywhere", so the
  same closed form and tolerance are used (that branch is exact).

  poly.  g = fl(fl(m + s)^p): the addition has relative error u, raised to
  the power p -> p u, pow <= 4u, times scale u; the contraction of the
  rank-2 cores adds (3d-1) u relative to the absolute-value contraction,
  which is |scale| sum_k |m_k + s_k|^p =: AB.  Bound (3d + p + 5) u AB; the
  monitor allows 10 (3d + p + 5) 2^-52 AB (safety factor 20).

  rand_stab.  value = e_1^T prod_k (J_k + E_k) e_1 with J_k = eye(r_k,
  r_{k+1}) (||J_k||_inf <= 1, e_1^T prod J_k e_1 = 1) and E_k the recorded
  normal(0, noise) draws plus the rounding (<= u) of "1 + draw" on the
  diagonal.  With Z = max|draw| / noise and eps = r Z noise + u:
  |value - 1| <= (1 + eps)^d - 1 <= d eps (1 + d eps) for d eps <= 1.
  The cases are generated with 9 d r noise <= 0.1, so for Z <= 9 the bound is
  <= 9.9 d r noise + 1.1 d u <= 10 d r noise + 2 d 2^-52, which is what the
  monitor allows (Z > 9 has probability < 1e-18 per draw and is not-judged).
"""
import math
from fractions import Fraction

import numpy as np

from tvmon import gen, ref
from tvmon.ref import LD, EPS

PID = 'C19'
LEVEL = 'exploration'
RULE = ('const / delta / poly on random shapes (d = 2..12, mode sizes 1..6, '
    'd = 2, deep binary shapes) with v cycling through {positive, negative, '
    '0, ints, 1e-30, 1e-17, 1e-16, 1.5e-16, 1e-15, 1e-10, 1e20} and zero '
    'lists built to agree with the protected index in most modes (drives '
    'the round-robin search) incl. conflicting requests; vector_delta and '
    'matrix_delta EXHAUSTIVELY over all positions incl. negative ones for '
    '2 <= q <= 10 resp. 5 (quick; q = 6 for two values) / q <= 14 resp. 7 '
    '(thorough), every v in {1, -2.5, 0, 1e-30, 1e20, 3, -1, 1e-17, default}, '
    'plus out-of-range positions and sampled positions for 33 <= q <= 64 '
    '(observed on the rank-1 cores); random constructors '
    'under an auditing generator, scalar and per-bond (also over-large) '
    'ranks; rand_stab also in d = 1000..4000.  Non-trivial = distinct '
    '(constructor, shape or q, parameter class) where the expected tensor '
    'is not constant zero and, for the random constructors, max rank >= 2')
REQUIRED = {
    'wellformed': {'quick': 500, 'thorough': 5000},
    'const': 100, 'const-values': 100, 'const-zero': 100,
    'const-protected': 50, 'const-conflict': 80,
    'delta': 100,
    'vector_delta': {'quick': 400, 'thorough': 8000},
    'vector_delta-range': 50,
    'matrix_delta': {'quick': 5000, 'thorough': 20000},
    'matrix_delta-range': 50, 'matrix_delta-full_matrix': 500,
    'vector_delta-bigq': 20, 'matrix_delta-bigq': 20,
    'poly': 100,
    'rand-audit': 50, 'rand-layout': 50, 'rand-range': 50, 'rand-profile': 150,
    'rand_norm-audit': 50, 'rand_norm-layout': 50,
    'rand_custom-layout': 50, 'rand_custom-call': 50,
    'rand_stab-audit': 40, 'rand_stab-cores': 40, 'rand_stab-ones': 40,
    'rand_stab-bigd': 5,
}
REQUIRED_EVENTS = {'const-tiny-branch': 20, 'const-root-branch': 50,
    'const-roundrobin-skips': 50, 'delta-negative-index': 30,
    'vdelta-negative-position': 30, 'rand-per-bond-ranks': 30,
    'rand-scalar-rank': 30, 'rand-overlarge-rank': 5,
    'poly-nearly-equal-shifts': 20}
ASSUMPTIONS = [
    'dense export = own longdouble chain contraction of the returned cores '
    '(ref.dense_ld); teneva.full / full_matrix are not used by any primary '
    'monitor',
    'const/delta: |T - v| <= 4 (d + |ln|v||) 2^-52 |v|; "zero" means exactly '
    '0.0; poly: 10 (3d + p + 5) 2^-52 |scale| sum|i_k + s_k|^p against an '
    'exact rational reference',
    'random constructors: the auditing generator wraps a real numpy '
    'Generator; cores must be the Fortran-order cut of the concatenated '
    'recorded draws (exact equality), all draws of the requested method and '
    'arguments, none wasted',
    'q >= 54 delta positions are observed on the rank-1 cores (one non-zero '
    'per core <=> one non-zero element; position from the bits), because a '
    'dense export of length 2^q does not exist',
    'q = 1 (a one-core tensor) is outside the quantifier (d >= 2) and is not '
    'run',
]
SHARDS = {'quick': 12, 'thorough': 16}
BUDGET_S = {'quick': 300, 'thorough': 3000}   # per-shard wall; idle-machine need: ~15 s / ~270 s

VALUES = [1., -1., 2.5, -3.75, 42., 0., 0, 1, -2, 7, 1e-30, -1e-30, 1e-17,
    -1e-17, 1e-16, 1.5e-16, 1e-15, -1e-10, 1e20, -1e20, 1e-5, -7e3,
    0.3333333333333333, 1e150]
DELTA_VALUES = [1., -2.5, 0., 1e-30, 1e20, 3, -1, 1e-17]
SCALES = [1., -2.5, 5., 0.5, 1e3, -1e-3, 1., 2., 0.]


# ---- case generation --------------------------------------------------------------

def gen_cases(seed, tier):
    """Random kinds come in batches (one descriptor = `count` sub-cases with
    sub-seeds [seed, t]); the exhaustive delta sweeps are cut into chunks."""
    quick = tier == 'quick'
    rng = np.random.default_rng([seed, 1919])
    out = []

    def sub():
        return int(rng.integers(1 << 62))

    B = 50 if quick else 250
    mult = 1 if quick else 5          # thorough: 5 x 5 = 25 x the sub-cases
    for kind, nb in [('const', 1600), ('delta', 900), ('poly', 1000),
            ('rand', 500), ('rand_norm', 400), ('rand_custom', 400),
            ('rand_stab', 500), ('vdelta_big', 40), ('mdelta_big', 40)]:
        for b in range(nb * mult):
            out.append({'kind': kind, 'seed': sub(), 'tier': tier,
                'j0': b * B, 'count': B})
    for b in range(300 if quick else 2400):
        out.append({'kind': 'rand_stab_big', 'seed': sub(), 'tier': tier,
            'j0': b, 'count': 1})

    # exhaustive delta positions: every v for every position
    qv = 10 if quick else 14
    qm = 5 if quick else 7
    allv = DELTA_VALUES + ['default']
    for q in range(2, qv + 1):
        N = 1 << q
        chunk = 64 if q <= 11 else 16
        for v in allv:
            for lo in range(-N, N, chunk):
                out.append({'kind': 'vdelta', 'seed': sub(), 'q': q, 'v': v,
                    'lo': lo, 'hi': min(N, lo + chunk)})
    for q in range(2, qm + 2):
        N = 1 << q
        # one level above the fully swept ones: two values of v only (quick)
        vs = allv if q <= qm else ([-2.5, 'default'] if quick else [])
        for v in vs:
            for i in range(-N, N):
                if q <= 6:
                    out.append({'kind': 'mdelta', 'seed': sub(), 'q': q,
                        'i': i, 'v': v, 'jlo': -N, 'jhi': N})
                else:
                    for jlo in range(-N, N, 64):
                        out.append({'kind': 'mdelta', 'seed': sub(), 'q': q,
                            'i': i, 'v': v, 'jlo': jlo, 'jhi': jlo + 64})

    order = np.random.default_rng([seed, 77]).permutation(len(out))
    return [out[int(k)] for k in order]


MODES = ['plain', 'zeros', 'protected', 'protected', 'conflict', 'plain']
FAMS = ['generic', 'generic', 'deep', 'd2', 'generic', 'mode1']
SHIFT_KINDS = ['float', 'int', 'list', 'ndarray', 'intlist']


def want_sample(ctx):
    return len(ctx.samples) < 3


def judge_single(ctx, mon, T, idx, val, tol, msg):
    """T must be `val` (+- tol) at idx and exactly zero elsewhere."""
    flat = T.reshape(-1)
    fp = int(np.ravel_multi_index(idx, T.shape))
    nz = np.flatnonzero(flat)               # NaN counts as non-zero
    extra = nz[nz != fp]
    if extra.size:
        where = [int(x) for x in np.unravel_index(int(extra[0]), T.shape)]
        ctx.viol(mon, f'{msg}: found {float(flat[extra[0]])!r} at {where}')
        return False
    return ctx.close(mon, flat[fp], LD(val), tol, msg)


def make_shape(rng, fam, tier, cap=4000):
    big = 0 if tier == 'quick' else 1
    if fam == 'deep':
        d = int(rng.integers(6, 13))
        n = [2] * d
        for k in range(d):
            if rng.random() < 0.15:
                n[k] = 1
        return n
    if fam == 'd2':
        return [int(rng.integers(1, 12 + 20 * big)),
            int(rng.integers(1, 12 + 20 * big))]
    while True:
        n = gen.rand_shape(rng, 2, 5 + big, 1, 5 + big)
        if fam == 'mode1':
            n[int(rng.integers(len(n)))] = 1
        if int(np.prod(n)) <= cap:
            return n


def as_arg(x, how):
    """list / ndarray / list of ndarrays presentations of an index table."""
    if how == 'ndarray':
        return np.array(x, dtype=int).reshape(np.shape(x)) if len(x) else \
            np.zeros((0,), dtype=int)
    return [list(map(int, r)) if isinstance(r, (list, tuple, np.ndarray))
        else int(r) for r in x]


def tol_root(v, d):
    av = abs(float(v))
    if av == 0:
        return 0.
    return 4. * (d + abs(math.log(av))) * EPS * av


def check_wf(ctx, Y, n, what, finite=True):
    why = ref.wellformed(Y, n, finite=finite)
    return ctx.check('wellformed', why is None,
        f'{what} returned a malformed tensor: {why}')


# ---- const ------------------------------------------------------------------------

def run_const(case, ctx, tv, rng):
    j = case['j']
    n = make_shape(rng, FAMS[int(rng.integers(len(FAMS)))], case['tier'])
    d = len(n)
    v = VALUES[j % len(VALUES)]          # every value is used equally often
    mode = MODES[int(rng.integers(len(MODES)))]
    vv = np.float64(v) if isinstance(v, float) and rng.random() < 0.25 else v
    how = 'ndarray' if rng.random() < 0.4 else 'list'
    n_arg = np.array(n) if rng.random() < 0.4 else list(n)
    ctx.event('const-tiny-branch' if abs(v) <= 1e-16 else 'const-root-branch')
    tol = tol_root(v, d)
    I_zero = i_nz = None
    desc = f'const(n={n}, v={v!r}'
    if mode == 'plain':
        u = rng.random()
        if u < 0.15 and v == 1.:
            Y = tv.const(n_arg)
        elif u < 0.3:
            i_nz = [int(rng.integers(k)) for k in n]
            Y = tv.const(n_arg, vv, None, as_arg(i_nz, how))
            desc += f', I_zero=None, i_non_zero={i_nz}'
        else:
            Y = tv.const(n_arg, vv)
    else:
        if mode != 'zeros':
            i_nz = [int(rng.integers(k)) for k in n]
        m = int(rng.integers(0, 3 * d + 1))
        I_zero = []
        free = [k for k in range(d) if n[k] >= 2]
        nskip = 0
        for _ in range(m):
            if i_nz is not None and free and rng.random() < 0.6:
                # agrees with the protected index except in t modes
                iz = list(i_nz)
                t = 1 if rng.random() < 0.5 else int(rng.integers(1,
                    len(free) + 1))
                for k in rng.choice(free, size=t, replace=False):
                    iz[k] = int((iz[k] + rng.integers(1, n[k])) % n[k])
            else:
                iz = [int(rng.integers(k)) for k in n]
            if i_nz is not None and iz == i_nz:
                continue
            if i_nz is not None:
                nskip += sum(a == b for a, b in zip(iz, i_nz))
            I_zero.append(iz)
        conflict = mode == 'conflict'
        if conflict:
            I_zero.insert(int(rng.integers(len(I_zero) + 1)), list(i_nz))
        if nskip:
            ctx.event('const-roundrobin-skips', nskip)
        I_arg = as_arg(I_zero, how)
        if how == 'ndarray':
            I_arg = np.array(I_zero, dtype=int).reshape(len(I_zero), d)
        elif len(I_zero) and rng.random() < 0.2:
            # the index table as a one-shot iterable (zip(*np.nonzero(mask)),
            # a generator): what the unmodified routine iterates over once
            I_arg = [iter(I_arg), (tuple(r_) for r_ in I_zero),
                zip(*[list(c_) for c_ in zip(*I_zero)])][int(rng.integers(3))]
            ctx.event('const-zero-list-one-shot-iterable')
        inz_arg = None if i_nz is None else as_arg(i_nz, how)
        desc += f', I_zero={I_zero}, i_non_zero={i_nz}'
        try:
            Y = tv.const(n_arg, vv, I_arg, inz_arg)
        except ValueError as ex:
            ctx.check('const-conflict', conflict, f'{desc}) raised ValueError('
                f'{ex}) although no zero index equals the protected index')
            if conflict:
                ctx.nontrivial(['const-conflict', n, len(I_zero)])
            return
        if i_nz is not None:
            if not ctx.check('const-conflict', not conflict, f'{desc}) did not '
                    'raise ValueError although a zero index equals the '
                    'protected index'):
                return
    desc += ')'
    if not check_wf(ctx, Y, n, desc):
        return
    ctx.check('const-ranks', ref.ranks_of(Y) == [1] * (d + 1),
        f'{desc}: ranks {ref.ranks_of(Y)} (documented: all 1)')
    T = ref.dense_ld(Y)
    vl = LD(v)
    isv = np.abs(T - vl) <= tol
    isz = T == 0
    if I_zero is None:
        ctx.close('const', T, np.full(T.shape, vl), tol,
            f'{desc}: tensor differs from v')
    else:
        bad = ~(isv | isz)
        ctx.check('const-values', not bad.any(), lambda: f'{desc}: an entry is '
            f'neither 0 nor v: {float(T[bad].reshape(-1)[0])!r} at '
            f'{[int(x[0]) for x in np.nonzero(bad)]}')
        wrong = [iz for iz in I_zero if T[tuple(iz)] != 0]
        ctx.check('const-zero', not wrong, f'{desc}: non-zero at the listed '
            f'zero index {wrong[:1]}')
    if i_nz is not None:
        ti = tuple(i_nz)
        ctx.close('const-protected', T[ti], vl, tol,
            f'{desc}: value at the protected index')
    if v != 0 and (I_zero is None or (isz.any() and isv.any())):
        ctx.nontrivial(['const', n, mode, repr(v), 0 if I_zero is None
            else len(I_zero)])
    if want_sample(ctx):
        ctx.sample({'call': desc, 'expected': f'{v!r} (tol {tol:.3g})'
            + ('' if I_zero is None else ' or 0'),
            'observed_min': float(T.min()), 'observed_max': float(T.max()),
            'n_zero_entries': int(isz.sum()), 'n_entries': int(T.size)})


# ---- delta ------------------------------------------------------------------------

def run_delta(case, ctx, tv, rng):
    j = case['j']
    n = make_shape(rng, FAMS[int(rng.integers(len(FAMS)))], case['tier'])
    d = len(n)
    v = VALUES[j % len(VALUES)]
    i = [int(rng.integers(-k, k)) if rng.random() < 0.5 else
        int(rng.integers(k)) for k in n]
    pos = tuple(x % k for x, k in zip(i, n))
    if any(x < 0 for x in i):
        ctx.event('delta-negative-index')
    how = 'ndarray' if rng.random() < 0.4 else 'list'
    n_arg = np.array(n) if rng.random() < 0.4 else list(n)
    vv = np.float64(v) if isinstance(v, float) and rng.random() < 0.25 else v
    desc = f'delta(n={n}, i={i}, v={v!r})'
    if v == 1. and rng.random() < 0.3:
        Y = tv.delta(n_arg, as_arg(i, how))
    else:
        Y = tv.delta(n_arg, as_arg(i, how), vv)
    if not check_wf(ctx, Y, n, desc):
        return
    T = ref.dense_ld(Y)
    judge_single(ctx, 'delta', T, pos, v, tol_root(v, d), f'{desc}: expected '
        f'v at {list(pos)} and exactly 0 elsewhere')
    if v != 0 and T.size >= 2:
        ctx.nontrivial(['delta', n, repr(v), any(x < 0 for x in i)])
    if want_sample(ctx):
        ctx.sample({'call': desc, 'position_from_start': list(pos),
            'observed_there': float(T[pos]), 'nonzero_entries':
            int(np.count_nonzero(T))})


# ---- QTT deltas -------------------------------------------------------------------

def bits_le(p, q):
    return [(p >> k) & 1 for k in range(q)]


def run_vdelta(case, ctx, tv, rng):
    q, v = case['q'], case['v']
    N = 1 << q
    first = True
    val = 1. if v == 'default' else v
    for i in range(case['lo'], case['hi']):
        desc = f'vector_delta(q={q}, i={i}, v={v!r})'
        try:
            Y = tv.vector_delta(q, i) if v == 'default' else \
                tv.vector_delta(q, i, v)
        except ValueError as ex:
            ctx.viol('vector_delta', f'{desc} raised ValueError({ex}) for a '
                'position inside [-2^q, 2^q)')
            continue
        if not check_wf(ctx, Y, [2] * q, desc):
            continue
        p = i % N                      # negative positions count from the end
        if i < 0:
            ctx.event('vdelta-negative-position')
        T = ref.dense_ld(Y)
        idx = tuple(bits_le(p, q))
        judge_single(ctx, 'vector_delta', T, idx, val,
            4 * q * EPS * abs(float(val)), f'{desc}: expected v at position '
            f'{p} (little-endian bits {list(idx)}) and exactly 0 elsewhere')
        if first and want_sample(ctx):
            first = False
            # the flat vector in the QTT convention (first core = lowest bit)
            vec = np.asarray(T, dtype=float).reshape(-1, order='F')
            ctx.sample({'call': desc, 'position_from_start': p,
                'observed_nonzero_positions': np.flatnonzero(vec).tolist(),
                'observed_value': float(vec[p])})
    if val != 0:
        ctx.nontrivial(['vdelta', q, repr(v), case['lo']])
    # out-of-range positions must be rejected with ValueError
    if case['lo'] == -N or case['hi'] == N:
        for i in [N, N + 1, -N - 1, -N - 7, 2 * N, 3 * N + 1, -2 * N, 2 * N - 1]:
            try:
                Y = tv.vector_delta(q, i, 1. if v == 'default' else v)
            except ValueError:
                ctx.held('vector_delta-range')
                continue
            ctx.viol('vector_delta-range', f'vector_delta(q={q}, i={i}) '
                f'returned a tensor for a position outside [-2^q, 2^q)')


def dense4(Y):
    """Interleaved export T[a_0, b_0, a_1, b_1, ...] of 4-D cores."""
    q = len(Y)
    Z = [np.asarray(G).reshape(G.shape[0], 4, G.shape[3]) for G in Y]
    return ref.dense_ld(Z).reshape([2, 2] * q)


def wf4(Y, q):
    if not isinstance(Y, list) or len(Y) != q:
        return f'not a list of {q} cores'
    for k, G in enumerate(Y):
        if not isinstance(G, np.ndarray) or G.shape != (1, 2, 2, 1):
            return f'core {k} is not a (1, 2, 2, 1) array'
        if not np.issubdtype(G.dtype, np.floating) or \
                not np.all(np.isfinite(G)):
            return f'core {k} is not a finite float array'
    return None


def run_mdelta(case, ctx, tv, rng):
    q, i, v = case['q'], case['i'], case['v']
    N = 1 << q
    val = 1. if v == 'default' else v
    pi = i % N
    sampled = False
    for j in range(case['jlo'], case['jhi']):
        desc = f'matrix_delta(q={q}, i={i}, j={j}, v={v!r})'
        try:
            Y = tv.matrix_delta(q, i, j) if v == 'default' else \
                tv.matrix_delta(q, i, j, v)
        except ValueError as ex:
            ctx.viol('matrix_delta', f'{desc} raised ValueError({ex}) for a '
                'position inside [-2^q, 2^q)^2')
            continue
        why = wf4(Y, q)
        if not ctx.check('wellformed', why is None, f'{desc}: {why}'):
            continue
        pj = j % N
        T = dense4(Y)
        idx = []
        for a, b in zip(bits_le(pi, q), bits_le(pj, q)):
            idx += [a, b]
        idx = tuple(idx)
        ok = judge_single(ctx, 'matrix_delta', T, idx, val,
            4 * q * EPS * abs(float(val)), f'{desc}: expected v at '
            f'bits(i)={bits_le(pi, q)}, bits(j)={bits_le(pj, q)} of the '
            'interleaved export and exactly 0 elsewhere')
        # secondary observer: teneva.full_matrix (code under test of C17)
        if (j + i) % 3 == 0 or not ok:
            M = np.asarray(tv.full_matrix(Y))
            good = M.shape == (N, N)
            if good:
                Rm = np.zeros((N, N))
                Rm[pi, pj] = val
                good = bool(np.all(np.abs(M - Rm) <= 4 * q * EPS * np.abs(Rm)))
            ctx.check('matrix_delta-full_matrix', good, f'{desc}: '
                f'full_matrix(Y) is not v at [{pi}, {pj}] and 0 elsewhere')
        if not sampled and want_sample(ctx) and j == case['jlo'] + (
                case['seed'] % (case['jhi'] - case['jlo'])):
            sampled = True
            ctx.sample({'call': desc, 'position_from_start': [pi, pj],
                'observed_nonzero_interleaved_bits':
                    np.argwhere(np.asarray(T, dtype=float) != 0).tolist(),
                'observed_value': float(T[idx])})
    if val != 0:
        ctx.nontrivial(['mdelta', q, i, repr(v), case['jlo']])
    if i in (-N, N - 1, 0, -1) and case['jlo'] == -N:
        for bi, bj in [(N, 0), (0, N), (-N - 1, 1), (1, -N - 1), (2 * N, 2 * N),
                (N + 1, -1), (-1, N), (-2 * N, 0), (i, N), (N, i), (i, -N - 1)]:
            try:
                tv.matrix_delta(q, bi, bj, val)
            except ValueError:
                ctx.held('matrix_delta-range')
                continue
            ctx.viol('matrix_delta-range', f'matrix_delta(q={q}, i={bi}, '
                f'j={bj}) returned a tensor for a position outside the matrix')


def big_positions(rng, q):
    N = 1 << q
    cands = [-1, -N, N - 1, 0, 1, N >> 1, (N >> 1) + 1, -2, -(N >> 1) - 1,
        (1 << 53) + 3, (1 << 53) - 1, N - 3, -3, -(1 << 53) - 5]
    r = int(rng.integers(0, 1 << 62)) | (int(rng.integers(0, 1 << 62)) << 10)
    cands += [r % N, -(r % N) - 1, (r * 2654435761) % N]
    return [c for c in cands if -N <= c < N]


def rank1_nonzeros(Y):
    """Per core: flat positions of the non-zero entries and their product."""
    where, prod = [], LD(1)
    for G in Y:
        nz = np.flatnonzero(np.asarray(G).reshape(-1))
        where.append([int(x) for x in nz])
        if len(nz) == 1:
            prod = prod * LD(np.asarray(G).reshape(-1)[nz[0]])
    return where, prod


def run_delta_big(case, ctx, tv, rng, matrix):
    q = int(rng.choice([33, 40, 47, 52, 53, 54, 55, 57, 60, 62, 63, 64]))
    N = 1 << q
    mon = 'matrix_delta-bigq' if matrix else 'vector_delta-bigq'
    name = 'matrix_delta' if matrix else 'vector_delta'
    pos = big_positions(rng, q)
    i = int(pos[int(rng.integers(len(pos)))])
    j = int(pos[int(rng.integers(len(pos)))])
    v = [1., -2.5, 3, 1e20][int(rng.integers(4))]
    args = (q, i, j, v) if matrix else (q, i, v)
    desc = f'{name}{args}'
    if rng.random() < 0.15:
        # out of range must still be rejected
        bad = [N, -N - 1, N + (1 << 53), -N - 2][int(rng.integers(4))]
        args = (q, bad, j, v) if matrix else (q, bad, v)
        try:
            getattr(tv, name)(*args)
        except ValueError:
            ctx.held(mon)
            return
        ctx.viol(mon, f'{name}{args} accepted a position outside the range')
        return
    try:
        Y = getattr(tv, name)(*args)
    except ValueError as ex:
        ctx.viol(mon, f'{desc} raised ValueError({ex}) for a position inside '
            '[-2^q, 2^q)')
        return
    why = wf4(Y, q) if matrix else ref.wellformed(Y, [2] * q)
    if not ctx.check('wellformed', why is None, f'{desc}: {why}'):
        return
    where, prod = rank1_nonzeros(Y)
    one = all(len(w) == 1 for w in where)
    if not ctx.check(mon, one, f'{desc}: a core does not hold exactly one '
            'non-zero entry, so the tensor does not have exactly one non-zero '
            'element', where=where):
        return
    if matrix:
        gi = sum((w[0] >> 1) << k for k, w in enumerate(where))
        gj = sum((w[0] & 1) << k for k, w in enumerate(where))
        got, exp = [gi, gj], [i % N, j % N]
    else:
        got, exp = sum(w[0] << k for k, w in enumerate(where)), i % N
    ok = ctx.check(mon, got == exp, f'{desc}: the non-zero element is at '
        f'position {got}, expected {exp}')
    ctx.close(mon, prod, LD(v), 4 * q * EPS * abs(float(v)),
        f'{desc}: value of the non-zero element')
    if ok:
        ctx.nontrivial([name, 'bigq', q, i < 0])
    if want_sample(ctx):
        ctx.sample({'call': desc, 'expected_position': exp,
            'observed_position': got, 'observed_value': float(prod)})


# ---- poly -------------------------------------------------------------------------

def ld_of(fr):
    """Fraction -> longdouble (two-term split, error ~2^-64 relative)."""
    hi = float(fr)
    lo = float(fr - Fraction(hi))
    return LD(hi) + LD(lo)


def run_poly(case, ctx, tv, rng):
    j = case['j']
    n = make_shape(rng, FAMS[int(rng.integers(len(FAMS)))], case['tier'])
    d = len(n)
    power = j % 5                        # 0..4, equally often
    scale = SCALES[int(rng.integers(len(SCALES)))]
    kind = SHIFT_KINDS[int(rng.integers(len(SHIFT_KINDS)))]

    def one(integer):
        if integer:
            s = int(rng.integers(-3, 13))
            if rng.random() < 0.2:
                # large integer shifts: (index + shift)^power beyond 2^63 must
                # not be evaluated in wrapping integer arithmetic
                s = int(rng.integers(10 ** 4, 10 ** 6))
        else:
            s = float(np.round(rng.uniform(-4, 12), int(rng.integers(0, 4))))
            if rng.random() < 0.3:
                s = float(rng.normal() * 3)
        # power 0 with a zero base (index + shift == 0): x^0 is the constant
        # polynomial 1 - also what IEEE-754 pow, Python and NumPy return for
        # 0^0 and what the exact rational reference below computes
        return s

    if kind == 'float':
        shift = float(one(False))
    elif kind == 'int':
        shift = int(one(True))
    elif kind == 'intlist':
        shift = [int(one(True)) for _ in range(d)]
    else:
        shift = [float(one(False)) for _ in range(d)]
    if np.ndim(shift) == 1 and kind != 'intlist' and rng.random() < 0.25:
        # per-mode shifts that differ only slightly (1e-9 absolute around 0,
        # a few 1e-6 relative around a large value): still d different shifts
        base = [0., 0., 1000., float(np.round(rng.uniform(-4, 12), 1))][
            int(rng.integers(4))]
        dl = 1e-9 if base == 0. else abs(base) * float(rng.choice([4e-6,
            1e-7, 1e-9]))
        shift = [float(base + dl * t * float(rng.integers(1, 4)))
            for t in range(d)]
        ctx.event('poly-nearly-equal-shifts')
    sh = [shift] * d if np.ndim(shift) == 0 else list(shift)
    arg = np.array(shift) if kind == 'ndarray' else shift
    n_arg = np.array(n) if rng.random() < 0.4 else list(n)
    desc = f'poly(n={n}, shift={shift}, power={power}, scale={scale})'
    if power == 2 and scale == 1. and rng.random() < 0.5:
        Y = tv.poly(n_arg, arg)
    else:
        Y = tv.poly(n_arg, arg, power, scale)
    if not check_wf(ctx, Y, n, desc):
        return
    # exact univariate terms, then the outer sum in longdouble
    S = np.zeros([1] * d, dtype=LD)
    A = np.zeros([1] * d, dtype=LD)
    for k in range(d):
        u = [(Fraction(m) + Fraction(sh[k])) ** power for m in range(n[k])]
        shp = [1] * d
        shp[k] = n[k]
        S = S + np.array([ld_of(x) for x in u], dtype=LD).reshape(shp)
        A = A + np.array([ld_of(abs(x)) for x in u], dtype=LD).reshape(shp)
    R = LD(scale) * S
    AB = abs(LD(scale)) * A
    T = ref.dense_ld(Y)
    ctx.close('poly', T, R, 10. * (3 * d + power + 5) * EPS * AB,
        f'{desc}: tensor differs from scale * sum_k (i_k + shift_k)^power')
    if power >= 1 and scale != 0 and T.size >= 2:
        ctx.nontrivial(['poly', n, power, kind, scale])
    i = tuple(int(rng.integers(k)) for k in n)
    if want_sample(ctx):
        ctx.sample({'call': desc, 'index': list(i), 'observed': float(T[i]),
            'expected': float(R[i])})


# ---- random constructors ------------------------------------------------------------

class AuditGen:
    """Duck-typed numpy Generator: every draw is made by a real Generator and
    recorded as (method, args, kwargs, copy of the returned values)."""

    def __init__(self, seed):
        self._g = np.random.default_rng(seed)
        self.calls = []

    def __getattr__(self, name):
        if name.startswith('_'):
            raise AttributeError(name)
        real = getattr(self._g, name)
        if not callable(real):
            return real

        def wrapper(*args, **kw):
            out = real(*args, **kw)
            self.calls.append({'method': name, 'args': args, 'kw': kw,
                'out': np.array(out, dtype=float, copy=True)})
            return out
        return wrapper


SIG = {'uniform': (('low', 0.), ('high', 1.), ('size', None)),
    'normal': (('loc', 0.), ('scale', 1.), ('size', None))}


def bound(call):
    """Bind the recorded arguments to the numpy signature of the method."""
    sig = SIG.get(call['method'])
    if sig is None:
        return None
    b = {k: dflt for k, dflt in sig}
    for (k, _), a in zip(sig, call['args']):
        b[k] = a
    for k, a in call['kw'].items():
        if k not in b:
            return None
        b[k] = a
    return b


def rank_request(rng, d, n, tier):
    """(argument passed as r, expected profile)."""
    rmax = 5 if tier == 'quick' else 7
    u = rng.random()
    if u < 0.4:
        r = int(rng.integers(1, rmax + 1))
        return r, [1] + [r] * (d - 1) + [1], 'scalar'
    prof = gen.rand_ranks(rng, d, rmax)
    if u < 0.7:
        return list(prof), prof, 'list'
    if u < 0.85:
        return np.array(prof), prof, 'ndarray'
    # per-bond ranks stored in a narrow integer dtype, large enough that the
    # product of two neighbours (times a mode size) leaves that dtype
    dt = [np.int8, np.uint8, np.int16, np.uint16][int(rng.integers(4))]
    big = {np.int8: 12, np.uint8: 16, np.int16: 40, np.uint16: 40}[dt]
    if d >= 3 and rng.random() < 0.7:
        prof = [1] + [int(rng.integers(big - 3, big + 1))
            for _ in range(d - 1)] + [1]
    return np.array(prof, dtype=dt), prof, 'ndarray-' + np.dtype(dt).name


def shape_for_rand(rng, tier):
    d = int(rng.integers(2, 7 if tier == 'quick' else 9))
    return [int(rng.integers(1, 6)) for _ in range(d)]


def check_profile(ctx, Y, n, prof, desc):
    if not check_wf(ctx, Y, n, desc):
        return False
    return ctx.check('rand-profile', ref.ranks_of(Y) == list(prof),
        f'{desc}: ranks {ref.ranks_of(Y)}, requested {list(prof)}')


def fortran_cut(flat, n, prof):
    out, off = [], 0
    for k in range(len(n)):
        sz = prof[k] * n[k] * prof[k + 1]
        out.append(np.asarray(flat[off:off + sz], dtype=float).reshape(
            (prof[k], n[k], prof[k + 1]), order='F'))
        off += sz
    return out


def events_ranks(ctx, n, prof, rkind):
    ctx.event('rand-scalar-rank' if rkind == 'scalar' else
        'rand-per-bond-ranks')
    if any(prof[k + 1] > prof[k] * n[k] for k in range(len(n) - 1)):
        ctx.event('rand-overlarge-rank')


def run_rand(case, ctx, tv, rng, normal):
    n = shape_for_rand(rng, case['tier'])
    d = len(n)
    r, prof, rkind = rank_request(rng, d, n, case['tier'])
    events_ranks(ctx, n, prof, rkind)
    n_arg = np.array(n) if rng.random() < 0.4 else list(n)
    N = sum(prof[k] * n[k] * prof[k + 1] for k in range(d))
    name = 'rand_norm' if normal else 'rand'
    method = 'normal' if normal else 'uniform'
    if normal:
        p1, p2 = [(0., 1.), (2.5, 0.5), (-3., 2.), (1., 1e-3), (100., 7.)][
            int(rng.integers(5))]
        names = ('m', 's')
    else:
        p1, p2 = [(-1., 1.), (0., 1.), (-3.5, 2.25), (2., 2.), (5., 9.),
            (-1e-3, 1e3)][int(rng.integers(6))]
        names = ('a', 'b')
    default = (p1, p2) == ((0., 1.) if normal else (-1., 1.)) and \
        rng.random() < 0.5
    kw = {} if default else {names[0]: p1, names[1]: p2}
    seedmode = ['audit', 'audit', 'audit', 'int', 'generator', 'none'][
        int(rng.integers(6))]
    s = int(rng.integers(1 << 31))
    g = AuditGen(s) if seedmode == 'audit' else s if seedmode == 'int' else \
        np.random.default_rng(s) if seedmode == 'generator' else None
    desc = (f'{name}(n={n}, r={r!r}, {names[0]}={p1}, {names[1]}={p2}, '
        f'seed=<{seedmode} {s}>)')
    Y = getattr(tv, name)(n_arg, r, seed=g, **kw)
    if not check_profile(ctx, Y, n, prof, desc):
        return
    if not normal:
        lo = min(float(G.min()) for G in Y)
        hi = max(float(G.max()) for G in Y)
        ctx.check('rand-range', p1 <= lo and hi <= p2, f'{desc}: core entries '
            f'span [{lo}, {hi}], requested [{p1}, {p2}]')
    if seedmode in ('int', 'generator', 'none') and (p1 != p2 or normal):
        # the entries are independent draws: two cores (or two halves of one
        # core) are never identical, whatever the seed was
        flat_ = [np.asarray(G).reshape(-1) for G in Y if G.size >= 4]
        rep = any(a_.size == b_.size and np.array_equal(a_, b_)
            for i_, a_ in enumerate(flat_) for b_ in flat_[i_ + 1:])
        pre = any(np.array_equal(a_[:min(a_.size, b_.size)],
            b_[:min(a_.size, b_.size)]) for i_, a_ in enumerate(flat_)
            for b_ in flat_[i_ + 1:])
        ctx.check('rand-independent-cores', not rep and not pre, f'{desc}: two '
            'cores hold the same sequence of values (every core drawn from a '
            're-started stream?)')
    if seedmode != 'audit':
        return
    calls = g.calls
    bs = [bound(c) for c in calls]
    good = len(calls) >= 1 and all(c['method'] == method and b is not None
        and float(b[SIG[method][0][0]]) == p1
        and float(b[SIG[method][1][0]]) == p2 for c, b in zip(calls, bs))
    drawn = sum(c['out'].size for c in calls)
    ctx.check(f'{name}-audit', good and drawn == N, f'{desc}: expected draws '
        f'{method}({p1}, {p2}) of {N} values in total; recorded '
        f'{[(c["method"], c["args"], c["kw"]) for c in calls][:4]} '
        f'({drawn} values)')
    if not calls or drawn != N:
        return
    flat = np.concatenate([c['out'].reshape(-1) for c in calls])
    cut = fortran_cut(flat, n, prof)
    same = all(np.array_equal(G, H) for G, H in zip(Y, cut))
    ctx.check(f'{name}-layout', same, f'{desc}: cores are not the Fortran-'
        'order cut of the recorded flat draw')
    if max(prof) >= 2:
        ctx.nontrivial([name, n, prof, rkind, p1, p2])
    if want_sample(ctx):
        ctx.sample({'call': desc, 'recorded_draws': [[c['method'],
            [float(x) for x in c['args']], {k: int(np.prod(v)) for k, v in
            c['kw'].items()}] for c in calls], 'ranks': ref.ranks_of(Y),
            'first_core_entry': float(Y[0].reshape(-1)[0]),
            'first_recorded_value': float(flat[0])})


def run_rand_custom(case, ctx, tv, rng):
    n = shape_for_rand(rng, case['tier'])
    d = len(n)
    r, prof, rkind = rank_request(rng, d, n, case['tier'])
    events_ranks(ctx, n, prof, rkind)
    n_arg = np.array(n) if rng.random() < 0.4 else list(n)
    N = sum(prof[k] * n[k] * prof[k + 1] for k in range(d))
    fk = ['normal', 'arange', 'list', 'exp', 'default'][int(rng.integers(5))]
    sub = np.random.default_rng(int(rng.integers(1 << 31)))
    rec = []

    def f(size):
        if fk == 'normal':
            out = sub.normal(size=size)
        elif fk == 'arange':
            out = np.arange(size)              # integer dtype
        elif fk == 'list':
            out = [float(x) for x in sub.uniform(-2, 2, size=size)]
        else:
            out = sub.exponential(3., size=size)
        rec.append((size, np.array(out, dtype=float, copy=True)))
        return out

    desc = f'rand_custom(n={n}, r={r!r}, f=<{fk}>)'
    if fk == 'default':
        Y = tv.rand_custom(n_arg, r)          # np.random.randn, global state
        check_profile(ctx, Y, n, prof, desc)
        return
    Y = tv.rand_custom(n_arg, r, f)
    if not check_profile(ctx, Y, n, prof, desc):
        return
    tot = sum(o.size for _, o in rec)
    asked = all(int(np.prod(sz)) == o.size for sz, o in rec)
    ctx.check('rand_custom-call', len(rec) >= 1 and asked and tot == N,
        f'{desc}: f asked for {[int(np.prod(sz)) for sz, _ in rec]} values, '
        f'the tensor has {N} parameters')
    if tot != N:
        return
    flat = np.concatenate([o.reshape(-1) for _, o in rec])
    cut = fortran_cut(flat, n, prof)
    ctx.check('rand_custom-layout', all(np.array_equal(G, H)
        for G, H in zip(Y, cut)), f'{desc}: cores are not the Fortran-order '
        'cut of the values returned by f')
    if max(prof) >= 2:
        ctx.nontrivial(['rand_custom', n, prof, rkind, fk])
    if want_sample(ctx):
        ctx.sample({'call': desc, 'f_called_with': [int(np.prod(sz))
            for sz, _ in rec], 'parameters': N, 'ranks': ref.ranks_of(Y)})


def eye_pattern(prof, n, k):
    J = np.zeros((prof[k], n[k], prof[k + 1]))
    for p in range(n[k]):
        J[:, p, :] = np.eye(prof[k], prof[k + 1])
    return J


def stab_noise(rng, d, rmax):
    ok = [x for x in [0., 1e-15, 1e-15, 1e-12, 1e-9, 1e-6, 1e-4, 1e-3]
        if 9. * d * rmax * x <= 0.1]
    return ok[int(rng.integers(len(ok)))]


def run_rand_stab(case, ctx, tv, rng, big):
    tier = case['tier']
    if big:
        d = 1000 if tier == 'quick' else int(rng.choice([1000, 2000, 4000]))
        n = [int(rng.integers(1, 4)) for _ in range(d)]
        if rng.random() < 0.5:
            n = [int(rng.integers(2, 5))] * d
        rmax = 4
    else:
        while True:
            n = gen.rand_shape(rng, 2, 6, 1, 5)
            if int(np.prod(n)) <= 3000:
                break
        d = len(n)
        rmax = 5
    u = rng.random()
    if u < 0.5:
        r = int(rng.integers(1, rmax + 1))
        prof, rkind = [1] + [r] * (d - 1) + [1], 'scalar'
    else:
        prof = gen.rand_ranks(rng, d, rmax)
        r, rkind = (list(prof), 'list') if u < 0.8 else (np.array(prof),
            'ndarray')
    events_ranks(ctx, n, prof, rkind)
    rr = max(prof)
    noise = stab_noise(rng, d, rr)
    default = noise == 1e-15 and rng.random() < 0.5
    seedmode = 'audit' if big or rng.random() < 0.7 else \
        ['int', 'generator', 'none'][int(rng.integers(3))]
    s = int(rng.integers(1 << 31))
    g = AuditGen(s) if seedmode == 'audit' else s if seedmode == 'int' else \
        np.random.default_rng(s) if seedmode == 'generator' else None
    n_arg = np.array(n) if rng.random() < 0.4 else list(n)
    nd = n if d <= 8 else f'[{n[0]}, {n[1]}, ... d={d}]'
    rd = r if d <= 8 or rkind == 'scalar' else f'per-bond, max {rr}'
    desc = f'rand_stab(n={nd}, r={rd!r}, noise={noise}, seed=<{seedmode} {s}>)'
    kw = {} if default else {'noise': noise}
    Y = tv.rand_stab(n_arg, r, seed=g, **kw)
    if not check_profile(ctx, Y, n, prof, desc):
        return
    J = [eye_pattern(prof, n, k) for k in range(d)]
    if seedmode == 'audit':
        calls = g.calls
        bs = [bound(c) for c in calls]
        good = len(calls) == d and all(c['method'] == 'normal'
            and b is not None and float(b['loc']) == 0.
            and float(b['scale']) == noise
            and tuple(int(x) for x in np.atleast_1d(b['size'])) ==
            (prof[k], n[k], prof[k + 1])
            for k, (c, b) in enumerate(zip(calls, bs)))
        ctx.check('rand_stab-audit', good, f'{desc}: expected one draw '
            f'normal(0, {noise}, size=core shape) per core; recorded '
            f'{[(c["method"], c["args"], c["kw"]) for c in calls][:3]} '
            f'({len(calls)} calls)')
        if good:
            same = all(np.array_equal(Y[k], calls[k]['out'] + J[k])
                for k in range(d))
            ctx.check('rand_stab-cores', same, f'{desc}: cores are not the '
                'eye pattern plus the recorded draws')
    # size of the perturbation actually present in the cores
    zmax = max(float(np.max(np.abs(Y[k] - J[k]))) for k in range(d))
    mon = 'rand_stab-bigd' if big else 'rand_stab-ones'
    if noise > 0 and zmax > 9. * noise + EPS:
        if seedmode == 'audit' and max(float(np.max(np.abs(c['out'])))
                for c in g.calls) > 9. * noise:
            ctx.skip(mon, 'draw-beyond-9-sigma')
        else:
            ctx.viol(mon, f'{desc}: cores deviate from the eye pattern by '
                f'{zmax}, more than 9 noise')
        return
    tol = 10. * d * rr * noise + 2. * d * EPS
    if big:
        K = 24
        I = np.stack([rng.integers(0, k, size=K) for k in n], axis=1)
        vals = []
        for i in I:
            w = np.asarray(Y[0][:, i[0], :], dtype=LD)
            for k in range(1, d):
                w = w @ np.asarray(Y[k][:, i[k], :], dtype=LD)
            vals.append(w[0, 0])
        vals = np.array(vals, dtype=LD)
        ctx.close(mon, vals, np.ones(K, dtype=LD), tol, f'{desc}: entries at '
            f'{K} random multi-indices are not 1 +- 10 d r noise')
        obs = vals
    else:
        T = ref.dense_ld(Y)
        ctx.close(mon, T, np.ones(T.shape, dtype=LD), tol,
            f'{desc}: tensor is not all-ones +- 10 d r noise')
        obs = T
    if rr >= 2 and noise > 0:
        ctx.nontrivial(['rand_stab', d if big else n, prof if not big
            else rr, rkind, noise])
    if want_sample(ctx):
        ctx.sample({'call': desc, 'max_abs_entry_minus_1':
            float(np.max(np.abs(obs - 1))), 'allowed': tol,
            'max_core_perturbation': zmax})


# ---- dispatch ---------------------------------------------------------------------

BATCHED = {
    'const': run_const, 'delta': run_delta, 'poly': run_poly,
    'rand': lambda c, x, tv, r: run_rand(c, x, tv, r, False),
    'rand_norm': lambda c, x, tv, r: run_rand(c, x, tv, r, True),
    'rand_custom': run_rand_custom,
    'rand_stab': lambda c, x, tv, r: run_rand_stab(c, x, tv, r, False),
    'rand_stab_big': lambda c, x, tv, r: run_rand_stab(c, x, tv, r, True),
    'vdelta_big': lambda c, x, tv, r: run_delta_big(c, x, tv, r, False),
    'mdelta_big': lambda c, x, tv, r: run_delta_big(c, x, tv, r, True),
}


def run_case(case, ctx):
    import teneva as tv
    kind = case['kind']
    if kind in BATCHED:
        fn = BATCHED[kind]
        for t in range(case['count']):
            sub = dict(case)
            sub['j'] = case['j0'] + t
            fn(sub, ctx, tv, np.random.default_rng([case['seed'], t]))
    elif kind == 'vdelta':
        run_vdelta(case, ctx, tv, np.random.default_rng(case['seed']))
    elif kind == 'mdelta':
        run_mdelta(case, ctx, tv, np.random.default_rng(case['seed']))
    else:
        raise ValueError(kind)
