"""C04 — orthogonalize preserves the tensor, orthonormal cores around the pivot.

Postcondition monitors interposed on orthogonalize, orthogonalize_left and
orthogonalize_right: every call (direct, and nested inside truncate etc.) is
judged; the workload enumerates EVERY pivot of every generated tensor.
"""
import inspect

import numpy as np

from tvmon import core, gen, ref, sanit
from tvmon import docsig
from tvmon.ref import EPS, LD
from tvmon.interpose import installed

PID = 'C04'
LEVEL = 'exploration'
RULE = ('generated TT families incl. rank-deficient cores (duplicated / zero '
    'columns), over-ranked cores, mode size 1, a zero core, scales 1e+-100 on '
    'one core, d up to 60 (probe inner products instead of dense export); '
    'ALL pivots 0..d-1 x use_stab in {F,T}; single-step variants for all '
    'positions x inplace in {F,T}; out-of-range pivots; non-trivial = '
    'distinct (shape, ranks, pivot, stab) where a rank was cut or d >= 3')
REQUIRED = {'orth-structure': 500, 'orth-orthonormal': 500, 'orth-tensor': 500,
    'orth-pivot-norm': 300, 'orth-ranks': 500, 'orth-noalias': 500,
    'orth-stab': 200, 'orth-reject': 100, 'step-orthonormal': 200,
    'step-tensor': 200, 'step-inplace': 100, 'step-not-inplace': 100,
    'orth-nested': 20, 'gauge-tensor': 300, 'gauge-orthonormal': 100}
REQUIRED_EVENTS = {'norm-outside-double-range': 20}
ASSUMPTIONS = ['tensor-preservation tolerance 50 d eps prod_k ||G_k||_F '
    '(norm-wise backward error of the QR/RQ chain)',
    'orthonormality tolerance 20 (r n) eps on Gram matrices',
    '"moderate magnitude": every |entry| <= 2^10, pivot max >= 2^-10 unless '
    'the tensor norm is below 1e-90 (core_stab does not rescale below 1e-100)']
COVER = ['transformation.orthogonalize', 'transformation.orthogonalize_left', 'transformation.orthogonalize_right', 'core.core_stab']
SHARDS = {'quick': 12, 'thorough': 16}


def gen_cases(seed, tier):
    rng = np.random.default_rng([seed, 104])
    q = tier == 'quick'
    fams = gen.FAMILIES + ['zero-core', 'huge', 'tiny', 'long', 'spread-huge',
        'spread-tiny', 'gauge', 'extreme-bond', 'sparse-small', 'mixed-dtype']
    out = []
    for j in range(600 if q else 15000):
        out.append({'seed': int(rng.integers(1 << 62)),
            'family': fams[j % len(fams)]})
    return out


# ---- reference helpers ----------------------------------------------------------

def norm_prod(Y):
    p = LD(1)
    for G in Y:
        p = p * LD(np.sqrt(np.sum(np.asarray(G, dtype=LD) ** 2)))
    return p


def ld_value(m, e):
    return np.ldexp(LD(m), int(e))


def compare_tensors(ctx, mon, Y, Z, p, rng, what):
    """dense(Z) 2^p == dense(Y), by dense export or by rank-1 probes."""
    n = ref.shape_of(Y)
    d = len(n)
    P = norm_prod(Y)
    scale = np.ldexp(LD(1), int(p))
    if int(np.prod([float(x) for x in n])) <= 4000:
        A = ref.dense_ld(Y)
        B = ref.dense_ld(Z) * scale
        diff = np.sqrt(np.sum((A - B) ** 2))
        tol = 50 * d * EPS * P
        ctx.check(mon, bool(diff <= tol),
            lambda: f'{what}: ||dense(Z) 2^p - dense(Y)||_F = {float(diff):.4e} '
            f'> {float(tol):.4e}', shape=n, ranks=ref.ranks_of(Y), p=p)
        return np.sqrt(np.sum(A * A))          # longdouble: may be outside double range
    # probes
    nrm = None
    for t in range(4):
        X = [rng.normal(size=(1, k, 1)) for k in n]
        m1, e1 = ref.scaled_scalar_product(Y, X)
        m2, e2 = ref.scaled_scalar_product(Z, X)
        v1, v2 = ld_value(m1, e1), ld_value(m2, e2 + p)
        px = norm_prod(X)
        tol = 50 * d * EPS * P * px
        ctx.check(mon, bool(abs(v1 - v2) <= tol),
            lambda: f'{what}: <Z 2^p, x> = {float(v2):.6e} != <Y, x> = '
            f'{float(v1):.6e} for a random rank-1 probe', d=d, p=p)
    m, e = ref.scaled_scalar_product(Y, Y)
    return np.sqrt(ld_value(m, e))


def gram_dev_left(G):
    r1, n, r2 = G.shape
    M = np.asarray(G, dtype=float).reshape(r1 * n, r2, order='F')
    return float(np.abs(M.T @ M - np.eye(r2)).max()), 20 * max(r1 * n, r2) * EPS


def gram_dev_right(G):
    r1, n, r2 = G.shape
    M = np.asarray(G, dtype=float).reshape(r1, n * r2, order='F')
    return float(np.abs(M @ M.T - np.eye(r1)).max()), 20 * max(n * r2, r1) * EPS


def judge_orth(ctx, Y, k, use_stab, res, rng, nested=False):
    n = ref.shape_of(Y)
    d = len(n)
    if use_stab:
        ok = isinstance(res, tuple) and len(res) == 2
        if not ctx.check('orth-structure', ok,
                'orthogonalize(use_stab=True) must return (Z, p)'):
            return
        Z, p = res
        if not ctx.check('orth-stab', isinstance(p, (int, np.integer))
                and not isinstance(p, bool), f'p = {p!r} is not an integer'):
            return
        p = int(p)
    else:
        Z, p = res, 0
    why = ref.wellformed(Z, n)
    if not ctx.check('orth-structure', why is None,
            f'orthogonalize returned a malformed tensor: {why}'):
        return
    if nested:
        ctx.held('orth-nested')
    rin, rout = ref.ranks_of(Y), ref.ranks_of(Z)
    ok = all(b <= a for a, b in zip(rin, rout))
    for j in range(k):
        ok = ok and rout[j + 1] <= rout[j] * n[j]
    for j in range(d - 1, k, -1):
        ok = ok and rout[j] <= n[j] * rout[j + 1]
    ctx.check('orth-ranks', ok, f'ranks {rin} -> {rout} (pivot {k}): a rank '
        'increased or exceeds what its core can carry', shape=n)
    bad = []
    for j in range(k):
        dev, tol = gram_dev_left(Z[j])
        if not dev <= tol:
            bad.append((j, 'left', dev))
    for j in range(k + 1, d):
        dev, tol = gram_dev_right(Z[j])
        if not dev <= tol:
            bad.append((j, 'right', dev))
    ctx.check('orth-orthonormal', not bad, f'pivot {k}: cores not orthonormal: '
        f'{bad[:4]}', shape=n, ranks=rout, use_stab=use_stab)
    nrm = compare_tensors(ctx, 'orth-tensor', Y, Z, p, rng,
        f'orthogonalize(k={k}, use_stab={use_stab})')
    P = norm_prod(Y)
    pn = LD(np.sqrt(np.sum(np.asarray(Z[k], dtype=LD) ** 2))) * \
        np.ldexp(LD(1), p)
    ctx.check('orth-pivot-norm', bool(abs(pn - LD(nrm)) <= 50 * d * EPS * P
        + 1e-9 * LD(nrm)), f'pivot core norm {float(pn):.6e} != ||Y|| = '
        f'{float(np.log2(nrm)) if nrm > 0 else 0:.3f} (log2) (pivot {k})', shape=n,
        pivot_log2=float(np.log2(pn)) if pn > 0 else None)
    al = sanit.aliases(Z, Y)
    ctx.check('orth-noalias', not al, f'result shares memory with the '
        f'argument: {al[:3]}')
    if use_stab:
        mx = max(float(np.max(np.abs(G))) for G in Z)
        okm = mx <= 2.0 ** 10
        pm = float(np.max(np.abs(Z[k])))
        # (a tensor that cancels to rounding level of its cores - norm below
        #  1e4 d eps prod||G_k|| - may legitimately come out as exactly zero)
        if nrm >= 1e-90 and nrm > 1e4 * d * EPS * P:
            okm = okm and pm >= 2.0 ** -10
        # known finding (mechanism, see KNOWN_FINDINGS.txt): a core of the
        # argument lies wholly at or below core_stab's threshold 1e-100, the
        # running product is then handed on unscaled
        below = any(0 < float(np.max(np.abs(G))) <= 1e-100 for G in Y)
        ctx.check('orth-stab', okm, f'entries not of moderate magnitude: '
            f'max |entry| = {mx:.3e}, pivot max = {pm:.3e}, p = {p}',
            kf='stab-thr-no-rescale' if below else None,
            shape=n, log2_norm=float(np.log2(nrm)) if nrm > 0 else None)
    if d >= 3 or any(b < a for a, b in zip(rin, rout)):
        ctx.nontrivial([n, rin, k, bool(use_stab)])


_depth = {'n': 0}
_rng = np.random.default_rng(12345)


def make_orth(orig):
    sig = docsig.sig('orthogonalize')

    def orthogonalize(*args, **kw):
        ba = sig.bind(*args, **kw)
        ba.apply_defaults()
        a = ba.arguments
        Y0 = [np.array(G, copy=True) for G in a['Y']]
        _depth['n'] += 1
        try:
            res = orig(*args, **kw)
        finally:
            _depth['n'] -= 1
        ctx = core.CUR
        if ctx is not None and _depth['n'] == 0:
            k = len(Y0) - 1 if a['k'] is None else a['k']
            judge_orth(ctx, Y0, int(k), bool(a['use_stab']), res, _rng,
                nested=_state['nested'])
            res = _handed_out(res)
        return res
    return orthogonalize


def _handed_out(res):
    """The caller gets a deep copy; the arrays the library returned are then
    edited in place (as a caller may do with its result).  A correct library
    never sees them again; one that keeps a reference (a cached identity, a
    shared buffer) is corrupted for LATER calls, which are judged as usual."""
    Z = res[0] if isinstance(res, tuple) else res
    if not isinstance(Z, list):
        return res
    out = [np.array(G, copy=True) for G in Z]
    for G in Z:
        if isinstance(G, np.ndarray) and G.flags.writeable and G.size:
            np.multiply(G, 1.75, out=G)
            G.flat[0] += 1.
    return (out, res[1]) if isinstance(res, tuple) else out


_state = {'nested': False}


def judge_step(ctx, left, Y0, Yarg, i, inplace, Z, rng):
    n = ref.shape_of(Y0)
    d = len(n)
    name = 'orthogonalize_left' if left else 'orthogonalize_right'
    why = ref.wellformed(Z, n)
    if not ctx.check('step-tensor', why is None, f'{name} malformed: {why}'):
        return
    dev, tol = gram_dev_left(Z[i]) if left else gram_dev_right(Z[i])
    ctx.check('step-orthonormal', dev <= tol, f'{name}(i={i}): core {i} not '
        f'orthonormal (deviation {dev:.3e})', shape=n, ranks=ref.ranks_of(Y0))
    compare_tensors(ctx, 'step-tensor', Y0, Z, 0, rng, f'{name}(i={i})')
    rin, rout = ref.ranks_of(Y0), ref.ranks_of(Z)
    j = i + 1 if left else i
    cut = rout[j] <= (rout[i] * n[i] if left else n[i] * rout[i + 1])
    ctx.check('step-orthonormal', all(b <= a for a, b in zip(rin, rout))
        and cut, f'{name}(i={i}): ranks {rin} -> {rout}')
    touched = {i, i + 1} if left else {i, i - 1}
    if inplace:
        ok = Z is Yarg
        changed = [q for q in range(d) if q not in touched
            and not (Yarg[q].shape == Y0[q].shape
            and np.array_equal(Yarg[q], Y0[q], equal_nan=True))]
        ctx.check('step-inplace', ok and not changed, f'{name}(i={i}, '
            f'inplace=True): returned object is argument: {ok}; cores changed '
            f'outside {sorted(touched)}: {changed}')
    else:
        same = all(g.shape == h.shape and np.array_equal(g, h, equal_nan=True)
            for g, h in zip(Yarg, Y0)) and len(Yarg) == len(Y0)
        al = sanit.aliases(Z, Yarg)
        ctx.check('step-not-inplace', same and Z is not Yarg and not al,
            f'{name}(i={i}, inplace=False): argument modified: {not same}; '
            f'aliases: {al[:2]}')


def make_step(left):
    def make(orig):
        sig = docsig.sig('orthogonalize_left' if left else
            'orthogonalize_right')

        def step(*args, **kw):
            ba = sig.bind(*args, **kw)
            ba.apply_defaults()
            a = ba.arguments
            Yarg = a['Y']
            Y0 = [np.array(G, copy=True) for G in Yarg]
            Z = orig(*args, **kw)
            ctx = core.CUR
            if ctx is not None and _depth['n'] == 0:
                judge_step(ctx, left, Y0, Yarg, a['i'], bool(a['inplace']), Z,
                    _rng)
                if not a['inplace'] and Z is not Yarg:
                    Z = _handed_out(Z)
            return Z
        return step
    return make


def setup_worker(ctx):
    installed({'orthogonalize': make_orth,
        'orthogonalize_left': make_step(True),
        'orthogonalize_right': make_step(False)}).__enter__()


# ---- workload --------------------------------------------------------------------

def make_input(rng, fam):
    if fam == 'long':
        d = int(rng.integers(8, 61))
        n = [int(rng.integers(1, 4)) for _ in range(d)]
        r = gen.rand_ranks(rng, d, 3)
        Y = gen.cores(rng, n, r, 'normal')
        return Y, {'family': fam, 'n': n, 'r': r}
    if fam.startswith('spread'):
        # every core of ordinary size, but the norm of the tensor far outside
        # the double range (only the stabilised variant is claimed to work)
        d = int(rng.integers(8, 15))
        n = [int(rng.integers(1, 4)) for _ in range(d)]
        r = gen.rand_ranks(rng, d, 3)
        Y = gen.cores(rng, n, r, 'normal')
        sgn = 1 if fam == 'spread-huge' else -1
        for G in Y:
            G *= 2.0 ** (sgn * int(rng.integers(90, 131)))
        return Y, {'family': fam, 'n': n, 'r': r}
    if fam == 'mixed-dtype':
        # one float32 core (ordinary values) between float64 cores whose
        # scales (1e+-60) are outside the float32 range and cancel
        d = int(rng.integers(3, 7))
        n = [int(rng.integers(2, 5)) for _ in range(d)]
        r = gen.rand_ranks(rng, d, 3)
        Y = gen.cores(rng, n, r, 'normal')
        j = int(rng.integers(1, d - 1))
        Y[j] = Y[j].astype(np.float32)
        sc = 10.0 ** float(rng.choice([-60, 60, 45, -45]))
        Y[j - 1] = Y[j - 1] * sc
        Y[j + 1] = Y[j + 1] / sc
        return Y, {'family': fam, 'n': n, 'r': r, 'j32': j}
    if fam == 'sparse-small':
        # sparse cores (exact zeros: zero slices, block structure of a TT sum,
        # one-hot entries) whose non-zero entries are all well below 0.5
        d = int(rng.integers(4, 13))
        n = [int(rng.integers(2, 4)) for _ in range(d)]
        r = gen.rand_ranks(rng, d, 3)
        Y = gen.cores(rng, n, r, 'normal')
        sc = float(10.0 ** rng.uniform(-4, -1))
        for G in Y:
            G *= sc / max(1e-300, np.abs(G).max()) * 0.4
            mask = rng.random(G.shape) < 0.5
            if np.all(mask):
                mask.flat[0] = False
            G[mask] = 0.
        return Y, {'family': fam, 'n': n, 'r': r}
    if fam == 'extreme-bond':
        # a rank-1 bond next to a core whose entries have subnormal squares
        # (2^-515..2^-540) or overflowing squares (2^+515..2^+530), balanced
        # by the neighbour: the tensor itself is of ordinary size
        d = int(rng.integers(3, 6))
        n = [int(rng.integers(2, 5)) for _ in range(d)]
        r = gen.rand_ranks(rng, d, 4, 2)
        i = int(rng.integers(1, d))
        r[i] = 1
        Y = gen.cores(rng, n, r, 'normal')
        sh = int(rng.integers(515, 541)) * (-1 if rng.random() < 0.6 else 1)
        if sh > 530:
            sh = 530
        Y[i] *= 2.0 ** sh
        Y[i - 1 if rng.random() < 0.7 or i == d - 1 else i + 1] *= 2.0 ** -sh
        return Y, {'family': fam, 'n': n, 'r': r}
    base = fam if fam in gen.FAMILIES else None
    Y, info = gen.make_tt(rng, base, dmax=5, nmax=4, rmax=5, max_entries=3000)
    d = len(Y)
    if fam == 'zero-core':
        Y[int(rng.integers(d))][...] = 0.
    elif fam == 'huge':
        Y[int(rng.integers(d))] *= 1e100
    elif fam == 'tiny':
        # 1e-150: the whole core lies below core_stab's threshold (1e-100)
        Y[int(rng.integers(d))] *= float(rng.choice([1e-100, 1e-150]))
    info['family'] = fam
    return Y, info


def expect_reject(ctx, fn, what):
    try:
        fn()
    except ValueError:
        ctx.held('orth-reject')
        return
    except Exception as ex:
        ctx.viol('orth-reject', f'{what}: raised {type(ex).__name__} '
            f'({ex}) instead of ValueError')
        return
    ctx.viol('orth-reject', f'{what}: accepted an out-of-range pivot')


def run_gauge(case, ctx):
    """A bond whose gauge is badly unbalanced: Y[i-1] D and D^-1 Y[i] with a
    positive diagonal D spanning up to 2^160.  The dense tensor and the
    tensor of absolute values of the cores do not depend on D, so 'the same
    tensor up to rounding' is judged relative to that gauge-invariant bound
    (the product of the core norms, used elsewhere, grows with D).  Driven:
    complete sweeps (every pivot, plain and stabilised) and the single steps
    AT the unbalanced bond, which factorise column-scaled matrices (Householder
    QR is column-wise backward stable); single steps at other bonds factorise
    row-scaled matrices, which no QR handles, and are not part of the claim."""
    import teneva
    rng = np.random.default_rng(case['seed'])
    d = int(rng.integers(3, 6))
    n = [int(rng.integers(2, 5)) for _ in range(d)]
    r = gen.rand_ranks(rng, d, 4, 2)
    Y = gen.cores(rng, n, r, 'normal')
    i = int(rng.integers(1, d))
    D = 2.0 ** rng.integers(-80, 81, size=r[i]).astype(float)
    if rng.random() < 0.5:
        D = np.sort(D)[::-1].copy()
    Y[i - 1] = Y[i - 1] * D[None, None, :]
    Y[i] = Y[i] / D[:, None, None]
    A = ref.dense_ld(Y)
    nrm = np.sqrt(np.sum(A * A))
    tol = 200 * d * EPS * np.sqrt(np.sum(ref.absbound(Y) ** 2))
    _depth['n'] += 1             # the interposed monitors use the core-norm
    try:                         # product and would be vacuous here
        runs = []
        for k in range(d):
            for stab in (False, True):
                res = teneva.orthogonalize(Y, k, stab)
                Z, p = res if stab else (res, 0)
                runs.append((f'orthogonalize(k={k}, use_stab={stab})', Z,
                    int(p), list(range(k)), list(range(k + 1, d)), k))
        runs.append((f'orthogonalize_left(i={i - 1})',
            teneva.orthogonalize_left([G.copy() for G in Y], i - 1), 0,
            [i - 1], [], None))
        runs.append((f'orthogonalize_right(i={i})',
            teneva.orthogonalize_right([G.copy() for G in Y], i), 0, [],
            [i], None))
    finally:
        _depth['n'] -= 1
    for what, Z, p, lefts, rights, k in runs:
        why = ref.wellformed(Z, n)
        if not ctx.check('gauge-tensor', why is None, f'{what}: malformed '
                f'result: {why}'):
            continue
        bad = []
        for j in lefts:
            dev, t = gram_dev_left(Z[j])
            if not dev <= t:
                bad.append((j, 'left', dev))
        for j in rights:
            dev, t = gram_dev_right(Z[j])
            if not dev <= t:
                bad.append((j, 'right', dev))
        ctx.check('gauge-orthonormal', not bad, f'{what} on a tensor with an '
            f'unbalanced bond {i} (log2 D = {np.log2(D).tolist()}): cores not '
            f'orthonormal: {bad[:3]}', shape=n, ranks=r)
        B = ref.dense_ld(Z) * np.ldexp(LD(1), p)
        diff = np.sqrt(np.sum((A - B) ** 2))
        ctx.check('gauge-tensor', bool(diff <= tol), lambda: f'{what} on a '
            f'tensor with an unbalanced bond {i} (log2 D = '
            f'{np.log2(D).tolist()}): ||Z 2^p - Y||_F = {float(diff):.3e} > '
            f'{float(tol):.3e} (||Y|| = {float(nrm):.3e})', shape=n, ranks=r)
        if k is not None:
            pn = LD(np.sqrt(np.sum(np.asarray(Z[k], dtype=LD) ** 2))) * \
                np.ldexp(LD(1), p)
            ctx.check('gauge-tensor', bool(abs(pn - nrm) <= tol), lambda:
                f'{what}: pivot core norm {float(pn):.6e} != ||Y|| = '
                f'{float(nrm):.6e} (unbalanced bond {i})')
        rout = ref.ranks_of(Z)
        ctx.check('gauge-tensor', all(b <= a for a, b in zip(r, rout)),
            f'{what}: ranks {r} -> {rout}')
    ctx.nontrivial(['gauge', n, r, i])


def run_case(case, ctx):
    import teneva
    if case['family'] == 'gauge':
        return run_gauge(case, ctx)
    rng = np.random.default_rng(case['seed'])
    Y, info = make_input(rng, case['family'])
    if case['family'] == 'mixed-dtype':
        # the left-to-right sweep has to carry the huge / tiny factor R across
        # the float32 core in double precision (pivots right of it; a right-
        # to-left sweep would factorise the float32 core itself in float32,
        # which is not judged)
        j = info['j32']
        for k in range(j + 1, len(Y)):
            for stab in (False, True):
                teneva.orthogonalize(Y, k, stab)
        teneva.orthogonalize_left([G.copy() for G in Y], j - 1)
        teneva.orthogonalize_left([G.copy() for G in Y], j - 1, True)
        ctx.event('float32-core-between-unbalanced-float64-cores')
        return
    d = len(Y)
    pivots = list(range(d)) if d <= 12 else \
        sorted({0, 1, d // 2, d - 2, d - 1} | set(int(x)
        for x in rng.integers(0, d, size=4)))
    spread = case['family'].startswith('spread')
    for k in pivots:
        for stab in ((True,) if spread else (False, True)):
            if stab and rng.random() < 0.3:
                teneva.orthogonalize(Y, k=k, use_stab=True)
            elif stab:
                teneva.orthogonalize(Y, k, True)
            else:
                teneva.orthogonalize(Y, k)
    if spread:
        ctx.event('norm-outside-double-range')
        Z = teneva.orthogonalize(Y, pivots[len(pivots) // 2], True)
        ctx.sample({'case': case, 'shape': info['n'], 'ranks': info['r'],
            'log2_core_scale': [float(np.log2(np.abs(G).max())) for G in Y],
            'p': int(Z[1])})
        return
    teneva.orthogonalize(Y)                       # default pivot = last
    for bad in (-1, d, d + 3, -0.5, d - 0.5, np.float64(-0.25),
            np.float64(d - 0.1), np.int64(d), -d - 1):
        expect_reject(ctx, lambda: teneva.orthogonalize(Y, bad),
            f'orthogonalize(k={bad!r}), d={d}')
        expect_reject(ctx, lambda: teneva.orthogonalize(Y, bad, True),
            f'orthogonalize(k={bad!r}, use_stab=True), d={d}')
    steps = list(range(d)) if d <= 8 else [0, 1, d // 2, d - 2, d - 1]
    for i in steps:
        for inplace in (False, True):
            if rng.random() < 0.3:
                # the flag as it comes out of a comparison of numpy integers
                # or of a configuration file
                inplace = [np.bool_(inplace), int(inplace)][int(
                    rng.integers(2))]
            if i <= d - 2:
                Z = [G.copy() for G in Y]
                teneva.orthogonalize_left(Z, i, inplace) if inplace is not \
                    False else teneva.orthogonalize_left(Z, i)
            if i >= 1:
                Z = [G.copy() for G in Y]
                teneva.orthogonalize_right(Z, i, inplace=inplace)
    # the same core OBJECT at several positions of the list (a periodic
    # tensor [G0, G, G, ..., Gd]) in Fortran order: an in-place step may
    # replace cores i, i+-1 but must not write into the shared array
    if d >= 4 and case['family'] in ('generic', 'd2', 'rank1', 'decay'):
        rr = int(rng.integers(1, 4))
        nm = int(rng.integers(2, 4))
        Gm = np.asfortranarray(rng.normal(size=(rr, nm, rr)))
        Yp = [np.asfortranarray(rng.normal(size=(1, nm, rr)))] + \
            [Gm] * (d - 2) + [np.asfortranarray(rng.normal(size=(rr, nm, 1)))]
        for i in range(d):
            for inplace in (True, False):
                if i <= d - 2:
                    teneva.orthogonalize_left(list(Yp), i, inplace)
                if i >= 1:
                    teneva.orthogonalize_right(list(Yp), i, inplace)
        ctx.event('shared-core-object-steps')
    for bad in (None, -1, d - 1, d):
        expect_reject(ctx, lambda: teneva.orthogonalize_left(Y, bad),
            f'orthogonalize_left(i={bad}), d={d}')
    for bad in (None, 0, -1, d):
        expect_reject(ctx, lambda: teneva.orthogonalize_right(Y, bad),
            f'orthogonalize_right(i={bad}), d={d}')
    # history: an already orthogonalised tensor whose first core was rescaled
    # by 1 + 2e-6 is NOT orthonormal any more and must be treated like any
    # other input
    if d <= 8 and case['family'] in ('generic', 'decay', 'overrank', 'd2'):
        Y1 = teneva.orthogonalize(Y, d - 1)
        Y2 = [G.copy() for G in Y1]
        Y2[0] *= 1 + 2e-6
        for k in range(d):
            teneva.orthogonalize(Y2, k)
        if d >= 2:
            teneva.orthogonalize_left([G.copy() for G in Y2], 0)
        ctx.event('nearly-orthonormal-inputs')
    # nested calls: the routines that orthogonalise internally
    if d <= 6 and case['family'] not in ('zero-core', 'huge', 'tiny'):
        _state['nested'] = True
        try:
            teneva.truncate(Y, 1e-3)
            teneva.truncate(Y, 1e-3, use_stab=True)
        finally:
            _state['nested'] = False
    Z = teneva.orthogonalize(Y, pivots[len(pivots) // 2], True)
    ctx.sample({'case': case, 'shape': info['n'], 'ranks': info['r'],
        'pivot': pivots[len(pivots) // 2], 'p': int(Z[1]),
        'ranks_out': ref.ranks_of(Z[0]),
        'pivot_core_norm': float(np.linalg.norm(Z[0][pivots[len(pivots) // 2]]))})
