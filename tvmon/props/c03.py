"""C03 — TT-SVD bound / ranks, matrix variant, truncated matrix factorisations.

Postcondition monitors interposed on svd, matrix_skeleton and matrix_svd (all
calls, direct and internal), plus a workload for svd_matrix / full_matrix.
Reference: dense SVD (LAPACK) of the input's unfoldings.
"""
import inspect

import numpy as np

from tvmon import core, gen, ref
from tvmon import docsig
from tvmon import sanit
from tvmon.ref import EPS
from tvmon.interpose import installed

PID = 'C03'
LEVEL = 'exploration'
RULE = ('dense arrays d=2..6, mode sizes 1..6, magnitude 1e-6..1e6, exact-rank '
    'and full-rank spectra; thresholds placed just above/below every tail '
    'energy of every unfolding; caps 1..inf; matrices 1..14 x 1..14 for the '
    'factorisations with abs/rel thresholds and give_to l/m/r; unit matrices '
    'E_ij for ALL (i,j) of 2^q x 2^q (q<=4) for the interleaving; '
    'non-trivial = distinct (shape, ranks, e-bucket) with a rank below the '
    'full unfolding rank')
REQUIRED = {'svd-structure': 300, 'svd-error-bound': 200, 'svd-rank-minimal':
    300, 'svd-exact-rank': 40, 'skel-size': 1000, 'skel-product': 1000,
    'skel-rank-rule': 800, 'skel-give_to': 500, 'msvd-product': 300,
    'svd_matrix-roundtrip': 20, 'svd_matrix-interleaving': 100,
    'svd_matrix-cap': 40, 'skel-exact-tie': 100}
ASSUMPTIONS = ['dense SVD (LAPACK) is the reference for singular values',
    'rounding noise of computed singular values: 1e3*eps*s_1 (SVD), '
    'eigenvalues of the Gram matrix: 1e3*eps*s_1^2 (matrix_svd)',
    'exactly zero matrices/arrays belong to C11 and are not judged here']
COVER = ['svd.svd', 'svd.svd_matrix', 'svd.matrix_svd', 'svd.matrix_skeleton', 'transformation.full_matrix']
SHARDS = {'quick': 12, 'thorough': 16}


def gen_cases(seed, tier):
    rng = np.random.default_rng([seed, 103])
    q = tier == 'quick'
    out = []
    for j in range(2000 if q else 40000):
        out.append({'kind': 'svd', 'seed': int(rng.integers(1 << 62)),
            'exact': bool(j % 2)})
    for j in range(2800 if q else 50000):
        out.append({'kind': 'matrix', 'seed': int(rng.integers(1 << 62))})
    for j in range(200 if q else 4000):
        out.append({'kind': 'special', 'seed': int(rng.integers(1 << 62))})
    for qq in ([1, 2, 3] if q else [1, 2, 3, 4]):
        N = 2 ** qq
        for blk in range(0, N * N, 64):
            out.append({'kind': 'unit', 'q': qq, 'lo': blk,
                'hi': min(N * N, blk + 64)})
    for j in range(120 if q else 2000):
        out.append({'kind': 'svd_matrix', 'seed': int(rng.integers(1 << 62))})
    for j in range(24 if q else 300):
        out.append({'kind': 'longthin', 'seed': int(rng.integers(1 << 62))})
    return out


# ---- monitors --------------------------------------------------------------------

def smallest_q(s, lim2):
    """Smallest q with tail(s, q)^2 <= lim2 (len(s) if none)."""
    t = np.concatenate([np.cumsum((np.asarray(s, float) ** 2)[::-1])[::-1],
        [0.]])
    for q in range(len(s) + 1):
        if t[q] <= lim2:
            return q
    return len(s)


def judge_factor(ctx, name, A, U, V, e, r, rel, give_to):
    """matrix_skeleton (give_to in l/m/r) and matrix_svd (give_to None)."""
    A = np.asarray(A, dtype=float)
    m, n = A.shape
    ok = (isinstance(U, np.ndarray) and isinstance(V, np.ndarray)
        and U.ndim == 2 and V.ndim == 2 and U.shape[0] == m
        and V.shape[1] == n and U.shape[1] == V.shape[0])
    if not ctx.check('skel-size', ok, f'{name}: factor shapes '
            f'{getattr(U, "shape", None)} {getattr(V, "shape", None)} '
            f'for A {A.shape}'):
        return
    q = U.shape[1]
    cap = max(1, int(min(r, 1e15)))
    ctx.check('skel-size', 1 <= q <= min(cap, min(m, n)),
        f'{name}: inner size {q} not in [1, min(cap={cap}, {min(m, n)})]')
    s = np.linalg.svd(A, compute_uv=False)
    s1 = s[0]
    if not (s1 > 0) or not np.all(np.isfinite(A)):
        ctx.skip('skel-product', 'zero-matrix')
        return
    gram = give_to is None
    noise = np.sqrt(50 * EPS) * s1 if gram else 50 * EPS * s1 * np.sqrt(min(m, n))
    # inner products over the long side accumulate rounding in proportion to
    # their length (gamma_L = L eps): measured 4 / 17 / 121 eps s1 sqrt(k) at
    # L = 2e3 / 4e4 / 2e5; the allowance grows linearly beyond 2000
    noise *= max(1., max(m, n) / 2000.)
    mon = 'msvd-product' if gram else 'skel-product'
    err = ref.fro(np.asarray(U, dtype=ref.LD) @ np.asarray(V, dtype=ref.LD) - A)
    ctx.check(mon, err <= ref.tail(s, q) * (1 + 1e-9) + noise,
        lambda: f'{name}: ||A - UV|| = {err:.6e} > best rank-{q} error '
        f'{ref.tail(s, q):.6e} (+{noise:.1e})', shape=[m, n], e=e, r=r,
        rel=rel, give_to=give_to)
    # rank rule: q == smallest size with discarded tail energy <= e
    ee = e * s1 if rel else e
    n2 = 1e3 * EPS * s1 * s1 if gram else (1e3 * EPS * s1) ** 2
    q_hi = max(1, smallest_q(s, ee * ee * (1 - 1e-9) ** 2 - n2))
    q_lo = max(1, smallest_q(s, ee * ee * (1 + 1e-9) ** 2 + n2))
    ctx.check('skel-rank-rule', min(cap, q_lo) <= q <= min(cap, q_hi),
        lambda: f'{name}: inner size {q} outside [{min(cap, q_lo)}, '
        f'{min(cap, q_hi)}] = smallest size with tail energy <= e '
        f'(e={e}, rel={rel}, cap={cap})', svals=s[:12], shape=[m, n])
    if give_to is not None:
        tolg = 20 * (m + n) * EPS
        Gu = U.T @ U
        Gv = V @ V.T
        sq = s[:q]
        if give_to == 'l':
            okg = np.abs(Gv - np.eye(q)).max() <= tolg and \
                np.abs(Gu - np.diag(sq ** 2)).max() <= tolg * s1 * s1
        elif give_to == 'r':
            okg = np.abs(Gu - np.eye(q)).max() <= tolg and \
                np.abs(Gv - np.diag(sq ** 2)).max() <= tolg * s1 * s1
        else:
            okg = np.abs(Gu - np.diag(sq)).max() <= tolg * s1 and \
                np.abs(Gv - np.diag(sq)).max() <= tolg * s1
        ctx.check('skel-give_to', bool(okg),
            f'{name}: singular values not distributed as give_to={give_to!r} '
            'documents (Gram matrices of the factors)', shape=[m, n], q=q)


def judge_svd(ctx, A, Z, e, r):
    A = np.asarray(A, dtype=float)
    n = list(A.shape)
    d = len(n)
    why = ref.wellformed(Z, n)
    if not ctx.check('svd-structure', why is None, f'svd malformed: {why}'):
        return
    rout = ref.ranks_of(Z)
    cap = max(1, int(min(r, 1e15)))
    ctx.check('svd-structure', all(q <= cap for q in rout),
        f'svd ranks {rout} exceed cap {cap}')
    nrm = ref.fro(A)
    thin = d >= 2 and n[0] <= 8 and A.size <= 1200000
    if not nrm > 0 or (A.size > 6000 and not thin) or d < 2:
        ctx.skip('svd-error-bound', 'zero-or-too-big')
        return
    sv = [ref.unfold_svals(A, k) for k in range(1, d)]
    err = ref.fro(np.asarray(ref.dense_ld(Z), dtype=float) - A)
    floor = 50 * d * EPS * nrm
    # (long unfoldings: see judge_factor)
    floor *= max(1., max(max(int(np.prod(n[:k])), int(np.prod(n[k:])))
        for k in range(1, d)) / 2000.)
    if all(q < cap for q in rout[1:-1]):
        ctx.check('svd-error-bound',
            err <= e * np.sqrt(d - 1) * (1 + 1e-9) + floor,
            lambda: f'||A - svd(A)|| = {err:.6e} > e sqrt(d-1) = '
            f'{e * np.sqrt(d - 1):.6e} (+floor {floor:.1e})', shape=n, e=e,
            ranks=rout, norm=nrm)
    else:
        ctx.skip('svd-error-bound', 'cap-binds')
    n2 = (1e3 * EPS * nrm) ** 2
    ropt = [max(1, smallest_q(s, e * e * (1 - 1e-9) ** 2 - n2)) for s in sv]
    ctx.check('svd-rank-minimal', all(a <= b for a, b in zip(rout[1:-1], ropt)),
        lambda: f'svd ranks {rout} exceed the smallest ranks {ropt} whose '
        f'tail energy is <= e = {e:.4e}', shape=n, norm=nrm)
    full = [min(int(np.prod(n[:k])), int(np.prod(n[k:]))) for k in range(1, d)]
    if any(a < b for a, b in zip(rout[1:-1], full)):
        ctx.nontrivial([n, rout, int(np.floor(np.log10(e / nrm) * 4))])


def _doc_skeleton(A, e=1.E-10, r=1.E+12, hermitian=False, rel=False,
                  give_to='m'):
    """The DOCUMENTED signature of matrix_skeleton: positional calls are bound
    by it, not by whatever the implementation currently declares."""


def _judgeable(A):
    """Size limit of the dense-SVD reference: 40000 entries, or a thin matrix
    (one side <= 8) of up to 1.2e6 entries."""
    return A.ndim == 2 and (A.size <= 40000 or (min(A.shape) <= 8
        and A.size <= 1200000))


def make_skeleton(orig):
    sig = docsig.sig('matrix_skeleton')

    def matrix_skeleton(*args, **kw):
        ba = sig.bind(*args, **kw)
        ba.apply_defaults()
        a = ba.arguments
        A0 = np.array(a['A'], dtype=float, copy=True)
        U, V = orig(*args, **kw)
        ctx = core.CUR
        sym = A0.ndim == 2 and A0.shape[0] == A0.shape[1] and \
            np.array_equal(A0, A0.T)
        if ctx is not None and (not a['hermitian'] or sym) and \
                _judgeable(A0):
            judge_factor(ctx, 'matrix_skeleton', A0, U, V, float(a['e']),
                float(a['r']), bool(a['rel']), str(a['give_to'])
                if a['give_to'] in ('l', 'r') else 'm')
            U, V = sanit.hand_out((U, V))
        return U, V
    return matrix_skeleton


def make_msvd(orig):
    sig = docsig.sig('matrix_svd')

    def matrix_svd(*args, **kw):
        ba = sig.bind(*args, **kw)
        ba.apply_defaults()
        a = ba.arguments
        A0 = np.array(a['A'], dtype=float, copy=True)
        U, V = orig(*args, **kw)
        ctx = core.CUR
        if ctx is not None and _judgeable(A0):
            judge_factor(ctx, 'matrix_svd', A0, U, V, float(a['e']),
                float(a['r']), False, None)
            U, V = sanit.hand_out((U, V))
        return U, V
    return matrix_svd


def make_svd(orig):
    sig = docsig.sig('svd')

    def svd(*args, **kw):
        ba = sig.bind(*args, **kw)
        ba.apply_defaults()
        a = ba.arguments
        A0 = np.array(a['Y_full'], dtype=float, copy=True)
        Z = orig(*args, **kw)
        ctx = core.CUR
        if ctx is not None:
            judge_svd(ctx, A0, Z, float(a['e']), float(a['r']))
        return Z
    return svd


def setup_worker(ctx):
    installed({'matrix_skeleton': make_skeleton, 'matrix_svd': make_msvd,
        'svd': make_svd}).__enter__()


# ---- workloads --------------------------------------------------------------------

def run_svd(case, ctx):
    import teneva
    rng = np.random.default_rng(case['seed'])
    for _ in range(50):
        n = gen.rand_shape(rng, 2, 6, 1, 6)
        if int(np.prod(n)) <= 3000:
            break
    d = len(n)
    scale = 10.0 ** rng.uniform(-6, 6)
    if case['exact']:
        rho = int(rng.integers(1, 5))
        Y, r = gen.exact_rank_tt(rng, n, rho)
        A = np.asarray(ref.dense_ld(Y), dtype=float)
    else:
        A = rng.normal(size=n)
        if rng.random() < 0.5:   # decaying spectrum
            Y = gen.cores(rng, n, gen.rand_ranks(rng, d, 5), 'normal')
            for G in Y:
                G *= (0.2 ** np.arange(G.shape[2]))[None, None, :]
            A = np.asarray(ref.dense_ld(Y), dtype=float) + 1e-7 * A
    nrm0 = ref.fro(A)
    if not nrm0 > 0:
        return
    A = A * (scale / nrm0) if rng.random() < 0.7 else A * scale
    if rng.random() < 0.3:
        A = np.asfortranarray(A)
    nrm = ref.fro(A)
    sv = [ref.unfold_svals(A, k) for k in range(1, d)]
    ths = []
    for s in sv:
        for q in range(len(s)):
            t = ref.tail(s, q)
            if t > 1e-9 * nrm:
                ths += [t * (1 + 1e-6), t * (1 - 1e-6)]
    pick = list(rng.choice(ths, size=min(4, len(ths)), replace=False)) \
        if ths else []
    pick.append(nrm * 10.0 ** rng.uniform(-10, 0))
    first = True
    for e in pick:
        cap = 1e12 if rng.random() < 0.7 else int(rng.integers(1, 5))
        Z = teneva.svd(A, float(e), cap) if rng.random() < 0.5 else \
            teneva.svd(A, e=float(e), r=cap)
        if first:
            first = False
            ctx.sample({'case': case, 'shape': n, 'norm': nrm, 'e': float(e),
                'cap': cap, 'ranks': ref.ranks_of(Z), 'error': ref.fro(
                np.asarray(ref.dense_ld(Z), dtype=float) - A),
                'bound': float(e) * np.sqrt(d - 1)})
    if case['exact']:
        nz = [s[s > 1e-13 * s[0]] for s in sv]
        smin = min(float(x[-1]) for x in nz)
        s1 = max(float(x[0]) for x in nz)
        rho_true = [len(x) for x in nz]
        if smin / s1 < 1e-4:
            ctx.skip('svd-exact-rank', 'ill-conditioned-instance')
        else:
            Z = teneva.svd(A, 1e-9 * smin)
            rout = ref.ranks_of(Z)[1:-1]
            err = ref.fro(np.asarray(ref.dense_ld(Z), dtype=float) - A)
            ctx.check('svd-exact-rank', rout == rho_true
                and err <= 1e3 * d * EPS * nrm,
                f'exact TT-ranks {rho_true} not reproduced: got {rout}, '
                f'error {err:.3e} (norm {nrm:.3e})', shape=n)


def run_matrix(case, ctx):
    import teneva
    rng = np.random.default_rng(case['seed'])
    m, n = int(rng.integers(1, 15)), int(rng.integers(1, 15))
    k = min(m, n)
    kind = int(rng.integers(4))
    U, _ = np.linalg.qr(rng.normal(size=(m, k)))
    V, _ = np.linalg.qr(rng.normal(size=(n, k)))
    if kind == 0:
        s = np.sort(rng.uniform(0.1, 1, size=k))[::-1]
    elif kind == 1:
        s = 10.0 ** -np.arange(k) * rng.uniform(0.5, 1)
    elif kind == 2:
        s = np.sort(rng.uniform(0.1, 1, size=k))[::-1]
        s[int(rng.integers(1, k + 1)):] = 0.
    else:
        s = np.ones(k)
        s[k // 2:] *= 1e-3
    A = (U * s) @ V.T * 10.0 ** rng.uniform(-6, 6)
    if rng.random() < 0.3:
        A = np.asfortranarray(A)
    sv = np.linalg.svd(A, compute_uv=False)
    if not sv[0] > 0:
        return
    ths = []
    for q in range(len(sv)):
        t = ref.tail(sv, q)
        if t > 1e-3 * sv[0]:
            ths += [t * (1 + 1e-6), t * (1 - 1e-6)]
    pick = list(rng.choice(ths, size=min(3, len(ths)), replace=False)) \
        if ths else []
    pick.append(sv[0] * 10.0 ** rng.uniform(-12, 0.5))
    for t in pick:
        cap = 1e12 if rng.random() < 0.6 else int(rng.integers(1, 6))
        for give_to in ('l', 'm', 'r'):
            rel = bool(rng.random() < 0.5)
            e = float(t / sv[0]) if rel else float(t)
            u = rng.random()
            if rng.random() < 0.3:
                # flags as they come out of comparisons / configuration
                # files: numpy booleans and 0 / 1
                rel = [np.bool_(rel), int(rel), np.int64(int(rel))][
                    int(rng.integers(3))]
            if give_to == 'm' and u < 0.4:
                teneva.matrix_skeleton(A, e, cap, rel=rel)
            elif u < 0.7:
                # all options by position, as documented
                teneva.matrix_skeleton(A, e, cap, False, rel, give_to)
            else:
                teneva.matrix_skeleton(A, e, cap, rel=rel, give_to=give_to)
        teneva.matrix_svd(A, float(t), cap)
    ctx.nontrivial(['matrix', m, n, kind, len(pick)])
    ctx.sample({'case': case, 'shape': [m, n], 'svals': sv[:8],
        'thresholds': pick[:3]})


def run_special(case, ctx):
    """(a) square matrices that are symmetric only up to 1e-6: they must be
    factorised as what they are; (b) exact ties: singular values that are small
    integers (permuted diagonal matrices, everything exactly representable) and
    e equal to a tail energy - 'discarded tail energy <= e' includes equality."""
    import teneva
    rng = np.random.default_rng(case['seed'])
    k = int(rng.integers(2, 9))
    S = rng.normal(size=(k, k))
    S = S + S.T
    A = S * (1 + 1e-6 * rng.normal(size=(k, k))) * 10.0 ** rng.uniform(-6, 6)
    sv = np.linalg.svd(A, compute_uv=False)
    for give_to in ('l', 'm', 'r'):
        teneva.matrix_skeleton(A, 1e-9 * sv[0], 1e12, rel=False,
            give_to=give_to)
    teneva.svd(A, 1e-9 * sv[0])
    if k in (4, 6, 8):          # square first unfolding of a d = 3 array
        B = A.reshape(k, 2, k // 2)
        teneva.svd(B, 1e-9 * sv[0])
    ctx.event('nearly-symmetric-matrices')
    # exactly symmetric INDEFINITE matrices through the hermitian path
    Ssym = (S + S.T) * 10.0 ** rng.uniform(-3, 3)
    svs = np.linalg.svd(Ssym, compute_uv=False)
    for give_to in ('l', 'm', 'r'):
        thr = float(svs[int(rng.integers(len(svs)))]) * (1 + 1e-3)
        teneva.matrix_skeleton(Ssym, thr, 1e12, True, False, give_to)
        teneva.matrix_skeleton(Ssym, 1e-3, int(rng.integers(1, k + 1)),
            hermitian=True, rel=True, give_to=give_to)
    ctx.event('symmetric-indefinite-hermitian-path')
    # exact ties
    m, n = int(rng.integers(2, 8)), int(rng.integers(2, 8))
    kk = min(m, n)
    vals = np.sort(rng.choice(np.arange(1, 13), size=kk, replace=False))[::-1]
    D = np.zeros((m, n))
    D[np.arange(kk), np.arange(kk)] = vals
    D = D[rng.permutation(m)][:, rng.permutation(n)]
    D = D * (2.0 ** int(rng.integers(-20, 21)))
    sc = D[D != 0]
    unit = float(np.min(np.abs(sc))) / float(vals[-1])
    e = float(vals[-1]) * unit            # == smallest singular value, exactly
    want = max(1, kk - 1)
    for give_to in ('l', 'm', 'r'):
        U, V = teneva.matrix_skeleton(D, e, 1e12, rel=False, give_to=give_to)
        ctx.check('skel-exact-tie', U.shape[1] == want, f'matrix_skeleton: '
            f'singular values {(vals * unit).tolist()}, e = {e} equals the '
            f'smallest one exactly: inner size {U.shape[1]}, expected {want} '
            '(tail energy <= e includes equality)')
    if float(vals[-1]) / float(vals[0]) in (0.5, 0.25, 0.125):
        U, V = teneva.matrix_skeleton(D, float(vals[-1]) / float(vals[0]),
            1e12, rel=True)
        ctx.check('skel-exact-tie', U.shape[1] == want, 'matrix_skeleton('
            'rel=True): exact tie of the relative tail energy with e')
    U, V = teneva.matrix_svd(D, e)
    ctx.check('skel-exact-tie', U.shape[1] == want, f'matrix_svd: exact tie, '
        f'inner size {U.shape[1]}, expected {want}')
    ctx.nontrivial(['special', k, m, n])


def run_longthin(case, ctx):
    """Unfoldings with one very long side (4e4..2e5) and a few genuine
    singular values 9..11.5 decades below the first, accuracy far below them:
    the rank rule speaks about tail energy and e only, not about the size of
    the matrix (every call is judged by the interposed monitors)."""
    import teneva
    rng = np.random.default_rng(case['seed'])
    k = int(rng.integers(2, 5))
    L = int(rng.integers(40000, 200001))
    sv = np.concatenate([[1.], 10.0 ** -np.sort(rng.uniform(9, 11.5,
        size=k - 1))]) * 10.0 ** rng.uniform(-3, 3)
    U, _ = np.linalg.qr(rng.normal(size=(k, k)))
    V, _ = np.linalg.qr(rng.normal(size=(L, k)))
    A = (U * sv) @ V.T
    e = float(sv[-1]) * 0.03
    give_to = 'lmr'[int(rng.integers(3))]
    teneva.matrix_skeleton(A, e, 1e12, rel=False, give_to=give_to)
    teneva.matrix_skeleton(np.ascontiguousarray(A.T), float(sv[-1] / sv[0])
        * 0.03, 1e12, rel=True, give_to=give_to)
    # the same through the TT-SVD of a 3-D array whose first unfolding is A
    a = int(rng.integers(100, 400))
    B = A[:, :(L // a) * a].reshape(k, a, L // a)
    teneva.svd(B, e)
    ctx.event('long-thin-unfoldings')
    ctx.nontrivial(['longthin', k, L // 10000])


def bits(i, q):
    return [(i >> k) & 1 for k in range(q)]


def run_unit(case, ctx):
    """Entry map of svd_matrix on ALL unit matrices E_ij of size 2^q."""
    import teneva
    q = case['q']
    N = 2 ** q
    for t in range(case['lo'], case['hi']):
        i, j = divmod(t, N)
        M = np.zeros((N, N))
        M[i, j] = 1.
        Z = teneva.svd_matrix(M, 1e-10)
        why = ref.wellformed(Z, [4] * q)
        if not ctx.check('svd_matrix-interleaving', why is None,
                f'svd_matrix(E_{i},{j}) malformed: {why}'):
            continue
        D = np.asarray(ref.dense_ld(Z), dtype=float)
        c = tuple(bi + 2 * bj for bi, bj in zip(bits(i, q), bits(j, q)))
        E = np.zeros([4] * q)
        E[c] = 1.
        ctx.check('svd_matrix-interleaving',
            np.abs(D - E).max() <= 100 * q * EPS,
            f'svd_matrix(E_{i},{j}), q={q}: the unit entry is not at the '
            f'interleaved little-endian position {c}',
            found=np.unravel_index(int(np.argmax(np.abs(D))), D.shape))
        F = teneva.full_matrix(Z)
        ctx.check('svd_matrix-roundtrip', F.shape == (N, N)
            and np.abs(F - M).max() <= 100 * q * EPS,
            f'full_matrix(svd_matrix(E_{i},{j})) != E_{i},{j}')
    ctx.nontrivial(['unit', q, case['lo']])


def run_svd_matrix(case, ctx):
    import teneva
    rng = np.random.default_rng(case['seed'])
    q = int(rng.integers(1, 7))
    N = 2 ** q
    M = rng.normal(size=(N, N)) * 10.0 ** rng.uniform(-6, 6)
    if rng.random() < 0.4:    # low QTT-rank matrices: Kronecker products
        M = np.ones((1, 1))
        for _ in range(q):
            M = np.kron(rng.normal(size=(2, 2)), M)
    nrm = ref.fro(M)
    Z = teneva.svd_matrix(M, 1e-13 * nrm)
    why = ref.wellformed(Z, [4] * q)
    if not ctx.check('svd_matrix-roundtrip', why is None,
            f'svd_matrix malformed: {why}'):
        return
    F = teneva.full_matrix(Z)
    ctx.check('svd_matrix-roundtrip', F.shape == (N, N)
        and ref.fro(F - M) <= (1e-13 * np.sqrt(q) + 50 * q * EPS) * nrm,
        f'full_matrix(svd_matrix(M)) differs from M by {ref.fro(F - M):.3e} '
        f'(norm {nrm:.3e}, q={q})')
    # entry identity through the documented interleaving, own contraction
    D = np.asarray(ref.dense_ld(Z), dtype=float)
    for _ in range(20):
        i, j = int(rng.integers(N)), int(rng.integers(N))
        c = tuple(bi + 2 * bj for bi, bj in zip(bits(i, q), bits(j, q)))
        ctx.check('svd_matrix-interleaving',
            abs(D[c] - M[i, j]) <= (1e-13 * np.sqrt(q) + 50 * q * EPS) * nrm,
            f'entry ({i},{j}) of M is not at QTT position {c}')
    # truncated: error bound and caps come from the interposed svd monitor
    e = nrm * 10.0 ** rng.uniform(-6, -0.5)
    cap = int(rng.integers(1, 9))
    Zc = teneva.svd_matrix(M, e, cap) if rng.random() < 0.5 else \
        teneva.svd_matrix(M, e=e, r=cap)
    ctx.check('svd_matrix-cap', ref.wellformed(Zc, [4] * q) is None
        and all(x <= cap for x in ref.ranks_of(Zc)), f'svd_matrix(M, e, r={cap}'
        f'): ranks {ref.ranks_of(Zc) if isinstance(Zc, list) else None} exceed '
        'the cap')
    Zt = teneva.svd_matrix(M, 1e-14 * nrm, 1)
    ctx.check('svd_matrix-cap', all(x == 1 for x in ref.ranks_of(Zt)),
        'svd_matrix with r=1 returned ranks above 1')
    ctx.nontrivial(['svd_matrix', q, ref.ranks_of(Z)])


def run_case(case, ctx):
    {'svd': run_svd, 'matrix': run_matrix, 'unit': run_unit, 'special': run_special,
        'svd_matrix': run_svd_matrix, 'longthin': run_longthin}[case['kind']](
        case, ctx)
