"""tvmon.interpose: rebind teneva functions to monitoring wrappers.

teneva calls itself through the package namespace (`teneva.truncate(...)`) and
through module globals; both are looked up at call time, so rebinding the name
in the package and in every teneva submodule that holds the original object
intercepts public and internal calls without touching /repo.
"""
import functools
import sys

_installed = []   # (module, name, original)


def teneva_modules():
    return [m for k, m in list(sys.modules.items())
        if m is not None and (k == 'teneva' or k.startswith('teneva.'))]


def module(name):
    """The submodule object (teneva.als the attribute is the function)."""
    return sys.modules[f'teneva.{name}']


def install(name, make, home=None):
    """Wrap function `name`; `make(orig)` returns the wrapper.

    `home` names the defining submodule for private helpers that are not
    exported from the package (e.g. ('als', '_optimize_core')).
    """
    import teneva
    src = module(home) if home else teneva
    orig = getattr(src, name)
    orig = getattr(orig, '__tvmon_orig__', orig)
    wrapped = make(orig)
    try:
        functools.update_wrapper(wrapped, orig)
    except Exception:
        pass
    wrapped.__tvmon_orig__ = orig
    n = 0
    for m in teneva_modules():
        cur = m.__dict__.get(name)
        if cur is not None and getattr(cur, '__tvmon_orig__', cur) is orig:
            _installed.append((m, name, cur))
            setattr(m, name, wrapped)
            n += 1
    return n


def uninstall_all():
    while _installed:
        m, name, cur = _installed.pop()
        setattr(m, name, cur)


class installed:
    """Context manager: with installed({'truncate': make, ...}): ..."""

    def __init__(self, table):
        self.table = table

    def __enter__(self):
        self.mark = len(_installed)
        for key, make in self.table.items():
            if isinstance(key, tuple):
                install(key[1], make, home=key[0])
            else:
                install(key, make)
        return self

    def __exit__(self, *exc):
        while len(_installed) > self.mark:
            m, name, cur = _installed.pop()
            setattr(m, name, cur)
        return False


# ---- sys.monitoring line probes --------------------------------------------

class LineProbe:
    """Count executions of selected source lines of one function.

    probe = LineProbe(func, {'substring of the line': 'event name', ...})
    probe.counts -> {event name: hits}.  Other lines are DISABLEd (cost ~0).
    """
    _next_tool = [3]

    def __init__(self, func, patterns):
        import inspect
        self.mon = sys.monitoring
        func = getattr(func, '__tvmon_orig__', func)
        self.code = func.__code__
        src, first = inspect.getsourcelines(func)
        self.targets = {}
        self.missing = []
        self.counts = {}
        for pat, ev in patterns.items():
            hit = [first + o for o, l in enumerate(src) if pat in l]
            if not hit:
                self.missing.append(pat)
            # a list of names assigns one event per occurrence, in source order
            names = ev if isinstance(ev, (list, tuple)) else [ev] * len(hit)
            if len(names) != len(hit) and hit:
                self.missing.append(pat)
            for h, name in zip(hit, names):
                self.targets[h] = name
            for name in (ev if isinstance(ev, (list, tuple)) else [ev]):
                self.counts[name] = 0
        self.tool = None

    def __enter__(self):
        mon = self.mon
        for tid in range(5, 0, -1):
            if mon.get_tool(tid) is None:
                self.tool = tid
                break
        if self.tool is None:
            raise RuntimeError('no free sys.monitoring tool id')
        mon.use_tool_id(self.tool, f'tvmon{self.tool}')
        mon.register_callback(self.tool, mon.events.LINE, self._on_line)
        mon.set_local_events(self.tool, self.code, mon.events.LINE)
        return self

    def _on_line(self, code, line):
        ev = self.targets.get(line)
        if ev is None:
            return self.mon.DISABLE
        self.counts[ev] += 1

    def reset(self):
        for k in self.counts:
            self.counts[k] = 0

    def __exit__(self, *exc):
        mon = self.mon
        mon.set_local_events(self.tool, self.code, 0)
        mon.register_callback(self.tool, mon.events.LINE, None)
        mon.free_tool_id(self.tool)
        self.tool = None
        return False


class LineCov:
    """Which lines of the given functions were executed at least once."""

    def __init__(self, funcs):
        self.mon = sys.monitoring
        self.codes = {}
        for name, f in funcs.items():
            f = getattr(f, '__tvmon_orig__', f)
            code = f.__code__
            lines = {l for _, _, l in code.co_lines() if l is not None
                and l != code.co_firstlineno}
            self.codes[code] = (name, lines)
        self.hit = {code: set() for code in self.codes}
        self.tool = None

    def __enter__(self):
        mon = self.mon
        for tid in range(5, 0, -1):
            if mon.get_tool(tid) is None:
                self.tool = tid
                break
        if self.tool is None:
            raise RuntimeError('no free sys.monitoring tool id')
        mon.use_tool_id(self.tool, f'tvcov{self.tool}')
        mon.register_callback(self.tool, mon.events.LINE, self._on_line)
        for code in self.codes:
            mon.set_local_events(self.tool, code, mon.events.LINE)
        return self

    def _on_line(self, code, line):
        h = self.hit.get(code)
        if h is not None:
            h.add(line)
        return self.mon.DISABLE

    def report(self):
        return {name: [len(self.hit[code] & lines), len(lines)]
            for code, (name, lines) in self.codes.items()}

    def __exit__(self, *exc):
        mon = self.mon
        for code in self.codes:
            mon.set_local_events(self.tool, code, 0)
        mon.register_callback(self.tool, mon.events.LINE, None)
        mon.free_tool_id(self.tool)
        self.tool = None
        return False
