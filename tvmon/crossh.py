"""tvmon.crossh: boundary instrumentation shared by the TT-cross checks (C05, C06).

The objective is a dense-table lookup (so a value does not depend on the batch
it is requested in) that logs every batch; the callback logs every sweep; the
interposed teneva.copy (calls made by `cross` itself) logs the tensor at the
start of every sweep; the interposed cross._func_eval logs request sizes.
"""
import sys

import numpy as np

from tvmon import gen, ref
from tvmon.interpose import installed


class Abort(Exception):
    """Raised by the harness objective when a run exceeds its call budget."""


class Run:
    """One instrumented execution of teneva.cross."""

    def __init__(self, T, none_at=None, cb_true_at=None, max_calls=4000,
            memo=False, answer_dtype=None):
        self.memo = {} if memo else None # batch bytes -> the array handed out
        self.answer_dtype = answer_dtype
        self.T = T                       # dense target, float array
        self.n = list(T.shape)
        self.none_at = none_at           # 1-based call number returning None
        self.cb_true_at = cb_true_at     # 1-based sweep at which cb -> True
        self.max_calls = max_calls
        self.events = []                 # ('batch', I) ('none', k) ('cb', s, ret)
        self.batches = []                # copies of I handed to f (answered)
        self.calls = 0
        self.bad_rows = []               # domain violations seen by f
        self.sweeps = []                 # per cb: (copy of Y, copy of Yold, info)
        self.copies = []                 # tensors copied by cross itself
        self.requests = []               # (len(I), answered?) per _func_eval
        self.info = None
        self.result = None
        self.error = None

    # -- the objective
    def f(self, I):
        self.calls += 1
        if self.calls > self.max_calls:
            raise Abort()
        ok = isinstance(I, np.ndarray) and I.ndim == 2 and \
            I.shape[1] == len(self.n) and np.issubdtype(I.dtype, np.integer) \
            and I.shape[0] >= 1
        if ok:
            ok = bool(np.all(I >= 0) and np.all(I < np.array(self.n)))
        if not ok:
            self.bad_rows.append(np.array(I, copy=True))
            raise Abort()
        if self.none_at is not None and self.calls == self.none_at:
            self.events.append(('none', self.calls, len(I)))
            return None
        Ic = np.array(I, copy=True)
        self.events.append(('batch', Ic))
        self.batches.append(Ic)
        if self.memo is not None:
            # an objective that memoises whole batches and hands out the SAME
            # array object again for a repeated request
            key = Ic.tobytes()
            if key not in self.memo:
                self.memo[key] = (self.T[tuple(Ic.T)].copy(), Ic)
            return self.memo[key][0]
        y = self.T[tuple(Ic.T)].copy()
        if self.answer_dtype is not None:
            y = y.astype(self.answer_dtype)
        return y

    def memo_intact(self):
        """Arrays handed out by the memoising objective still hold T."""
        return all(np.array_equal(y, self.T[tuple(Ic.T)])
            for y, Ic in (self.memo or {}).values())

    # -- the callback
    def cb(self, Y, info, opts):
        s = len(self.sweeps) + 1
        ret = True if (self.cb_true_at is not None and s == self.cb_true_at) \
            else None
        self.sweeps.append(([G.copy() for G in Y],
            [G.copy() for G in opts['Yold']], dict(info)))
        self.events.append(('cb', s, ret))
        return ret

    @property
    def evaluated(self):
        return int(sum(len(b) for b in self.batches))


_current = {'run': None}


def _make_copy(orig):
    def copy(Y):
        res = orig(Y)
        run = _current['run']
        if run is not None and isinstance(res, list):
            try:
                caller = sys._getframe(1).f_code.co_name
            except Exception:
                caller = ''
            if caller == 'cross':
                run.copies.append([G.copy() for G in res])
        return res
    return copy


def _make_func_eval(orig):
    def _func_eval(f, I, info, cache=None):
        y = orig(f, I, info, cache)
        run = _current['run']
        if run is not None:
            run.requests.append((len(I), y is not None))
        return y
    return _func_eval


def install():
    installed({'copy': _make_copy,
        ('cross', '_func_eval'): _make_func_eval}).__enter__()


def execute(run, Y0, use_cb=True, pass_info=True, **kw):
    """Run teneva.cross under instrumentation; exceptions are captured.
    pass_info=False leaves the info argument out (the library's default
    dictionary, one object shared by all such calls)."""
    import teneva
    info = kw.pop('info', None)
    info = {} if info is None else info
    extra = {'info': info} if pass_info else {}
    _current['run'] = run
    try:
        run.result = teneva.cross(run.f, Y0,
            cb=run.cb if use_cb else None, **extra, **kw)
    except Exception as ex:          # judged by the caller
        run.error = ex
    finally:
        _current['run'] = None
    run.info = info
    return run


def make_target(rng, n, rho):
    Y, r = gen.exact_rank_tt(rng, n, rho)
    return Y, r, np.asarray(ref.dense_ld(Y), dtype=float)


def start_tensor(rng, n, r):
    return gen.cores(rng, n, r, 'normal')


def conditioning(T, r):
    """min over unfoldings of sigma_{r_k} / sigma_1 (dense SVD of target)."""
    d = T.ndim
    worst = 1.
    for k in range(1, d):
        s = ref.unfold_svals(T, k)
        rk = r[k]
        if rk - 1 < len(s) and s[0] > 0:
            worst = min(worst, float(s[rk - 1] / s[0]))
    return worst
