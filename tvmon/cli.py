"""tvmon.cli: master process of a check.

    ./check C02 [--tier quick|thorough] [--seed N] [--shards N] [--replay F]

Exit codes: 0 held on everything judged (KNOWN-FINDING lines for listed
findings), 1 at least one unlisted violation (VIOLATION line), 2 inconclusive
(a deciding monitor or required event was never reached, a shard timed out).
"""
import argparse
import glob
import hashlib
import json
import os
import shutil
import subprocess
import sys
import time

HERE = os.path.dirname(os.path.dirname(os.path.abspath(__file__)))


def repo_fingerprint(repo):
    h = hashlib.sha1()
    for p in sorted(glob.glob(os.path.join(repo, 'teneva', '*.py'))):
        h.update(os.path.basename(p).encode())
        with open(p, 'rb') as f:
            h.update(f.read())
    try:
        head = subprocess.run(['git', '-C', repo, 'rev-parse', 'HEAD'],
            capture_output=True, text=True, timeout=20).stdout.strip()
    except Exception:
        head = ''
    return {'repo': repo, 'git_head': head, 'teneva_sha1': h.hexdigest()}


def known_findings():
    """KNOWN_FINDINGS.txt: lines `finding: property=<id> key=<key> text`."""
    out = {}
    p = os.path.join(HERE, 'KNOWN_FINDINGS.txt')
    if os.path.exists(p):
        for line in open(p):
            line = line.strip()
            if not line.startswith('finding:'):
                continue
            parts = line.split()
            pid = [x[9:] for x in parts if x.startswith('property=')]
            key = [x[4:] for x in parts if x.startswith('key=')]
            if pid and key:
                out[(pid[0], key[0])] = line
    return out


def worker_entry(argv):
    from tvmon import core
    pid, tier, seed, shard, nshards, out, budget = argv
    core.worker_main(pid, tier, int(seed), int(shard), int(nshards), out,
        float(budget))


def replay(pid, path):
    from tvmon import core
    core.import_teneva()
    mod = core.load_prop(pid)
    data = json.load(open(path))
    ctx = core.Ctx(pid)
    if hasattr(mod, 'setup_worker'):
        mod.setup_worker(ctx)
    nv = core.run_one(mod, data['case'], ctx)
    for v in ctx.violations:
        print(json.dumps(v, indent=1)[:6000])
    print(f'replay: {nv} violation(s); monitors: {ctx.mon}')
    return 1 if nv else 0


def main():
    if len(sys.argv) > 1 and sys.argv[1] == '--worker':
        return worker_entry(sys.argv[2:])
    if len(sys.argv) > 1 and sys.argv[1] == '--setup':
        # nothing to build: verify the interpreter, the imports and the origin
        from tvmon import core
        t = core.import_teneva()
        import numpy, scipy
        assert hasattr(sys, 'monitoring'), 'needs Python >= 3.12'
        assert numpy.finfo(numpy.longdouble).nmant >= 63, 'no 80-bit longdouble'
        print(f'setup ok: python {sys.version.split()[0]} numpy '
            f'{numpy.__version__} scipy {scipy.__version__} teneva '
            f'{t.__version__} from {t.__file__}')
        return
    ap = argparse.ArgumentParser()
    ap.add_argument('pid')
    ap.add_argument('--tier', default=os.environ.get('VERIF_TIER') or 'quick',
        choices=['quick', 'thorough'])
    ap.add_argument('--seed', type=int,
        default=int(os.environ.get('VERIF_SEED') or 0))
    ap.add_argument('--shards', type=int, default=0)
    ap.add_argument('--replay', default=None)
    ap.add_argument('--keep', action='store_true')
    a = ap.parse_args()
    pid = a.pid.upper()
    if a.replay:
        sys.exit(replay(pid, a.replay))

    from tvmon import core
    mod = core.load_prop(pid)
    t0 = time.time()
    nshards = a.shards or getattr(mod, 'SHARDS', {}).get(a.tier, 12)
    budget = getattr(mod, 'BUDGET_S', {'quick': 240, 'thorough': 1500})[a.tier]
    work = os.path.join(HERE, '.work', f'{pid}-{os.getpid()}')
    os.makedirs(work, exist_ok=True)
    procs = []
    env = dict(os.environ)
    env.update({'PYTHONDONTWRITEBYTECODE': '1', 'PYTHONHASHSEED': '0',
        'TENEVA_VERIF': '1', 'OPENBLAS_NUM_THREADS': '1',
        'OMP_NUM_THREADS': '1', 'MKL_NUM_THREADS': '1',
        'VERIF_REPO': core.REPO,
        # keep freed memory inside the process: first-touch page faults are
        # very expensive in this VM, so avoid mmap/munmap churn for big arrays
        'MALLOC_MMAP_THRESHOLD_': '33554432',
        'MALLOC_TRIM_THRESHOLD_': '1073741824',
        'MALLOC_TOP_PAD_': '16777216'})
    for s in range(nshards):
        out = os.path.join(work, f'shard{s}.json')
        log = open(os.path.join(work, f'shard{s}.log'), 'w')
        p = subprocess.Popen([sys.executable, '-B', '-W', 'ignore', '-m',
            'tvmon.cli', '--worker', pid, a.tier, str(a.seed), str(s),
            str(nshards), out, str(budget)], cwd=HERE, env=env, stdout=log,
            stderr=subprocess.STDOUT)
        procs.append((p, out, log))
    deadline = t0 + budget * 1.5 + 60
    problems = []
    results = []
    for s, (p, out, log) in enumerate(procs):
        try:
            rc = p.wait(timeout=max(1, deadline - time.time()))
        except subprocess.TimeoutExpired:
            p.kill()
            p.wait()
            problems.append(f'shard {s} hit the wall-clock watchdog')
            continue
        finally:
            log.close()
        if rc != 0 or not os.path.exists(out):
            tail = open(os.path.join(work, f'shard{s}.log')).read()[-1500:]
            problems.append(f'shard {s} exited {rc}: {tail}')
            continue
        results.append(json.load(open(out)))

    # ---- aggregate
    mon, skips, events, margins, kf_counts = {}, {}, {}, {}, {}
    cover = {}
    nontriv = set()
    viols, samples = [], []
    cases_run = n_total = 0
    for r in results:
        for k, v in r['mon'].items():
            m = mon.setdefault(k, [0, 0, 0])
            for i in range(3):
                m[i] += v[i]
        for k, v in r['skips'].items():
            skips[k] = skips.get(k, 0) + v
        for k, v in r['events'].items():
            events[k] = events.get(k, 0) + v
        for k, v in r['margins'].items():
            margins[k] = max(margins.get(k, 0), v)
        for k, v in r.get('kf_counts', {}).items():
            kf_counts[k] = kf_counts.get(k, 0) + v
        for fn, c in r.get('cover', {}).items():
            e = cover.setdefault(fn, {'hit': set(), 'lines': set()})
            e['hit'].update(c['hit'])
            e['lines'].update(c['lines'])
        nontriv.update(r['nontriv'])
        viols.extend(r['violations'])
        for s in r['samples']:
            if len(samples) < 5:
                samples.append(s)
        cases_run += r['cases_run']
        n_total = max(n_total, r['n_cases_total'])
        if r['truncated']:
            problems.append('a shard stopped at its time budget '
                f'({r["done"]}/{r["n_mine"]} cases)')

    kf = known_findings()
    listed, unlisted = {}, []
    for v in viols:
        key = v.get('kf')
        if key and (pid, key) in kf:
            listed.setdefault(key, []).append(v)
        else:
            unlisted.append(v)

    inconclusive = list(problems)
    for name, need in getattr(mod, 'REQUIRED', {}).items():
        judged = mon.get(name, [0, 0, 0])[0]
        need = need.get(a.tier, 1) if isinstance(need, dict) else need
        if judged < need:
            inconclusive.append(
                f'monitor {name} judged only {judged} < {need} cases')
    for name, need in getattr(mod, 'REQUIRED_EVENTS', {}).items():
        need = need.get(a.tier, 1) if isinstance(need, dict) else need
        if events.get(name, 0) < need:
            inconclusive.append(
                f'event {name} seen {events.get(name, 0)} < {need} times')
    tot_judged = sum(v[0] for v in mon.values())
    tot_skipped = sum(v[2] for v in mon.values())
    max_skip = getattr(mod, 'MAX_SKIP_FRACTION', 0.2)
    if tot_judged + tot_skipped and \
            tot_skipped > max_skip * (tot_judged + tot_skipped):
        inconclusive.append(f'{tot_skipped} not-judged vs {tot_judged} judged')
    extra_cov = {}
    if hasattr(mod, 'post_aggregate'):
        cov, reasons = mod.post_aggregate(events, mon)
        extra_cov.update(cov)
        inconclusive.extend(reasons)
    if len(nontriv) < 2:
        inconclusive.append(f'only {len(nontriv)} distinct non-trivial cases')

    # ---- replays + output
    rdir = os.path.join(HERE, 'replays', pid)
    shutil.rmtree(rdir, ignore_errors=True)     # replays of this run only
    seen_paths = []
    for v in unlisted[:20]:
        os.makedirs(rdir, exist_ok=True)
        h = hashlib.sha1(json.dumps(v['case'], sort_keys=True).encode()
            ).hexdigest()[:12]
        path = os.path.join(rdir, f'{h}.json')
        with open(path, 'w') as f:
            json.dump({'property': pid, 'seed': a.seed, 'tier': a.tier,
                'case': v['case'], 'monitor': v['monitor'], 'msg': v['msg'],
                'detail': v['detail']}, f, indent=1)
        if path not in seen_paths:
            seen_paths.append(path)
            print(f'VIOLATION property={pid} replay={path}')
            print(f'  monitor={v["monitor"]} {v["msg"][:300]}')
    for key, vs in listed.items():
        print(f'KNOWN-FINDING: property={pid} key={key} seen '
            f'{kf_counts.get(key, len(vs))}x: {vs[0]["msg"][:200]}')
    n_unlisted = sum(v for k, v in kf_counts.items()
        if not (k and (pid, k) in kf))

    wall = time.time() - t0
    ev = {
        'property_id': pid, 'tier': a.tier, 'seed': a.seed,
        'level': mod.LEVEL,
        'coverage': {
            'evaluations': cases_run,
            'distinct_nontrivial': len(nontriv),
            'rule': mod.RULE,
            'samples': samples,
            'cases_generated': n_total,
            'monitors': {k: {'evaluations': v[0], 'violations': v[1],
                'not_judged': v[2]} for k, v in sorted(mon.items())},
            'not_judged_reasons': skips,
            'events': dict(sorted(events.items())),
            'worst_ratio_to_tolerance': {k: float(f'{v:.3g}')
                for k, v in sorted(margins.items())},
            'lines_hit': {fn: [len(c['hit']), len(c['lines'])]
                for fn, c in sorted(cover.items())},
            'lines_never_hit': {fn: sorted(c['lines'] - c['hit'])
                for fn, c in sorted(cover.items()) if c['lines'] - c['hit']},
            'known_findings_seen': {k: kf_counts.get(k, len(v))
                for k, v in listed.items()},
            'verdict': 'violated' if unlisted else
                ('inconclusive' if inconclusive else 'held'),
            'inconclusive_reasons': inconclusive,
            'tree': repo_fingerprint(core.REPO),
            'exhaustive': bool(getattr(mod, 'EXHAUSTIVE', False)),
            **extra_cov,
        },
        'assumptions': getattr(mod, 'ASSUMPTIONS', []),
        'wall_s': round(wall, 2),
        'violations': max(n_unlisted, len(unlisted)),
    }
    os.makedirs(os.path.join(HERE, 'evidence'), exist_ok=True)
    with open(os.path.join(HERE, 'evidence', f'{pid}.json'), 'w') as f:
        json.dump(ev, f, indent=1)
        f.write('\n')
    if not a.keep:
        shutil.rmtree(work, ignore_errors=True)
        try:
            os.rmdir(os.path.join(HERE, '.work'))
        except OSError:
            pass

    njudged = {k: v[0] for k, v in sorted(mon.items())}
    print(f'{pid} {a.tier} seed={a.seed}: cases={cases_run} '
        f'nontrivial={len(nontriv)} violations={max(n_unlisted, len(unlisted))} '
        f'wall={wall:.1f}s')
    print(f'  monitors judged: {njudged}')
    if skips:
        print(f'  not judged: {skips}')
    if unlisted:
        sys.exit(1)
    if inconclusive:
        for r in inconclusive:
            print(f'INCONCLUSIVE property={pid}: {r}')
        sys.exit(2)
    sys.exit(0)


if __name__ == '__main__':
    main()
