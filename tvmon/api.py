"""tvmon.api: table of call shapes covering every exported name of teneva.

Each entry: Call(name, label, build, seeded=..., raises=..., passthrough=...,
inplace=..., method=...).  build(rng) returns (args, kwargs) with FRESH numpy
data each time (deterministic in rng).  Used by C09 (mutation / aliasing),
C10 (determinism) and C11 (finite results).
"""
import io
import contextlib

import numpy as np


class Call:
    def __init__(self, name, label, build, seeded=False, raises=None,
                 passthrough=False, inplace=None, runner=None, private=None,
                 heavy=False):
        self.name = name
        self.label = label
        self.build = build
        self.seeded = seeded          # has a `seed` keyword (placed by build)
        self.raises = raises          # expected exception type (not drivable)
        self.passthrough = passthrough  # documented: may return its argument
        self.inplace = inplace        # for orthogonalize_left/right(inplace=True)
        self.runner = runner          # custom executor(teneva, args, kwargs)
        self.private = name.startswith('_') if private is None else private
        self.heavy = heavy

    @property
    def key(self):
        return f'{self.name}:{self.label}'

    def execute(self, teneva, args, kwargs):
        if self.runner is not None:
            return self.runner(teneva, args, kwargs)
        return getattr(teneva, self.name)(*args, **kwargs)


# ---- data builders ---------------------------------------------------------------

def tt(rng, n=None, r=None, d=None, pos=False):
    if n is None:
        d = d or int(rng.integers(2, 4))
        n = [int(rng.integers(2, 5)) for _ in range(d)]
    d = len(n)
    if r is None:
        r = [1] + [int(rng.integers(1, 4)) for _ in range(d - 1)] + [1]
    elif isinstance(r, int):
        r = [1] + [r] * (d - 1) + [1]
    Y = []
    for k in range(d):
        G = rng.normal(size=(r[k], n[k], r[k + 1]))
        if pos:
            G = np.abs(G) + 0.1
        Y.append(G)
    return Y


def idx(rng, n, m):
    return np.stack([rng.integers(0, k, size=m) for k in n], axis=1)


def covering_idx(rng, n, m):
    I = idx(rng, n, max(m, max(n)))
    for k, nk in enumerate(n):
        I[rng.permutation(len(I))[:nk], k] = np.arange(nk)
    return I


def shape_of(Y):
    return [G.shape[1] for G in Y]


def dense(Y):
    Z = Y[0]
    for G in Y[1:]:
        Z = np.tensordot(Z, G, 1)
    return Z[0, ..., 0]


CALLS = []


def C(name, label, build, **kw):
    CALLS.append(Call(name, label, build, **kw))


def seed_kw(rng):
    # seed 0 is a valid integer seed (and a popular one): drawn often
    return 0 if rng.random() < 0.15 else int(rng.integers(1 << 30))


# ---- act_many / act_one / act_two ------------------------------------------------

def _b(rng):
    n = [3, 4, 2]
    return tt(rng, n), tt(rng, n), tt(rng, n)


C('add_many', 'tensors', lambda g: (([*_b(g)],), {}))
C('add_many', 'with-numbers-opts', lambda g: (([_b(g)[0], 2.5, _b(g)[1], 1],
    1e-6, 3, 1), {}))
C('outer_many', 'three', lambda g: (([tt(g, [2, 3]), tt(g, [3]), tt(g, [2, 2])],), {}))
C('outer_many', 'empty', lambda g: (([],), {}))
C('outer_many', 'single', lambda g: (([tt(g, [2, 3, 2])],), {}))
C('add_many', 'single', lambda g: (([tt(g, [2, 3, 2])],), {}))
C('copy', 'tt', lambda g: ((tt(g),), {}))
C('copy', 'array', lambda g: ((g.normal(size=(3, 4)),), {}), passthrough=False)
C('copy', 'array-0d', lambda g: ((np.array(float(g.normal())),), {}),
    passthrough=False)
C('copy', 'array-0d-int', lambda g: ((np.array(int(g.integers(9))),), {}),
    passthrough=False)
C('copy', 'array-1elem', lambda g: ((g.normal(size=(1,)),), {}),
    passthrough=False)
C('copy', 'number', lambda g: ((3.5,), {}), passthrough=True)
C('copy', 'none', lambda g: ((None,), {}), passthrough=True)
C('interface', 'plain', lambda g: ((tt(g, [3, 4, 2]),), {}))
C('interface', 'P-per-mode', lambda g: ((tt(g, [3, 4, 2]), [g.uniform(size=3),
    g.uniform(size=4), g.uniform(size=2)]), {}))
C('interface', 'P-flat-i-ltr', lambda g: ((tt(g, [3, 3, 3]),), dict(
    P=[0.2, 0.3, 0.5], i=[1, 0, 2], norm='n', ltr=True)))
C('interface', 'i-array-nonorm', lambda g: ((tt(g, [3, 4, 2]),), dict(
    i=np.array([2, 1, 0]), norm=None)))
C('get', 'list', lambda g: ((tt(g, [3, 4, 2]), [1, 2, 0]), {}))
C('get', 'array', lambda g: ((tt(g, [3, 4, 2]), np.array([2, 3, 1])), {}))
C('get', 'batch', lambda g: ((tt(g, [3, 4, 2]), idx(g, [3, 4, 2], 6)), {}))
C('get_and_grad', 'list', lambda g: ((tt(g, [3, 4, 2]), [1, 2, 0]), {}))
C('get_and_grad', 'array', lambda g: ((tt(g, [3, 4, 2]), np.array([0, 3, 1])), {}))
C('get_many', 'array', lambda g: ((tt(g, [3, 4, 2]), idx(g, [3, 4, 2], 7)), {}))
C('get_many', 'lists', lambda g: ((tt(g, [3, 4, 2]),
    idx(g, [3, 4, 2], 5).tolist()), {}))
C('getter', 'no-numba', lambda g: ((tt(g),), {}), raises=ValueError)
C('mean', 'plain', lambda g: ((tt(g),), {}))
C('mean', 'P', lambda g: ((tt(g, [3, 4, 2]), [g.uniform(size=3),
    g.uniform(size=4), g.uniform(size=2)]), {}))
C('norm', 'plain', lambda g: ((tt(g),), {}))
C('norm', 'stab', lambda g: ((tt(g),), dict(use_stab=True)))
C('qtt_to_tt', 'q2', lambda g: ((tt(g, [2] * 6), 2), {}))
C('sum', 'plain', lambda g: ((tt(g),), {}))
C('tt_to_qtt', 'default', lambda g: ((tt(g, [4, 8, 2]),), {}))
C('tt_to_qtt', 'e-r', lambda g: ((tt(g, [4, 4]), 1e-3, 2), {}))
C('accuracy', 'tt', lambda g: ((tt(g, [3, 4, 2]), tt(g, [3, 4, 2])), {}))
C('accuracy', 'arrays', lambda g: ((g.normal(size=(3, 4)),
    g.normal(size=(3, 4))), {}))
for _op in ('add', 'sub', 'mul'):
    C(_op, 'tt-tt', lambda g: ((tt(g, [3, 4, 2]), tt(g, [3, 4, 2])), {}))
    C(_op, 'tt-num', lambda g: ((tt(g, [3, 4, 2]), 2.5), {}))
    C(_op, 'num-tt', lambda g: ((3, tt(g, [3, 4, 2])), {}))
    C(_op, 'num-num', lambda g: ((3, 2.5), {}))
C('mul_scalar', 'plain', lambda g: ((tt(g, [3, 4, 2]), tt(g, [3, 4, 2])), {}))
C('mul_scalar', 'stab', lambda g: ((tt(g, [3, 4, 2]), tt(g, [3, 4, 2])),
    dict(use_stab=True)))
C('outer', 'two', lambda g: ((tt(g, [3, 2]), tt(g, [2, 4])), {}))

# ---- props / transformation -------------------------------------------------------
for _p in ('erank', 'ranks', 'shape', 'size'):
    C(_p, 'tt', lambda g: ((tt(g),), {}))
    C(_p, 'd2', lambda g: ((tt(g, [3, 4]),), {}))
C('full', 'd3', lambda g: ((tt(g, [3, 4, 2]),), {}))
C('full', 'd2', lambda g: ((tt(g, [3, 4]),), {}))
C('full', 'd1', lambda g: (([g.normal(size=(1, 4, 1))],), {}))
C('full_matrix', 'q3', lambda g: ((tt(g, [4, 4, 4]),), {}))
C('full_matrix', 'q1', lambda g: (([g.normal(size=(1, 4, 1))],), {}))
C('orthogonalize', 'default', lambda g: ((tt(g, [3, 4, 2]),), {}))
C('orthogonalize', 'k0', lambda g: ((tt(g, [3, 4, 2]), 0), {}))
C('orthogonalize', 'k1-stab', lambda g: ((tt(g, [3, 4, 2]), 1, True), {}))
C('orthogonalize_left', 'copy', lambda g: ((tt(g, [3, 4, 2]), 0), {}))
C('orthogonalize_left', 'inplace', lambda g: ((tt(g, [3, 4, 2, 3]), 1),
    dict(inplace=True)), inplace=(1, 2))
C('orthogonalize_left', 'copy-flag-numpy-false', lambda g: ((tt(g, [3, 4, 2]),
    0, np.False_), {}))
C('orthogonalize_left', 'copy-flag-zero', lambda g: ((tt(g, [3, 4, 2]), 1),
    dict(inplace=0)))
C('orthogonalize_right', 'copy-flag-numpy-false', lambda g: ((tt(g, [3, 4, 2]),
    2), dict(inplace=np.bool_(False))))
C('orthogonalize_right', 'copy-flag-zero', lambda g: ((tt(g, [3, 4, 2]), 1, 0),
    {}))
C('orthogonalize_right', 'copy', lambda g: ((tt(g, [3, 4, 2]), 2), {}))
C('orthogonalize_right', 'inplace', lambda g: ((tt(g, [3, 4, 2, 3]), 2, True),
    {}), inplace=(2, 1))
C('truncate', 'default', lambda g: ((tt(g, [3, 4, 2], 3),), {}))
def _decay(Y, q=1e-4):
    for G in Y:
        G *= (q ** np.arange(G.shape[2]))[None, None, :]
    return Y


C('truncate', 'default-decaying-spectrum', lambda g: ((_decay(tt(g, [4, 5, 4],
    3)),), {}))
C('truncate', 'e-decaying-spectrum', lambda g: ((_decay(tt(g, [4, 5, 4], 3)),
    1e-6), {}))
C('truncate', 'svd-mode', lambda g: ((tt(g, [3, 4, 2], 3), 1e-2, 2), dict(
    is_eigh=False)))
C('truncate', 'stab', lambda g: ((tt(g, [3, 4, 2], 3), 1e-2), dict(
    use_stab=True)))
C('truncate', 'no-orth', lambda g: ((tt(g, [3, 4, 2], 3), 1e-2), dict(
    orth=False)))

# ---- core --------------------------------------------------------------------------
C('core_dot', 'ltr', lambda g: ((g.normal(size=(2, 3, 4)), g.normal(size=(4, 2))), {}))
C('core_dot', 'rtl', lambda g: ((g.normal(size=(2, 3, 4)), g.normal(size=(3, 2)),
    False), {}))
C('core_dot', 'number', lambda g: ((g.normal(size=(2, 3, 1)), 2.5), {}))
C('core_dot_inv', 'ltr', lambda g: ((g.normal(size=(2, 3, 3)),
    g.normal(size=(3, 3)) + 3 * np.eye(3)), {}))
C('core_dot_inv', 'rtl', lambda g: ((g.normal(size=(3, 3, 2)),
    g.normal(size=(3, 3)) + 3 * np.eye(3)), dict(ltr=False)))
C('core_dot_maxvol', 'ltr', lambda g: ((g.normal(size=(2, 4, 2)),
    g.normal(size=(2, 2))), {}))
C('core_dot_maxvol', 'ind-rtl', lambda g: ((g.normal(size=(2, 4, 2)),
    g.normal(size=(2, 2)), np.array([0, 3]), False), {}))
C('core_qr_rand', 'ltr', lambda g: ((g.normal(size=(2, 4, 2)), 2), dict(
    seed=seed_kw(g))), seeded=True)
C('core_qr_rand', 'rtl', lambda g: ((g.normal(size=(2, 4, 2)), 1, False), dict(
    seed=seed_kw(g))), seeded=True)
C('core_qtt_to_tt', 'three', lambda g: (([g.normal(size=(2, 2, 3)),
    g.normal(size=(3, 2, 2)), g.normal(size=(2, 2, 1))],), {}))
C('core_qtt_to_tt', 'one', lambda g: (([g.normal(size=(2, 2, 3))],), {}))
C('core_stab', 'scaled', lambda g: ((g.normal(size=(2, 3, 2)) * 1e10,), {}))
C('core_stab', 'below-threshold', lambda g: ((g.normal(size=(2, 3, 2)) * 1e-120,
    3), {}), passthrough=True)
C('core_stab', 'custom-thr', lambda g: ((g.normal(size=(2, 3, 2)), 1, 1e-3), {}))
C('core_tt_to_qtt', 'default', lambda g: ((g.normal(size=(2, 8, 3)),), {}))
C('core_tt_to_qtt', 'e-r', lambda g: ((g.normal(size=(2, 4, 3)), 1e-3, 2), {}))

# ---- svd / maxvol -------------------------------------------------------------------
C('matrix_skeleton', 'default', lambda g: ((g.normal(size=(5, 7)),), {}))
for _gt in ('l', 'm', 'r'):
    C('matrix_skeleton', f'give_to-{_gt}', lambda g, _gt=_gt: ((
        g.normal(size=(6, 4)), 1e-1, 3), dict(rel=True, give_to=_gt)))
C('matrix_skeleton', 'hermitian', lambda g: (((lambda a: a + a.T)(
    g.normal(size=(4, 4))), 1e-8, 3, True), {}))
# rank cap far below the matrix size (a partial / iterative factorisation
# would be tempting here)
C('matrix_skeleton', 'big-small-cap', lambda g: ((g.normal(size=(120, 90)),
    1e-10, 3), {}))
C('matrix_skeleton', 'big-small-cap-rel', lambda g: ((g.normal(size=(64, 200)),
    1e-3, 2), dict(rel=True, give_to='r')))
C('matrix_svd', 'big-small-cap', lambda g: ((g.normal(size=(150, 80)), 1e-10,
    2), {}))
C('svd', 'big-small-cap', lambda g: ((g.normal(size=(40, 40, 6)), 1e-10, 2),
    {}))
C('truncate', 'big-modes-small-cap', lambda g: ((tt(g, [30, 40, 30], 12), 1e-10,
    2), dict(is_eigh=False)), heavy=True)
C('matrix_svd', 'wide', lambda g: ((g.normal(size=(4, 7)), 1e-2, 3), {}))
C('matrix_svd', 'tall', lambda g: ((g.normal(size=(7, 4)),), {}))
C('svd', 'd3', lambda g: ((g.normal(size=(3, 4, 2)), 1e-2), {}))
C('svd', 'd1', lambda g: ((g.normal(size=5),), {}))
C('svd', 'cap', lambda g: ((g.normal(size=(3, 4, 2, 2)), 1e-10, 2), {}))
C('svd_matrix', 'q2', lambda g: ((g.normal(size=(4, 4)), 1e-10), {}))
C('svd_matrix', 'q3-cap', lambda g: ((g.normal(size=(8, 8)), 1e-3, 3), {}))


def _svd_inc(g):
    import teneva
    n = [4, 5, 4]
    Y = tt(g, n, 2)
    I, ix, im = teneva.sample_tt(n, 3, seed=seed_kw(g))
    y = teneva.get_many(Y, I)
    return (I, y, ix, im), dict(e=1e-10, r=3)


C('svd_incomplete', 'rank2', _svd_inc)
C('maxvol', 'default', lambda g: ((g.normal(size=(9, 3)),), {}))
C('maxvol', 'e-k', lambda g: ((g.normal(size=(9, 3)), 1.01, 5), {}))
C('maxvol_rect', 'default', lambda g: ((g.normal(size=(9, 3)),), {}))
C('maxvol_rect', 'dr', lambda g: ((g.normal(size=(9, 3)), 1.1, 1, 3, 1.05, 10), {}))
C('_maxvol', 'tall', lambda g: ((g.normal(size=(9, 3)), 1.1, 1, 2), {}))
C('_maxvol', 'square', lambda g: ((g.normal(size=(3, 3)),), {}))

# ---- tensors / vectors / matrices ---------------------------------------------------
C('const', 'plain', lambda g: (([3, 4, 2], 2.5), {}))
C('const', 'array-n', lambda g: ((np.array([3, 4, 2]), -1.5), {}))
C('const', 'zeros', lambda g: (([3, 4, 2], 2.), dict(I_zero=[[0, 1, 1],
    [2, 3, 0]], i_non_zero=[1, 1, 1])))
C('const', 'zeros-arrays', lambda g: (([3, 4, 2], 2., np.array([[0, 1, 1],
    [2, 3, 0]]), np.array([1, 1, 1])), {}))
C('delta', 'list', lambda g: (([3, 4, 2], [1, 2, 0], 3.), {}))
C('delta', 'arrays', lambda g: ((np.array([3, 4, 2]), np.array([2, 0, 1])), {}))
C('poly', 'scalar-shift', lambda g: (([3, 4, 2], 0.5, 3, 2.), {}))
C('poly', 'vector-shift', lambda g: (([3, 4, 2], np.array([0.5, -1., 2.])),
    dict(power=2)))
C('rand', 'int-rank', lambda g: (([3, 4, 2], 2), dict(seed=seed_kw(g))),
    seeded=True)
C('rand', 'ranks-limits', lambda g: ((np.array([3, 4, 2]), [1, 2, 3, 1], -2.,
    3.), dict(seed=seed_kw(g))), seeded=True)
C('rand_norm', 'int-rank', lambda g: (([3, 4, 2], 2), dict(seed=seed_kw(g))),
    seeded=True)
C('rand_norm', 'ranks-m-s', lambda g: (([3, 4, 2], np.array([1, 2, 3, 1]), 1.,
    0.5), dict(seed=seed_kw(g))), seeded=True)
C('rand_stab', 'int-rank', lambda g: (([3, 4, 2], 2), dict(seed=seed_kw(g))),
    seeded=True)
C('rand_stab', 'ranks-noise', lambda g: (([3, 4, 2], [1, 2, 3, 1], 1e-3),
    dict(seed=seed_kw(g))), seeded=True)
C('rand_custom', 'user-f', lambda g: (([3, 4, 2], 2, lambda sz: np.arange(sz)
    * 1.), {}))
C('vector_delta', 'pos', lambda g: ((3, 5, 2.), {}))
C('vector_delta', 'neg', lambda g: ((3, -2), {}))
C('matrix_delta', 'pos', lambda g: ((3, 5, 2, 2.), {}))
C('matrix_delta', 'neg', lambda g: ((2, -1, -3), {}))

# ---- grid / stat ---------------------------------------------------------------------
C('grid_flat', 'list', lambda g: (([3, 2, 4],), {}))
C('grid_flat', 'array', lambda g: ((np.array([3, 2]),), {}))
C('grid_prep_opt', 'scalar', lambda g: ((2.5, 3), {}))
C('grid_prep_opt', 'array', lambda g: ((np.array([1., 2., 3.]),), {}),
    passthrough=True)
C('grid_prep_opt', 'list-int-reps', lambda g: (([1, 2, 3], None, int, 4), {}),
    passthrough=True)
C('grid_prep_opts', 'scalars', lambda g: ((-1., 2., 5, 3), {}), passthrough=True)
C('grid_prep_opts', 'arrays', lambda g: ((np.array([-1., 0.]), np.array([1., 2.]),
    np.array([4, 5])), {}), passthrough=True)
C('grid_prep_opts', 'reps', lambda g: (([-1., 0.], 2., [4, 5], None, 3), {}),
    passthrough=True)
C('ind_qtt_to_tt', 'batch', lambda g: ((g.integers(0, 2, size=(5, 6)), 3), {}))
C('ind_qtt_to_tt', 'single', lambda g: ((g.integers(0, 2, size=6).tolist(), 2), {}))
C('ind_tt_to_qtt', 'batch', lambda g: ((g.integers(0, 8, size=(5, 2)), 8), {}))
C('ind_tt_to_qtt', 'single', lambda g: ((np.array([3, 7, 0]), 8), {}))
for _kind in ('uni', 'cheb'):
    C('ind_to_poi', f'{_kind}-batch', lambda g, k=_kind: ((idx(g, [5, 6], 4),
        [-1., 0.], [1., 2.], [5, 6], k), {}))
    C('ind_to_poi', f'{_kind}-single-scalars', lambda g, k=_kind: ((
        np.array([2, 3]), -1., 2., 5), dict(kind=k)))
    C('poi_to_ind', f'{_kind}-batch', lambda g, k=_kind: ((g.uniform(-1, 2,
        size=(4, 2)), np.array([-1., 0.]), np.array([1., 2.]),
        np.array([5, 6]), k), {}))
    C('poi_to_ind', f'{_kind}-single', lambda g, k=_kind: (([0.3, 1.2], -1., 2.,
        5), dict(kind=k)))
    C('poi_scale', f'{_kind}', lambda g, k=_kind: ((g.uniform(-2, 3, size=(4, 2)),
        [-1., 0.], [1., 2.], k), {}))
C('poi_scale', 'custom-limits', lambda g: ((g.uniform(-2, 3, size=(4, 2)), -1.,
    2., (0.5, 3.)), {}))
C('poi_scale', 'single', lambda g: ((np.array([0.2, 1.5]), -1., 2.), {}))
C('cdf_confidence', 'default', lambda g: ((g.normal(size=20),), {}))
C('cdf_confidence', 'alpha', lambda g: ((g.normal(size=20), 0.1), {}))
C('cdf_getter', 'array', lambda g: ((g.normal(size=15),), {}),
    runner=lambda t, a, k: (lambda f: [f(0.1), f(np.array([-1., 0., 1.]))])(
        t.cdf_getter(*a, **k)))
# the getter itself is the result (arrays captured in its closure count)
C('cdf_getter', 'function-sorted-array', lambda g: ((np.sort(g.normal(
    size=12)),), {}))
C('cdf_getter', 'function-sorted-ties', lambda g: ((np.sort(np.round(g.normal(
    size=12), 0)),), {}))
C('cdf_getter', 'function-unsorted', lambda g: ((g.normal(size=12),), {}))
C('cdf_getter', 'list', lambda g: ((g.normal(size=9).tolist(),), {}),
    runner=lambda t, a, k: (lambda f: f(0.))(t.cdf_getter(*a, **k)))

# ---- func / func_full ------------------------------------------------------------------
C('func_basis', 'points', lambda g: ((g.uniform(-1, 1, size=(5, 3)), 4), {}))
C('func_diff_matrix', 'scalars', lambda g: ((-1., 2., 5), {}))
C('func_diff_matrix', 'm2', lambda g: ((0., 3., 6, 2), {}))
C('func_diff_matrix', 'sin', lambda g: ((0., 3., 6), dict(kind='sin')))
C('func_diff_matrix_apply', 'sin', lambda g: ((tt(g, [4, 4]),
    np.diag(g.normal(size=4)), 'sin'), {}))
C('func_diff_matrix_apply', 'cheb-draft', lambda g: ((tt(g, [4, 4]),
    g.normal(size=(4, 4))), {}), raises=NotImplementedError)
C('func_get', 'batch', lambda g: ((g.uniform(-1, 2, size=(6, 3)),
    tt(g, [4, 5, 3]), [-1., -1., 0.], [2., 2., 2.]), {}))
C('func_get', 'single-z', lambda g: ((np.array([0.1, 5., 0.3]), tt(g, [4, 5, 3]),
    -1., 2., -7.), {}))
C('func_get', 'skip_out', lambda g: ((g.uniform(-3, 3, size=(6, 2)),
    tt(g, [4, 5]), -1., 2.), dict(skip_out=False)))
C('func_get', 'no-box', lambda g: ((g.uniform(-1, 1, size=(6, 2)),
    tt(g, [4, 5])), {}))
C('func_gets', 'same', lambda g: ((tt(g, [4, 5, 3]),), {}))
C('func_gets', 'm-list', lambda g: ((tt(g, [4, 5, 3]), [6, 3, 4]), {}))
C('func_gets', 'm-int', lambda g: ((tt(g, [4, 5, 3]), 5), {}))
C('func_gets', 'sin-same', lambda g: ((tt(g, [4, 5, 3]),), dict(kind='sin')))
C('func_gets', 'sin-m-list', lambda g: ((tt(g, [4, 5, 3]), [6, 3, 4], 'sin'), {}))
C('func_gets', 'sin-m-int', lambda g: ((tt(g, [4, 5, 3]), 5), dict(kind='sin')))
C('func_int', 'cheb', lambda g: ((tt(g, [4, 5, 3]),), {}))
C('func_int', 'sin', lambda g: ((tt(g, [4, 5, 3]), 'sin'), {}))
C('func_int_general', 'cheb-basis', lambda g: ((tt(g, [4, 4, 4]),
    np.cos(np.pi * np.arange(4) / 3), lambda x: np.array(
    [np.cos(j * np.arccos(np.clip(x, -1, 1))) for j in range(4)])), {}))
C('func_int_general', 'rank1', lambda g: ((tt(g, [3, 3], 1),
    np.array([-0.9, 0.1, 0.8]), lambda x: np.array([x ** j for j in range(3)])),
    dict(rcond=1e-8)))
C('func_sum', 'box', lambda g: ((tt(g, [4, 5, 3]), [-1., 0., -2.], [1., 2., 2.]), {}))
C('func_sum', 'scalars', lambda g: ((tt(g, [4, 5]), -1., 2.), {}))
C('func_get_full', 'batch', lambda g: ((g.uniform(-1, 2, size=(6, 2)),
    g.normal(size=(4, 5)), [-1., -1.], [2., 2.]), {}))
C('func_get_full', 'z-noskip', lambda g: ((g.uniform(-3, 3, size=(6, 2)),
    g.normal(size=(4, 5)), -1., 2., -3., False), {}))
C('func_gets_full', 'same', lambda g: ((g.normal(size=(4, 5)), [-1., -1.],
    [2., 2.]), {}))
C('func_gets_full', 'm', lambda g: ((g.normal(size=(4, 5)), -1., 2., [6, 3]), {}))
C('func_int_full', 'd2', lambda g: ((g.normal(size=(4, 5)),), {}))
C('func_int_full', 'd1', lambda g: ((g.normal(size=5),), {}))
C('func_sum_full', 'symmetric', lambda g: ((g.normal(size=(4, 5)), -2., 2.), {}))

# ---- sampling -----------------------------------------------------------------------------
C('sample', 'default', lambda g: ((tt(g, [3, 4, 2], pos=True), 6), dict(
    seed=seed_kw(g))), seeded=True)
C('sample', 'unsert0', lambda g: ((tt(g, [3, 4, 2], pos=True), 3,
    seed_kw(g), 0.), {}), seeded=True)
def _null_slice_tt(g):
    # non-negative tensor with an all-zero first-mode slice and a total mass
    # comparable to `unsert`: zero-mass prefixes are really drawn
    Y = tt(g, [3, 4, 2], pos=True)
    Y[0][:, int(g.integers(3)), :] = 0.
    Y[0] *= 1e-10
    return Y


C('sample', 'null-slice', lambda g: ((_null_slice_tt(g), 40), dict(
    seed=seed_kw(g))), seeded=True)
C('sample_square', 'unique', lambda g: ((tt(g, [3, 4, 2]), 5), dict(
    seed=seed_kw(g))), seeded=True)
C('sample_square', 'unique-many', lambda g: ((tt(g, [6, 6, 6, 6], 2), 250),
    dict(seed=seed_kw(g))), seeded=True)
C('sample_square', 'not-unique', lambda g: ((tt(g, [3, 4, 2]), 5, False), dict(
    seed=seed_kw(g))), seeded=True)
C('sample_lhs', 'list', lambda g: (([3, 4, 2], 7), dict(seed=seed_kw(g))),
    seeded=True)
C('sample_lhs', 'array', lambda g: ((np.array([3, 4, 2]), 5, seed_kw(g)), {}),
    seeded=True)
C('sample_rand', 'list', lambda g: (([3, 4, 2], 7), dict(seed=seed_kw(g))),
    seeded=True)
C('sample_rand_poi', 'vectors', lambda g: (([-1., 0.], [1., 2.], 5), dict(
    seed=seed_kw(g))), seeded=True)
C('sample_rand_poi', 'arrays', lambda g: ((np.array([-1., 0.]),
    np.array([1., 2.]), 5, seed_kw(g)), {}), seeded=True)
C('sample_tt', 'default', lambda g: (([5, 6, 5],), dict(seed=seed_kw(g))),
    seeded=True)
C('sample_tt', 'r2', lambda g: ((np.array([4, 3, 4]), 2, seed_kw(g)), {}),
    seeded=True)
C('sample_func', 'rank2', lambda g: ((tt(g, [4, 3, 4], 2),), dict(
    seed=seed_kw(g))), seeded=True)

# ---- optimum search -----------------------------------------------------------------------
C('optima_tt', 'default', lambda g: ((tt(g, [3, 4, 2]),), {}))
C('optima_tt', 'k2', lambda g: ((tt(g, [3, 4, 2]), 2), {}))
C('optima_tt_max', 'k3', lambda g: ((tt(g, [3, 4, 2]), 3), {}))
C('optima_tt_beam', 'l2r', lambda g: ((tt(g, [3, 4, 2]), 4), {}))
C('optima_tt_beam', 'r2l-all', lambda g: ((tt(g, [3, 4, 2]), 4, False, True), {}))
C('optima_qtt', 'default', lambda g: ((tt(g, [4, 4, 4]),), {}))
C('optima_qtt', 'k-e-r', lambda g: ((tt(g, [4, 4]), 5, 1e-8, 4), {}))
for _how in ('l2r', 'r2l', 'both', 'smart'):
    C('optima_tt_maxvol', _how, lambda g, h=_how: ((tt(g, [4, 4, 4], 2), 5, h), {}))
C('optima_func_tt_beam', 'default', lambda g: ((tt(g, [4, 3, 4], 1),), {}))
C('optima_func_tt_beam', 'k-all', lambda g: ((tt(g, [4, 3, 4], 2), 3, 2, True), {}))

# ---- data ------------------------------------------------------------------------------------
C('accuracy_on_data', 'arrays', lambda g: ((tt(g, [3, 4, 2]),
    idx(g, [3, 4, 2], 8), g.normal(size=8)), {}))
C('accuracy_on_data', 'lists-trunc', lambda g: ((tt(g, [3, 4, 2], 3),
    idx(g, [3, 4, 2], 8).tolist(), g.normal(size=8).tolist(), 1e-2), {}))
C('accuracy_on_data', 'no-data', lambda g: ((tt(g), None, None), {}))
C('cache_to_data', 'dict', lambda g: (({(0, 1, 2): 1.5, (1, 0, 0): -2.},), {}))


# ---- fitting routines (callbacks, info, cache) ---------------------------------------------
def _cross(g, **kw):
    n = [3, 4, 3]
    T = tt(g, n, 2)
    Y0 = tt(g, n, 1)
    A = dense(T)

    def f(I):
        return A[tuple(np.asarray(I).T)]
    return (f, Y0), kw


C('cross', 'nswp', lambda g: _cross(g, nswp=2), heavy=True)
C('cross', 'm-cache-info', lambda g: _cross(g, m=200, cache={}, info={}),
    heavy=True)
C('cross', 'e-dr0', lambda g: _cross(g, e=1e-6, nswp=4, dr_min=0, dr_max=0,
    tau=1.2, tau0=1.1, k0=20), heavy=True)


def _cross_vld(g):
    (f, Y0), kw = _cross(g, nswp=2)
    I = idx(g, [3, 4, 3], 6)
    kw.update(I_vld=I, y_vld=f(I), e_vld=1e-12, cb=lambda Y, info, opts: None)
    return (f, Y0), kw


C('cross', 'vld-cb', _cross_vld, heavy=True)


def _cross_warm(g):
    # warm restart: the start tensor already reproduces the validation data
    # (it IS the target, as after a converged earlier run)
    n = [3, 4, 3]
    T = tt(g, n, 2)
    A = dense(T)

    def f(I):
        return A[tuple(np.asarray(I).T)]
    I = idx(g, n, 8)
    return (f, [G.copy() for G in T]), dict(nswp=2, I_vld=I, y_vld=f(I),
        e_vld=1e-6)


C('cross', 'warm-start-already-within-e_vld', _cross_warm, heavy=True)


def _cross_act(g):
    n = [3, 4, 3]
    X1, X2 = tt(g, n, 2), tt(g, n, 1)
    return (lambda X: X[:, 0] + 2 * X[:, 1], [X1, X2], tt(g, n, 1)), dict(
        nswp=2, seed=seed_kw(g))


C('cross_act', 'sum', _cross_act, seeded=True, heavy=True)


def _als(g, **kw):
    n = [3, 4, 3]
    I = covering_idx(g, n, 25)
    y = g.normal(size=len(I))
    return (I, y, tt(g, n, 2)), dict(nswp=2, **kw)


C('als', 'plain', lambda g: _als(g), heavy=True)
C('als', 'info-w', lambda g: (lambda a, k: (a, dict(k, info={},
    w=g.uniform(0.5, 2, size=len(a[0])))))(*_als(g)), heavy=True)


def _als_vld(g):
    (I, y, Y0), kw = _als(g)
    Iv = idx(g, [3, 4, 3], 5)
    kw.update(I_vld=Iv, y_vld=g.normal(size=5), e_vld=1e-9,
        cb=lambda Y, info, opts: None, lamb=0.01)
    return (I.tolist(), y.tolist(), Y0), kw


C('als', 'vld-cb-lists', _als_vld, heavy=True)
C('als', 'adaptive', lambda g: _als(g, r=3, e_adap=1e-2), heavy=True)
# als(r=..., use_stab=True) unpacks nothing from orthogonalize's (Z, p) pair and
# raises AttributeError for every input (known finding of C07, key
# als-adaptive-use_stab-pair)
C('als', 'adaptive-stab', lambda g: _als(g, r=3, use_stab=True), heavy=True,
    raises=AttributeError)
def _als_swap(g):
    # full-grid data of a function in which modes 0 and 2 interact strongly
    # (the experimental option then really swaps neighbouring modes)
    # (equal mode sizes only: with unequal ones the unmodified routine can
    # raise IndexError after two successive swaps - its mode-order bookkeeping
    # for the validation set, outside every property, see DESIGN.md 8.7)
    n = [3, 3, 3, 3]
    I = np.array(list(np.ndindex(*n)), dtype=np.int64)
    if g.random() < 0.5:
        I = np.asfortranarray(I)
    J = I.astype(float)
    y = (np.cos(1.3 * J[:, 0] + 0.7 * J[:, 0] * J[:, 1]) + np.sin(J[:, 2]
        + J[:, 3] * J[:, 1]) + J[:, 0] * J[:, 3]) * (1 + 0.01 * g.normal())
    return (I, y, tt(g, n, 2)), dict(nswp=3, r=6, I_vld=I.copy(),
        y_vld=y.copy(), allow_swap=True, info={})


C('als', 'adaptive-swap', _als_swap, heavy=True)
def _als_mode1(g):
    # a mode of size 1 (all samples share its index) and no regularisation
    n = [3, 1, 4]
    I = covering_idx(g, n, 20)
    return (I, g.normal(size=len(I)), tt(g, n, 2)), dict(nswp=2, lamb=None)


C('als', 'mode1-unregularised', _als_mode1, heavy=True)
C('als', 'unregularised', lambda g: _als(g, lamb=None), heavy=True)
C('als', 'skip-cores', lambda g: (lambda a, k: ((a[0][a[0][:, 1] != 2],
    a[1][a[0][:, 1] != 2], a[2]), dict(k, allow_skip_cores=True)))(*_als(g)),
    heavy=True)


def _als_func(g, **kw):
    d, nm = 3, 4
    X = g.uniform(-1, 2, size=(30, d))
    return (X, g.normal(size=30), tt(g, [nm] * d, 2), -1., 2.), dict(nswp=2, **kw)


C('als_func', 'plain', lambda g: _als_func(g), heavy=True)
C('als_func', 'vld-info', lambda g: _als_func(g, X_vld=g.uniform(-1, 2,
    size=(5, 3)), y_vld=g.normal(size=5), e_vld=1e-9, info={}, lamb=0.01),
    heavy=True)


def _als_func_nmax(g, n, n_max, **kw):
    d = len(n)
    X = g.uniform(-1, 2, size=(30, d))
    return (X, g.normal(size=30), tt(g, n, 2), -1., 2.), dict(nswp=2,
        n_max=n_max, **kw)


C('als_func', 'n_max-above', lambda g: _als_func_nmax(g, [3, 3, 3], 5),
    heavy=True)
C('als_func', 'n_max-equal', lambda g: _als_func_nmax(g, [4, 4, 4], 4),
    heavy=True)
C('als_func', 'n_max-equal-one-mode', lambda g: _als_func_nmax(g, [3, 5, 3],
    5), heavy=True)
C('als_func', 'update_sol', lambda g: _als_func(g, lamb=0.1,
    update_sol=True), heavy=True)


def _anova(g, order=1, **kw):
    n = [3, 4, 3]
    I = covering_idx(g, n, 30)
    return (I, g.normal(size=len(I))), dict(order=order, seed=seed_kw(g), **kw)


C('anova', 'order1', lambda g: _anova(g, 1, r=2), seeded=True, heavy=True)
C('anova', 'order2', lambda g: _anova(g, 2, r=3, noise=1e-8), seeded=True,
    heavy=True)
C('anova', 'lists', lambda g: (lambda a, k: ((a[0].tolist(), a[1].tolist()), k))(
    *_anova(g, 1)), seeded=True, heavy=True)


def _run_ANOVA(t, a, k):
    cores_kw = k.pop('_cores', {})
    model = t.ANOVA(*a, **k)
    I = np.asarray(a[0])
    return [model(I[:4]), model[I[0]], model.calc(I[1]), model.cores(**cores_kw),
        model.sample(), model.max()]


C('ANOVA', 'order1-methods', lambda g: (lambda a, k: (a, dict(k,
    _cores=dict(r=2))))(*_anova(g, 1)), seeded=True, runner=_run_ANOVA,
    heavy=True)
C('ANOVA', 'order2-methods', lambda g: (lambda a, k: (a, dict(k,
    _cores=dict(r=3, noise=1e-8))))(*_anova(g, 2)), seeded=True,
    runner=_run_ANOVA, heavy=True)


def _run_fitted_then_scribbled(make, use):
    """Runner for fitted objects: the object is built, then the caller's
    training arrays are overwritten in place (the buffers are re-used), then
    the object is used.  It must behave like an object built from the
    original data and never touched: a fitted model owns its data."""
    def runner(t, a, k):
        import copy
        k = dict(k)
        extra = k.pop('_cores', {})
        a0, k0 = copy.deepcopy((a, k))
        fresh = use(make(t, a0, k0), a0, extra)
        obj = make(t, a, k)
        for x in a:
            if isinstance(x, np.ndarray) and x.flags.writeable and x.size:
                if x.dtype.kind == 'f':
                    x[...] = x[::-1].copy() * 3. + 1.
                elif x.dtype.kind in 'iu':
                    x[...] = x[::-1].copy()
        got = use(obj, a0, extra)
        for x, x0 in zip(a, a0):         # hand the caller's buffers back
            if isinstance(x, np.ndarray) and x.flags.writeable and x.size:
                x[...] = x0
        from tvmon import sanit as _s
        if _s.canon_hash(got) != _s.canon_hash(fresh):
            raise RuntimeError('a fitted object follows later in-place writes '
                'to the arrays it was built from (it kept references to the '
                "caller's training data)")
        return got
    return runner


def _use_anova(model, a, cores_kw):
    I = np.asarray(a[0])
    return [model(I[:4]), model.calc(I[1]), model.cores(**cores_kw)]


C('ANOVA', 'order2-buffers-reused', lambda g: (lambda a, k: (a, dict(k, seed=5,
    _cores=dict(r=3, noise=0.))))(*_anova(g, 2)), runner=
    _run_fitted_then_scribbled(lambda t, a, k: t.ANOVA(*a, **k), _use_anova),
    heavy=True)
C('ANOVA', 'order1-buffers-reused', lambda g: (lambda a, k: (a, dict(k, seed=5,
    _cores=dict(r=2, noise=0.))))(*_anova(g, 1)), runner=
    _run_fitted_then_scribbled(lambda t, a, k: t.ANOVA(*a, **k), _use_anova),
    heavy=True)
C('ANOVA_func', 'buffers-reused', lambda g: _anova_func(g), runner=
    _run_fitted_then_scribbled(lambda t, a, k: t.ANOVA_func(*a, **k),
    lambda m, a, ex: [m.cores(), m.cores(e=1e-4)]), heavy=True)


def _anova_func(g):
    X = g.uniform(-1, 2, size=(40, 3))
    return (X, g.normal(size=40), 4, -1., 2.), {}


C('anova_func', 'default', _anova_func, heavy=True)
C('anova_func', 'lamb-e', lambda g: (lambda a, k: (a + (1e-3, 1e-6), k))(
    *_anova_func(g)), heavy=True)
C('ANOVA_func', 'cores', _anova_func, runner=lambda t, a, k: (lambda m: [
    m.cores(), m.cores(e=1e-4)])(t.ANOVA_func(*a, **k)), heavy=True)

# ---- vis / private helpers ------------------------------------------------------------------


def _show(t, a, k):
    buf = io.StringIO()
    with contextlib.redirect_stdout(buf):
        t.show(*a, **k)
    return buf.getvalue()


C('show', 'tt', lambda g: ((tt(g, [3, 4, 2]),), {}), runner=_show)
C('_info_appr', 'dict', lambda g: ((0., 5, 1e-2, None), dict(info={'stop': None,
    'e': 1e-3, 'e_vld': -1, 'nswp': 2, 'r': 2., 'm': 10})),
    runner=lambda t, a, k: t._info_appr(k['info'], *a))
C('_is_num', 'values', lambda g: ((g.normal(size=3),), {}))
C('_ones', 'k-m', lambda g: ((3, 2), {}))
C('_rand', 'int', lambda g: ((seed_kw(g),), {}))
C('_range', 'n', lambda g: ((4,), {}))
C('_reshape', 'array', lambda g: ((g.normal(size=(3, 4)), (4, 3)), {}),
    passthrough=True)
C('_vector_index_expand', 'pos', lambda g: ((4, 11), {}))
C('_vector_index_prepare', 'neg', lambda g: ((4, -3), {}))


# ---- systematic flag combinations (beyond the hand-written shapes above) -----------------
import itertools as _it

for _o, _s, _e in _it.product([True, False], [True, False], [True, False]):
    C('truncate', f'flags-orth{int(_o)}-stab{int(_s)}-eigh{int(_e)}',
        lambda g, o=_o, s_=_s, e_=_e: ((_decay(tt(g, [3, 4, 3], 3), 1e-2), 1e-3,
        2), dict(orth=o, use_stab=s_, is_eigh=e_)))
# a one-core tensor: no bond to truncate, every flag path must still hand out
# a new array (seeded change C09p: list(Y) instead of copy(Y) for orth=False)
for _o, _s in _it.product([True, False], [True, False]):
    C('truncate', f'one-core-orth{int(_o)}-stab{int(_s)}',
        lambda g, o=_o, s_=_s: (([g.normal(size=(1, 5, 1))], 1e-3),
        dict(orth=o, use_stab=s_)))
for _P, _i, _n, _l in _it.product([0, 1], [0, 1], [None, 'l', 'n'], [False, True]):
    C('interface', f'flags-P{_P}-i{_i}-{_n}-ltr{int(_l)}',
        lambda g, P=_P, i=_i, n=_n, l=_l: ((tt(g, [3, 4, 2]),), dict(
        P=[g.uniform(size=3), g.uniform(size=4), g.uniform(size=2)] if P
        else None, i=np.array([1, 3, 0]) if i else None, norm=n, ltr=l)))
for _k, _s in _it.product([0, 1, 2, None], [False, True]):
    C('orthogonalize', f'flags-k{_k}-stab{int(_s)}', lambda g, k=_k, s_=_s: ((
        tt(g, [3, 4, 2]),), dict(k=k, use_stab=s_)))
for _l, _a in _it.product([True, False], [True, False]):
    C('optima_tt_beam', f'flags-l2r{int(_l)}-all{int(_a)}', lambda g, l=_l, a=_a:
        ((tt(g, [3, 4, 2]),), dict(k=3, l2r=l, ret_all=a)))
for _u in (True, False):
    C('sample_square', f'flags-unique{int(_u)}-m1', lambda g, u=_u: ((
        tt(g, [3, 4, 2]), 1, u), dict(seed=seed_kw(g))), seeded=True)
for _c, _v, _dr in _it.product([False, True], [False, True], [(0, 0), (1, 2)]):
    def _cr(g, c=_c, v=_v, dr=_dr):
        (f, Y0), kw = _cross(g, nswp=2, dr_min=dr[0], dr_max=dr[1])
        if c:
            kw['cache'] = {}
        if v:
            I = idx(g, [3, 4, 3], 5)
            kw.update(I_vld=I, y_vld=f(I))
        return (f, Y0), kw
    C('cross', f'flags-cache{int(_c)}-vld{int(_v)}-dr{_dr[0]}{_dr[1]}', _cr,
        heavy=True)
for _ord, _nz in _it.product([1, 2], [0., 1e-6]):
    C('anova', f'flags-order{_ord}-noise{_nz}', lambda g, o=_ord, z=_nz:
        _anova(g, o, r=3, noise=z), seeded=True, heavy=True)
for _sk in (None, True, False):
    C('func_get', f'flags-skip_out-{_sk}', lambda g, sk=_sk: ((g.uniform(-3, 3,
        size=(6, 2)), tt(g, [4, 5]), [-1., 0.], [2., 2.]), dict(z=1.5,
        skip_out=sk)))
for _lt in (True, False):
    C('core_dot_maxvol', f'flags-ltr{int(_lt)}', lambda g, lt=_lt: ((
        g.normal(size=(2, 4, 2)), g.normal(size=(2, 2))), dict(ltr=lt)))
for _h in (False, True):
    for _rel in (False, True):
        C('matrix_skeleton', f'flags-herm{int(_h)}-rel{int(_rel)}',
            lambda g, h=_h, r_=_rel: (((lambda a: a + a.T)(g.normal(size=(5, 5))),
            1e-2, 4), dict(hermitian=h, rel=r_)))


# grid functions: every option as scalar / list / ndarray, single point and batch
for _kind in ('uni', 'cheb'):
    for _form in ('list', 'array'):
        def _opts(g, form=_form):
            a, b, n = [-1., 0., -2.], [1., 2., 3.], [5, 7, 4]
            if form == 'array':
                return np.array(a), np.array(b), np.array(n)
            return a, b, n
        C('poi_to_ind', f'{_kind}-single-opts-{_form}', lambda g, k=_kind,
            o=_opts: ((np.array([0.3, 1.2, 0.]),) + o(g) + (k,), {}))
        C('poi_to_ind', f'{_kind}-single-list-opts-{_form}', lambda g, k=_kind,
            o=_opts: (([0.3, 1.2, 0.],) + o(g), dict(kind=k)))
        C('ind_to_poi', f'{_kind}-single-opts-{_form}', lambda g, k=_kind,
            o=_opts: ((np.array([2, 6, 1]),) + o(g) + (k,), {}))
        C('ind_to_poi', f'{_kind}-batch-opts-{_form}', lambda g, k=_kind,
            o=_opts: ((idx(g, [5, 7, 4], 6),) + o(g) + (k,), {}))
        C('poi_scale', f'{_kind}-single-opts-{_form}', lambda g, k=_kind,
            o=_opts: ((np.array([0.3, 1.2, 0.]),) + o(g)[:2] + (k,), {}))
C('grid_prep_opts', 'int-array-reps', lambda g: ((None, None, np.array([4, 5]),
    2, 3), {}), passthrough=True)
C('func_get', 'single-array-box', lambda g: ((np.array([0.1, 1.5]),
    tt(g, [4, 5]), np.array([-1., 0.]), np.array([2., 2.])), {}))
C('func_sum', 'array-box', lambda g: ((tt(g, [4, 5]), np.array([-1., 0.]),
    np.array([1., 2.])), {}))
C('sample_rand_poi', 'single-sample', lambda g: ((np.array([-1., 0.]),
    np.array([1., 2.]), 1), dict(seed=seed_kw(g))), seeded=True)


# sample_square: the rarely taken restart path (too few distinct rows drawn)
def _peaked(g):
    Y = [np.array([[[1.], [0.3]]]), np.array([[[1.], [0.3]]]),
        np.array([[[1.], [0.3]]])]
    return [G * g.uniform(0.9, 1.1) for G in Y]


C('sample_square', 'unique-restart', lambda g: ((_peaked(g), 7), dict(
    seed=seed_kw(g))), seeded=True)
C('sample_square', 'unique-all-entries', lambda g: ((_peaked(g), 8, True), dict(
    seed=seed_kw(g))), seeded=True)


def names():
    return sorted({c.name for c in CALLS})
