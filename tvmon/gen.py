"""tvmon.gen: input generators (independent of the library under test)."""
import math

import numpy as np


FAMILIES = ['generic', 'generic', 'rank1', 'overrank', 'deficient', 'mode1',
    'int', 'd2', 'decay', 'scaled']


def rand_shape(rng, dmin=2, dmax=5, nmin=1, nmax=5):
    d = int(rng.integers(dmin, dmax + 1))
    return [int(rng.integers(nmin, nmax + 1)) for _ in range(d)]


def rand_ranks(rng, d, rmax=4, rmin=1):
    return [1] + [int(rng.integers(rmin, rmax + 1)) for _ in range(d - 1)] + [1]


def cores(rng, n, r, kind='normal'):
    Y = []
    for k in range(len(n)):
        sh = (r[k], n[k], r[k + 1])
        if kind == 'normal':
            G = rng.normal(size=sh)
        elif kind == 'uniform':
            G = rng.uniform(-1, 1, size=sh)
        elif kind == 'int':
            G = rng.integers(-3, 4, size=sh).astype(float)
        elif kind == 'pos':
            G = rng.uniform(0.1, 1, size=sh)
        else:
            raise ValueError(kind)
        Y.append(np.ascontiguousarray(G, dtype=float))
    return Y


def make_tt(rng, family=None, dmin=2, dmax=5, nmin=1, nmax=5, rmax=4,
            max_entries=4000):
    """Random TT from a named family; returns (Y, info)."""
    family = family or FAMILIES[int(rng.integers(len(FAMILIES)))]
    for _ in range(100):
        if family == 'd2':
            n = rand_shape(rng, 2, 2, nmin, nmax + 2)
        elif family == 'mode1':
            n = rand_shape(rng, dmin, dmax, max(nmin, 1), nmax)
            for k in rng.choice(len(n), size=int(rng.integers(1, len(n) + 1)),
                    replace=False):
                n[int(k)] = 1
            if nmin > 1:
                n = [max(x, nmin) for x in n]
        else:
            n = rand_shape(rng, dmin, dmax, nmin, nmax)
        if int(np.prod(n)) <= max_entries:
            break
    d = len(n)
    kind = 'normal'
    if family == 'rank1':
        r = [1] * (d + 1)
    elif family == 'overrank':
        r = rand_ranks(rng, d, rmax + 3, 2)
    else:
        r = rand_ranks(rng, d, rmax)
    if family == 'int':
        kind = 'int'
    Y = cores(rng, n, r, kind)
    if family == 'deficient':
        # duplicate / zero columns so unfoldings are rank deficient
        for k in range(d - 1):
            G = Y[k]
            if G.shape[2] >= 2:
                if rng.random() < 0.5:
                    G[:, :, -1] = G[:, :, 0]
                else:
                    G[:, :, -1] = 0.
    elif family == 'decay':
        for G in Y:
            G *= (0.3 ** np.arange(G.shape[2]))[None, None, :]
    elif family == 'scaled':
        k = int(rng.integers(d))
        Y[k] *= 10.0 ** int(rng.integers(-6, 7))
    return Y, {'family': family, 'n': n, 'r': r}


def exact_rank_tt(rng, n, rho):
    """TT with continuous random cores and ranks min(rho, what fits)."""
    d = len(n)
    r = [1]
    for k in range(d - 1):
        left = math.prod(int(x) for x in n[:k + 1])     # exact (Python ints)
        right = math.prod(int(x) for x in n[k + 1:])
        r.append(int(min(rho, left, right)))
    r.append(1)
    return cores(rng, n, r, 'normal'), r


def layouts(A, rng=None):
    """Memory layouts of an array: C, F, strided view, read-only copy."""
    A = np.asarray(A)
    out = {'C': np.ascontiguousarray(A).copy()}
    out['F'] = np.array(A, order='F', copy=True) if A.ndim > 1 else A.copy()
    big = np.zeros(tuple(2 * s for s in A.shape), dtype=A.dtype)
    view = big[tuple(slice(None, None, 2) for _ in A.shape)]
    view[...] = A
    out['strided'] = view
    ro = np.ascontiguousarray(A).copy()
    ro.setflags(write=False)
    out['readonly'] = ro
    return out
