"""tvmon.sanit: Python-level sanitizer analogues.

* Snapshot: byte image + container structure of everything reachable from the
  arguments (write-protection analogue, decides "argument not modified").
* aliases(): np.shares_memory between arrays of a result and of the arguments.
* Poison: numpy.empty / empty_like return NaN- or garbage-filled memory
  (MSan analogue for reads of uninitialised buffers).
* RngWatch: global legacy generator state + counters on numpy.random entry
  points used by teneva frames.
* canon(): canonical byte encoding of a result for bitwise comparisons.
"""
import pickle
import sys

import numpy as np


def walk_arrays(o, path='', out=None, seen=None, depth=0):
    """Yield (path, ndarray) for arrays reachable through lists/tuples/dicts."""
    if out is None:
        out, seen = [], set()
    if id(o) in seen or depth > 6:
        return out
    if isinstance(o, np.ndarray):
        seen.add(id(o))
        out.append((path, o))
        if o.dtype == object:
            for j, x in enumerate(o.reshape(-1)[:50]):
                walk_arrays(x, f'{path}<{j}>', out, seen, depth + 1)
    elif isinstance(o, (list, tuple)):
        seen.add(id(o))
        for j, x in enumerate(o):
            walk_arrays(x, f'{path}[{j}]', out, seen, depth + 1)
    elif isinstance(o, dict):
        seen.add(id(o))
        for k, x in o.items():
            walk_arrays(x, f'{path}[{k!r}]', out, seen, depth + 1)
    elif hasattr(o, '__dict__') and type(o).__module__.startswith('teneva'):
        seen.add(id(o))
        walk_arrays(vars(o), f'{path}.', out, seen, depth + 1)
    elif callable(o) and getattr(o, '__closure__', None) and \
            str(getattr(o, '__module__', '')).startswith('teneva'):
        # a function handed back by the library (cdf_getter, getter): the
        # arrays captured in its closure are part of the result
        seen.add(id(o))
        for j, cell in enumerate(o.__closure__):
            try:
                walk_arrays(cell.cell_contents, f'{path}<closure {j}>', out,
                    seen, depth + 1)
            except ValueError:
                pass
    return out


def struct(o, depth=0):
    """Container structure incl. element identity (list length, ids)."""
    if depth > 6:
        return None
    if isinstance(o, np.ndarray):
        return ('a', id(o), o.shape, o.dtype.str)
    if isinstance(o, (list, tuple)):
        return (type(o).__name__, id(o), tuple(struct(x, depth + 1) for x in o))
    if isinstance(o, dict):
        return ('d', id(o), tuple((repr(k), struct(v, depth + 1))
            for k, v in o.items()))
    if isinstance(o, (int, float, str, bool, type(None))):
        return ('v', repr(o))
    return ('o', id(o))


class Snapshot:
    def __init__(self, obj):
        self.obj = obj
        self.struct = struct(obj)
        self.arrs = [(p, a, a.shape, a.dtype.str, a.strides, a.tobytes()
            if a.dtype != object else None) for p, a in walk_arrays(obj)]

    def diff(self, allow=None):
        """List of human-readable differences now vs. snapshot time."""
        out = []
        for p, a, sh, dt, st, b in self.arrs:
            if allow and allow(p):
                continue
            if a.shape != sh or a.dtype.str != dt:
                out.append(f'{p}: shape/dtype {sh},{dt} -> {a.shape},{a.dtype.str}')
            elif b is not None and a.tobytes() != b:
                old = np.frombuffer(b, dtype=a.dtype).reshape(sh)
                with np.errstate(all='ignore'):
                    nbad = int(np.sum(~((old == a) | ((old != old) & (a != a)))))
                out.append(f'{p}: {nbad} of {a.size} entries changed')
        if not allow and struct(self.obj) != self.struct:
            out.append('container structure (length / element identity) changed')
        elif allow and struct(self.obj) != self.struct:
            out.append('container structure changed')
        return out


def aliases(result, args, exact_limit=20000):
    """Paths (result_path, arg_path) of arrays that share memory."""
    ra = walk_arrays(result)
    aa = walk_arrays(args)
    out = []
    for pr, r in ra:
        if r.size == 0:
            continue
        for pa, a in aa:
            if a.size == 0:
                continue
            if not np.may_share_memory(r, a):
                continue
            try:
                sh = np.shares_memory(r, a, max_work=exact_limit)
            except Exception:
                sh = True   # bounds overlap and exact test too expensive
            if sh:
                out.append((pr or '<result>', pa))
    return out


def set_readonly(obj, flag=True):
    """Make every array reachable from obj read-only; returns undo list."""
    undo = []
    for p, a in walk_arrays(obj):
        if a.flags.writeable and flag:
            try:
                a.setflags(write=False)
                undo.append(a)
            except ValueError:
                pass
    return undo


def restore_writeable(undo):
    for a in undo:
        try:
            a.setflags(write=True)
        except ValueError:
            pass


# ---- uninitialised-memory poison -------------------------------------------

_real_empty = np.empty
_real_empty_like = np.empty_like


class Poison:
    """with Poison('nan' | 'big'): numpy.empty(...) returns poisoned memory.

    Only Python-level callers that look the name up at call time (np.empty in
    teneva) are affected; NumPy's C internals are not.
    """

    def __init__(self, mode='nan'):
        self.mode = mode
        self.calls = 0

    def _fill(self, arr):
        self.calls += 1
        if arr.dtype.kind == 'f':
            arr.fill(np.nan if self.mode == 'nan' else 1.7e300)
        elif arr.dtype.kind == 'c':
            arr.fill(complex(np.nan, np.nan) if self.mode == 'nan' else 1e300)
        elif arr.dtype.kind in 'iu':
            info = np.iinfo(arr.dtype)
            arr.fill(info.max if self.mode == 'nan' else info.min)
        return arr

    def __enter__(self):
        def empty(*a, **k):
            return self._fill(_real_empty(*a, **k))

        def empty_like(*a, **k):
            return self._fill(_real_empty_like(*a, **k))
        np.empty = empty
        np.empty_like = empty_like
        return self

    def __exit__(self, *exc):
        np.empty = _real_empty
        np.empty_like = _real_empty_like
        return False


# ---- hidden random state ---------------------------------------------------

LEGACY = ['rand', 'randn', 'random', 'random_sample', 'randint', 'choice',
    'shuffle', 'permutation', 'normal', 'uniform', 'seed', 'standard_normal',
    'sample', 'ranf', 'bytes', 'beta', 'binomial', 'exponential', 'poisson']


def global_rng_bytes():
    return pickle.dumps(np.random.get_state())


def _teneva_caller():
    f = sys._getframe(2)
    n = 0
    while f is not None and n < 12:
        fn = f.f_code.co_filename
        if '/teneva/' in fn and '/tvmon/' not in fn:
            return f'{fn.rsplit("/", 1)[-1]}:{f.f_code.co_name}:{f.f_lineno}'
        f = f.f_back
        n += 1
    return None


class RngWatch:
    """Counts numpy.random.<legacy> and default_rng calls made from teneva."""

    def __init__(self):
        self.legacy = {}     # caller -> count
        self.default_rng = {}
        self.entropy = {}    # default_rng() without a seed: fresh OS entropy
        self.seeded = {}     # default_rng(<explicit seed>): deterministic

    def __enter__(self):
        self.saved = {}
        for name in LEGACY:
            orig = getattr(np.random, name, None)
            if orig is None:
                continue
            self.saved[name] = orig

            def mk(orig, name):
                def w(*a, **k):
                    c = _teneva_caller()
                    if c:
                        key = f'{name}@{c}'
                        self.legacy[key] = self.legacy.get(key, 0) + 1
                    return orig(*a, **k)
                return w
            setattr(np.random, name, mk(orig, name))
        odr = np.random.default_rng
        self.saved['default_rng'] = odr

        def dr(*a, **k):
            c = _teneva_caller()
            if c:
                self.default_rng[c] = self.default_rng.get(c, 0) + 1
                sd = a[0] if a else k.get('seed')
                tgt = self.entropy if sd is None else self.seeded
                tgt[c] = tgt.get(c, 0) + 1
            return odr(*a, **k)
        np.random.default_rng = dr
        return self

    def __exit__(self, *exc):
        for name, orig in self.saved.items():
            setattr(np.random, name, orig)
        return False


# ---- canonical encodings ---------------------------------------------------

def canon(o, depth=0):
    """Canonical, hashable, bit-exact encoding of a result object."""
    if depth > 8:
        return ('deep',)
    if isinstance(o, np.ndarray):
        if o.dtype == object:
            return ('ao', o.shape, tuple(canon(x, depth + 1)
                for x in o.reshape(-1)))
        return ('a', o.shape, o.dtype.str, np.ascontiguousarray(o).tobytes())
    if isinstance(o, (list, tuple)):
        return (type(o).__name__,) + tuple(canon(x, depth + 1) for x in o)
    if isinstance(o, dict):
        return ('d',) + tuple((repr(k), canon(v, depth + 1))
            for k, v in sorted(o.items(), key=lambda kv: repr(kv[0])))
    if isinstance(o, (float, np.floating)):
        return ('f', float(o).hex())
    if isinstance(o, (bool, np.bool_)):
        return ('b', bool(o))
    if isinstance(o, (int, np.integer)):
        return ('i', int(o))
    if o is None or isinstance(o, str):
        return ('v', o)
    if hasattr(o, '__dict__') and type(o).__module__.startswith('teneva'):
        return ('obj', type(o).__name__, canon(vars(o), depth + 1))
    if callable(o):
        return ('callable',)
    return ('r', repr(o)[:200])


def canon_hash(o):
    import hashlib
    return hashlib.sha1(repr(canon(o)).encode()).hexdigest()[:20]


def hand_out(res):
    """Deep copy of a result for the caller; every array of the ORIGINAL result is
    then edited in place (as a caller may do).  A correct library never sees those
    arrays again; one that keeps a reference (memo, shared buffer, cached identity)
    is corrupted for later calls, which the monitors judge as usual."""
    import copy
    try:
        out = copy.deepcopy(res)
    except Exception:
        return res
    for _, a in walk_arrays(res):
        if a.flags.writeable and a.size and a.dtype.kind in 'fiu':
            try:
                np.multiply(a, 2, out=a, casting='unsafe')
                a.flat[0] += 1
            except Exception:
                pass
    return out
