"""Documented signatures (frozen from the pinned tree, commit bb78f79): positional
calls observed by an interposed monitor are bound by THESE, not by whatever the
implementation under test currently declares."""
import inspect


SIGS = {
    'truncate': '(Y, e=1e-10, r=1000000000000.0, orth=True, use_stab=False, is_eigh=True)',
    'matrix_skeleton': "(A, e=1e-10, r=1000000000000.0, hermitian=False, rel=False, give_to='m')",
    'matrix_svd': '(A, e=1e-10, r=1000000000000.0)',
    'svd': '(Y_full, e=1e-10, r=1000000000000.0)',
    'svd_matrix': '(Y_full, e=1e-10, r=1000000000000.0)',
    'orthogonalize': '(Y, k=None, use_stab=False)',
    'orthogonalize_left': '(Y, i, inplace=False)',
    'orthogonalize_right': '(Y, i, inplace=False)',
    'maxvol': '(A, e=1.05, k=100)',
    'maxvol_rect': '(A, e=1.1, dr_min=0, dr_max=None, e0=1.05, k0=10)',
    '_maxvol': '(A, tau=1.1, dr_min=0, dr_max=0, tau0=1.05, k0=100)',
}


def sig(name):
    ns = {}
    exec(f'def f{SIGS[name]}: pass', {}, ns)
    return inspect.signature(ns['f'])
